"""C18 - a rebuild that fails part-way through the propagation to linked
variants (linkback=True) leaves the other variants in service with their old
table.

Ovld._update() is

    if self._compiled: self.compile()
    for child in self.children: child._update()

so an exception raised by the rebuild of the function itself, or of one child,
stops the propagation: the remaining children keep `_compiled == True` and the
table built before the change, although their method set (Ovld.defns) now
contains the new method.

Scenario 1: the new method is fine for f and for the variant c2 but conflicts
with a method of the variant c1 (argument name in two positions).  c1 fails
with a configuration error (correct), c2 silently keeps dispatching over the
old table - and stays that way even after the offending method of c1 has been
removed.

Scenario 2: the new method is invalid (misuse of call_next).  The rebuild of f
fails, its linked variant c is never told: c's method set contains the invalid
method, yet c does not fail with a configuration error: it silently serves the
old table.
"""

import sys

from ovld import Ovld, call_next, ovld

problems = []


def attempt(fn, *args):
    try:
        return ("ok", fn(*args))
    except Exception as e:  # configuration errors are TypeError / UsageError / OSError
        return ("exc", type(e).__name__, str(e)[:70])


# ---------------------------------------------------------------- scenario 1
@ovld
def f(x: object):
    return "object"


def c1_xy(x: int, y: int):  # 'y' in second position
    return "c1: int, int"


c1 = f.variant(c1_xy, linkback=True)


@f.variant(linkback=True)
def c2(x: float):
    return "c2: float"


# everything is built and in use
assert f("s") == "object" and c1("s") == "object" and c2("s") == "object"
assert c1(1, 2) == "c1: int, int" and c2(1.5) == "c2: float"


def for_str(y: str):  # fine for f and c2; clashes with c1's (x, y)
    return "str"


r = attempt(f.register, for_str)
print("f.register(for_str):", r)

print("f('s')  ->", attempt(f, "s"))
print("c1('s') ->", attempt(c1, "s"))
r2 = attempt(c2, "s")
print("c2('s') ->", r2)
registered_in_c2 = for_str in c2.defns.values()
print("for_str is in c2's method set:", registered_in_c2)
if registered_in_c2 and r2 == ("ok", "object"):
    problems.append(
        "scenario 1: c2('s') silently returns 'object' from the table built "
        "before the change; its complete method set has for_str(y: str) "
        "(a fresh ovld with the same methods returns 'str')"
    )

# remove the offending method of c1: c1 recovers, c2 is still stale
c1.unregister(c1_xy)
print("after removing c1's (x, y) method: c1('s') ->", attempt(c1, "s"), " c2('s') ->", attempt(c2, "s"))
if attempt(c2, "s") == ("ok", "object"):
    problems.append("scenario 1: c2 is still stale after the offending method was removed")


# ---------------------------------------------------------------- scenario 2
@ovld
def h(x: int):
    return "old int"


@ovld
def h(x: object):
    return "object"


@h.variant(linkback=True)
def c(x: float):
    return "float"


assert h(1) == "old int" and c(1) == "old int"


def bad(x: int):
    nxt = call_next  # invalid: call_next must be called right away
    return nxt(x)


print("h.register(bad):", attempt(h.register, bad))
print("h(1) ->", attempt(h, 1))
rc = attempt(c, 1)
print("c(1) ->", rc, "   bad in c's method set:", bad in c.defns.values())
if bad in c.defns.values() and rc[0] == "ok":
    problems.append(
        "scenario 2: the variant c contains the invalid method but c(1) "
        f"silently returns {rc[1]!r} from the old table instead of failing "
        "with a configuration error"
    )
h.unregister(bad)
assert h(1) == "old int" and c(1) == "old int"

for p in problems:
    print("VIOLATION:", p)
if not problems:
    print("ok")
sys.exit(1 if problems else 0)
