import sys, os, threading, random, itertools
import ovld as _ov
from ovld import ovld, Ovld, call_next, recurse, Dependent
from ovld.dependent import Equals
from typing import Literal
LIB = os.path.dirname(_ov.__file__)

class Sched:
    def __init__(self, nthreads, switches):
        self.n = nthreads
        self.switches = set(switches)   # global step numbers at which to pre-empt
        self.step = 0
        self.events = [threading.Event() for _ in range(nthreads)]
        self.alive = [True] * nthreads
        self.blocked = [False] * nthreads
        self.current = 0
        self.lock = threading.Lock()
        self.choices = None
        self.rng = None

    def pick_other(self, tid):
        c = [i for i in range(self.n) if i != tid and self.alive[i]]
        if not c:
            return tid
        if self.rng: return self.rng.choice(c)
        return c[0]

    def switch_from(self, tid, to):
        if to == tid: return
        self.current = to
        self.events[tid].clear()
        self.events[to].set()
        self.events[tid].wait()

    def point(self, tid):
        self.step += 1
        if self.step in self.switches:
            self.switch_from(tid, self.pick_other(tid))

    def block(self, tid):
        # called when tid cannot get a lock
        o = self.pick_other(tid)
        if o == tid:
            raise RuntimeError("deadlock")
        self.switch_from(tid, o)

    def finish(self, tid):
        self.alive[tid] = False
        o = self.pick_other(tid)
        if o != tid:
            self.current = o
            self.events[o].set()

class SLock:
    def __init__(self, sched_ref, tid_of):
        self.l = threading.RLock()
        self.sched_ref = sched_ref
        self.tid_of = tid_of
    def __enter__(self):
        while not self.l.acquire(blocking=False):
            s = self.sched_ref[0]
            s.block(self.tid_of())
        return self
    def __exit__(self, *a):
        self.l.release()

_tls = threading.local()

def run(scn, switches, seed=None):
    """scn() -> (objs, [thunk per thread], check)"""
    sched_ref = [None]
    ctx, thunks, check = scn(lambda: SLock(sched_ref, lambda: _tls.tid))
    n = len(thunks)
    s = Sched(n, switches)
    if seed is not None: s.rng = random.Random(seed)
    sched_ref[0] = s
    results = [None] * n

    def local(frame, event, arg):
        if event == "line":
            s.point(_tls.tid)
        return local
    def tracer(frame, event, arg):
        fn = frame.f_code.co_filename
        if fn.startswith(LIB) or fn.startswith("<ovld:"):
            return local
        return None

    def body(tid):
        _tls.tid = tid
        s.events[tid].wait()
        sys.settrace(tracer)
        try:
            try:
                results[tid] = ("ok", thunks[tid]())
            except BaseException as e:
                results[tid] = ("exc", type(e).__name__, str(e)[:100])
        finally:
            sys.settrace(None)
            s.finish(tid)
    ths = [threading.Thread(target=body, args=(i,)) for i in range(n)]
    for t in ths: t.start()
    s.events[0].set()
    for t in ths: t.join(10)
    if any(t.is_alive() for t in ths):
        return "HANG", results, s.step
    return check(ctx, results), results, s.step

class A: pass
class B(A): pass
class C(B): pass
class D: pass

def build(mklock, kind):
    f = Ovld()
    if kind == "chain":
        def m_obj(x: object): return "obj"
        def m_a(x: A): return ("A", call_next(x))
        def m_b(x: B): return ("B", call_next(x))
        def m_c(x: C): return ("C", call_next(x))
        for m in (m_obj, m_a, m_b, m_c): f.register(m)
    elif kind == "dep":
        def m_obj(x: object, y: object): return "obj"
        def m_1(x: Literal[0], y: A): return ("L0", call_next(x, y))
        def m_2(x: Dependent[int, lambda v: v > 5], y: A): return ("gt5", call_next(x, y))
        def m_int(x: int, y: B): return ("intB", call_next(x, y))
        def m_rec(x: list, y: object): return [recurse(a, y) for a in x]
        for m in (m_obj, m_1, m_2, m_int, m_rec): f.register(m)
    elif kind == "kw":
        def m1(x: int, *, k: int = 0): return ("int", k, call_next(x, k=k))
        def m2(x: object, *, k: object = None): return ("obj", k)
        def m3(x: object, y: int = 3, *, k: str): return ("objy", y, k)
        for m in (m1, m2, m3): f.register(m)
    f._build_lock = mklock()
    return f.dispatch if os.environ.get('VIA','dispatch')=='dispatch' else f

def seq_expected(kind, calls):
    f = build(threading.RLock, kind)
    out = []
    for c in calls:
        try: out.append(("ok", c(f)))
        except Exception as e: out.append(("exc", type(e).__name__, str(e)[:100]))
    return out

def mk_scn(kind, calls, warm=(), probes=()):
    exp = seq_expected(kind, calls)
    pexp = seq_expected(kind, probes)
    def scn(mklock):
        f = build(mklock, kind)
        for w in warm: w(f)
        thunks = [ (lambda c=c: c(f)) for c in calls ]
        def check(ctx, results):
            if results != exp: return ("RESULT", exp)
            got = []
            for p in probes:
                try: got.append(("ok", p(f)))
                except Exception as e: got.append(("exc", type(e).__name__, str(e)[:100]))
            if got != pexp: return ("PROBE", got, pexp)
            return None
        return f, thunks, check
    return scn

SCN = {
 "first_same": mk_scn("chain", [lambda f: f(C()), lambda f: f(C())], probes=[lambda f: f(B()), lambda f: f(1)]),
 "first_diff": mk_scn("chain", [lambda f: f(C()), lambda f: f(A())], probes=[lambda f: f(B()), lambda f: f(1), lambda f: f(C())]),
 "miss_same": mk_scn("chain", [lambda f: f(C()), lambda f: f(C())], warm=[lambda f: f(1)], probes=[lambda f: f(B()), lambda f: f(C())]),
 "miss_diff": mk_scn("chain", [lambda f: f(C()), lambda f: f(B())], warm=[lambda f: f(1)], probes=[lambda f: f(B()), lambda f: f(C()), lambda f: f(A())]),
 "dep_first": mk_scn("dep", [lambda f: f(0, C()), lambda f: f([7, 0, 2], B())], probes=[lambda f: f(7, C()), lambda f: f(0, A()), lambda f: f(2, B())]),
 "dep_miss": mk_scn("dep", [lambda f: f(0, C()), lambda f: f(7, C())], warm=[lambda f: f("s", 1)], probes=[lambda f: f(7, C()), lambda f: f(0, A()), lambda f: f(2, B()), lambda f: f(True, C())]),
 "dep_miss2": mk_scn("dep", [lambda f: f(0, C()), lambda f: f([7, True], B())], warm=[lambda f: f("s", 1)], probes=[lambda f: f(7, C()), lambda f: f(0, A()), lambda f: f(2, B())]),
 "kw_first": mk_scn("kw", [lambda f: f(1, k=2), lambda f: f("s", k="z")], probes=[lambda f: f(1), lambda f: f("a", 2, k="z"), lambda f: f(1, k=3)]),
 "kw_miss": mk_scn("kw", [lambda f: f(1, k=2), lambda f: f(1)], warm=[lambda f: f("s")], probes=[lambda f: f(1), lambda f: f("a", 2, k="z"), lambda f: f(1, k=3)]),
}

if __name__ == "__main__":
    names = sys.argv[1:] or list(SCN)
    for name in names:
        scn = SCN[name]
        v, res, n = run(scn, [])
        print(name, "steps", n, "baseline", v)
        bad = 0
        for k in range(1, n + 1):
            v, res, _ = run(scn, [k])
            if v:
                bad += 1
                if bad <= 3: print("   1-preempt at", k, v, res)
        print("   1-preemption violations:", bad)
        rng = random.Random(1)
        bad = 0
        for it in range(1500):
            ks = sorted(rng.sample(range(1, n + 1), rng.choice([2, 3])))
            v, res, _ = run(scn, ks)
            if v:
                bad += 1
                if bad <= 3: print("   multi-preempt at", ks, v, res)
        print("   multi-preemption violations:", bad)
