import sys, os
import ovld as _ov
from ovld import ovld, Ovld, call_next, recurse
LIB = os.path.dirname(_ov.__file__)

class Boom(BaseException): pass

def run_with_injection(op, k):
    """run op(); raise Boom at k-th library line event (k=None: count)."""
    cnt = [0]
    where = [None]
    def local(frame, event, arg):
        if event == "line":
            cnt[0] += 1
            if k is not None and cnt[0] == k:
                where[0] = (os.path.basename(frame.f_code.co_filename), frame.f_lineno, frame.f_code.co_name)
                raise Boom()
        return local
    def tracer(frame, event, arg):
        fn = frame.f_code.co_filename
        if fn.startswith(LIB) or fn.startswith("<ovld:"):
            return local
        return None
    sys.settrace(tracer)
    try:
        try:
            op()
            exc = None
        except Boom as e:
            exc = e
    finally:
        sys.settrace(None)
    return cnt[0], where[0], exc

class A: pass
class B(A): pass
class C(B): pass

def make():
    f = Ovld(name="f")
    def m_obj(x: object): return "obj"
    def m_a(x: A): return ("A", call_next(x))
    def m_c(x: C): return ("C", call_next(x))
    f.register(m_obj); f.register(m_a); f.register(m_c)
    def m_b(x: B): return ("B", call_next(x))
    return f, dict(m_obj=m_obj, m_a=m_a, m_c=m_c, m_b=m_b)

def expected(fns, x):
    # reference: fresh ovld from same functions
    g = Ovld(name="g")
    for fn in fns: g.register(fn)
    return g(x)

def probe(f):
    out = []
    for x in (C(), B(), A(), 1):
        try: out.append(f(x))
        except Exception as e: out.append(("EXC", type(e).__name__, str(e)[:60]))
    return out

def scenario(kind, k):
    f, m = make()
    if kind == "first":
        op = lambda: f(C())
    elif kind == "reg":
        f(C()); f(1)
        op = lambda: f.register(m["m_b"])
    elif kind == "unreg":
        f(C()); f(1)
        op = lambda: f.unregister(m["m_a"])
    elif kind == "miss":
        f(1)
        op = lambda: f(C())
    n, where, exc = run_with_injection(op, k)
    return f, m, n, where, exc

for kind in ("first", "reg", "unreg", "miss"):
    f, m, n, _, _ = scenario(kind, None)
    print(kind, "lines:", n)
    bad = {}
    for k in range(1, n + 1):
        f, m, _, where, exc = scenario(kind, k)
        if exc is None:
            continue
        fns = list(f.defns.values())
        got = probe(f)
        g = Ovld(name="g")
        for fn in fns: g.register(fn)
        exp = probe(g)
        if got != exp:
            bad.setdefault(where, []).append((k, [fn.__name__ for fn in fns], got, exp))
    for w, v in bad.items():
        print("  VIOLATION at", w, "count", len(v))
        print("     ", v[0])
