import sys, threading
from ovld import ovld, call_next, recurse
sys.setswitchinterval(1e-6)

class A: pass
class B(A): pass
class C(B): pass

def trial():
    @ovld
    def base(x: object): return "obj"
    @ovld
    def base(x: A): return ("A", call_next(x))
    @ovld
    def base(x: B): return ("B", call_next(x))
    @base.variant
    def g(x: C): return ("C", call_next(x))
    N = 6
    bar = threading.Barrier(N)
    res = [None]*N
    def body(i):
        bar.wait()
        try:
            res[i] = g(C())
        except BaseException as e:
            res[i] = ("EXC", type(e).__name__, str(e)[:80])
    ths = [threading.Thread(target=body, args=(i,)) for i in range(N)]
    for t in ths: t.start()
    for t in ths: t.join()
    return [r for r in res if r != ("C", ("B", ("A", "obj")))]

bad = 0
for i in range(300):
    r = trial()
    if r:
        bad += 1
        if bad < 5: print(i, r)
print("bad trials", bad)
