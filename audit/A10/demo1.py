"""C19 - two threads race the very first call of a *variant* (an Ovld object).

`@base.variant def g(...)` (docs/usage.md, "Variants") returns an Ovld object;
calling it goes through Ovld.__call__, which does

    if not self._compiled:
        self.compile()

without re-checking `_compiled` under the build lock (the bootstrap entry of
the plain dispatch function uses ensure_compiled(), which does).  A thread that
saw `_compiled == False` rebuilds the function *again* after the other thread
has finished building, and while that second build refills `self.map` the other
thread's call dispatches over the partially filled table.

The schedule below is forced with sys.settrace (line granularity, 3 switches);
each thread makes exactly one call  g(C()).  Exit status 0 iff both calls
return what they return sequentially and the function is fine afterwards.
"""

import linecache
import sys
import threading
import time

from ovld import call_next, ovld


class A: pass
class B(A): pass
class C(B): pass


@ovld
def base(x: object):
    return "obj"


@ovld
def base(x: A):
    return ("A", call_next(x))


@ovld
def base(x: B):
    return ("B", call_next(x))


@base.variant
def g(x: C):
    return ("C", call_next(x))


EXPECTED = ("C", ("B", ("A", "obj")))


class Pause:
    def __init__(self, name):
        self.name = name
        self.reached = threading.Event()
        self.resume = threading.Event()

    def hit(self):
        if not self.reached.is_set():
            self.reached.set()
            self.resume.wait(20)


P1 = Pause("T2 saw _compiled == False in Ovld.__call__, about to call compile()")
P2 = Pause("T1 built the function and entered the generated dispatch code")
P3 = Pause("T2 is rebuilding: one method registered in the new table")

results = {}
done = {1: threading.Event(), 2: threading.Event()}


def make_tracer(tid):
    nreg = [0]

    def local(frame, event, arg):
        co = frame.f_code
        if event == "line":
            if tid == 2 and co.co_name == "__call__" and co.co_filename.endswith("core.py"):
                if linecache.getline(co.co_filename, frame.f_lineno).strip() == "self.compile()":
                    P1.hit()
            if (
                tid == 1
                and co.co_filename.startswith("<ovld:")
                and co.co_name not in ("<module>", "__WRAP_DISPATCH__")
            ):
                P2.hit()
        return local

    def tracer(frame, event, arg):
        co = frame.f_code
        if "ovld" not in co.co_filename:
            return None
        if tid == 2 and co.co_name == "register_signature" and P1.reached.is_set():
            nreg[0] += 1
            if nreg[0] == 2:
                P3.hit()
        return local

    return tracer


def body(tid):
    sys.settrace(make_tracer(tid))
    try:
        try:
            results[tid] = g(C())
        except BaseException as e:
            results[tid] = ("EXC", type(e).__name__, str(e))
    finally:
        sys.settrace(None)
        done[tid].set()


def wait_any(*events):
    t0 = time.time()
    while time.time() - t0 < 20:
        if any(e.is_set() for e in events):
            return
        time.sleep(0.001)


t2 = threading.Thread(target=body, args=(2,))
t1 = threading.Thread(target=body, args=(1,))
t2.start()
wait_any(P1.reached, done[2])
t1.start()
wait_any(P2.reached, done[1])
P1.resume.set()
wait_any(P3.reached, done[2])
P2.resume.set()
wait_any(done[1])
P3.resume.set()
wait_any(done[2])
for p in (P1, P2, P3):
    p.resume.set()
t1.join()
t2.join()

for p in (P1, P2, P3):
    print(("reached:     " if p.reached.is_set() else "not reached: ") + p.name)

ok = True
for tid in (1, 2):
    if results.get(tid) != EXPECTED:
        ok = False
        print(f"VIOLATION: thread {tid}: g(C()) -> {results.get(tid)!r}, alone it returns {EXPECTED!r}")
after = g(C())
if after != EXPECTED:
    ok = False
    print(f"VIOLATION: later call g(C()) -> {after!r}")
if ok:
    print("ok")
sys.exit(0 if ok else 1)
