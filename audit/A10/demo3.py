"""C18 - after a rebuild that failed part-way, a call_next issued by a method
that was already running dispatches over the partially filled table.

Ovld._compile() replaces `self.map` by a new, empty MultiTypeMap and fills it
method by method; recode() points the global `___MAP<id>` used by every
rewritten call_next(...) at that new map as soon as the first method using
call_next/recurse has been re-adapted.  When a later method of the build is
invalid, Ovld.compile() resets `_compiled` and the entry point (so *new* calls
fail with the configuration error again), but `self.map` / `___MAP<id>` keep
pointing at the half-filled table.  A method that was running when the failed
change was made and then continues with call_next(x) (or f.next(x), which
reads `self.map` without ensure_compiled) is silently dispatched over that
partial table.

Methods, in registration order:  Leaf -> call_next,  object,  str,  Mid.
While f(Leaf()) runs, the Leaf method re-registers the `str` signature with an
invalid method (misuse of call_next) - so in the build order the invalid method
sits before `Mid` - catches the configuration error, and continues with
call_next(x).  With the complete set of methods the continuation of Leaf is
Mid; the partial table only has Leaf and object.
"""

import sys

from ovld import call_next, ovld


class Base: pass
class Mid(Base): pass
class Leaf(Mid): pass


events = []
armed = [False]


@ovld
def f(x: Leaf):
    if armed[0]:
        armed[0] = False
        try:
            f.register(bad)
        except Exception as e:
            events.append(f"f.register(bad) raised {type(e).__name__}: {e}")
    return ("Leaf", call_next(x))


@ovld
def f(x: object):
    return "object"


@ovld
def f(x: str):
    return "str"


@ovld
def f(x: Mid):
    return ("Mid", call_next(x))


def bad(x: str):
    nxt = call_next  # invalid: call_next must be called right away
    return nxt(x)


EXPECTED = ("Leaf", ("Mid", "object"))
assert f(Leaf()) == EXPECTED  # built, in use

armed[0] = True
try:
    got = ("ok", f(Leaf()))
except Exception as e:
    got = ("exc", type(e).__name__, str(e))
print(*events, sep="\n")
print("f(Leaf()) during which the failing change was made ->", got)

# new calls: must fail with the configuration error (they do)
try:
    later = ("ok", f(Leaf()))
except Exception as e:
    later = ("exc", type(e).__name__, str(e))
print("later call f(Leaf()) ->", later)

f.unregister(bad)
recovered = f(Leaf())
print("after f.unregister(bad): f(Leaf()) ->", recovered)

problems = []
config_error = got[0] == "exc" and got[1] in ("UsageError",)
if not config_error and got != ("ok", EXPECTED):
    problems.append(
        f"the running Leaf method's call_next(x) was dispatched over the partially "
        f"filled table: result {got!r}; with the complete set of methods the "
        f"continuation is Mid, i.e. {EXPECTED!r} (or a configuration error)"
    )
if later[0] != "exc" and later != ("ok", EXPECTED):
    problems.append(f"later call: {later!r}")
if recovered != EXPECTED:
    problems.append(f"not recovered: {recovered!r}")
for p in problems:
    print("VIOLATION:", p)
if not problems:
    print("ok")
sys.exit(1 if problems else 0)
