"""C07 - a tie ranked ABOVE the running method makes call_next(other args) fail
instead of continuing with the method ranked below the running one.

Ranks for an argument of class C(A, B):

    scenario 1:            [P(A), Q(B)]  >  M(object)  >  N(object, priority -1)
    scenario 2:  T(C)  >   [P(A), Q(B)]  >  M(object)  >  N(object, priority -1)

M is entered with some other argument (object()), and then delegates with
call_next(C()).  M is applicable to C(), so the statement demands "exactly the
method that would have been chosen for args had the current method and
everything ranked above it not been registered": with M, P, Q (and T) gone the
only method left is N, so N must run.
"""

import sys

from ovld import Ovld, call_next


class A:
    pass


class B:
    pass


class C(A, B):
    pass


def build(with_top):
    f = Ovld()

    def P(x: A):
        return "P"

    def Q(x: B):
        return "Q"

    def M(x: object):
        return ["M", call_next(C())]

    def N(x: object):
        return "N"

    def T(x: C):
        return "T"

    f.register(P)
    f.register(Q)
    f.register(M)
    f.register(N, priority=-1)
    if with_top:
        f.register(T)
    return f


failures = []
for label, with_top in [("tie at the top", False), ("tie below a unique top", True)]:
    f = build(with_top)
    expected = ["M", "N"]
    try:
        got = f(object())
    except TypeError as exc:
        got = f"TypeError: {str(exc).splitlines()[0]}"
    ok = got == expected
    print(f"[{label}] f(object()) -> {got!r}   expected {expected!r}   {'ok' if ok else 'VIOLATION'}")
    if not ok:
        failures.append(label)

    # Sanity: the reference behaviour, obtained by really not registering
    # M and what is above it: N is what a call with C() selects.
    ref = Ovld()

    def N(x: object):
        return "N"

    ref.register(N, priority=-1)
    assert ref(C()) == "N"

if failures:
    print("C07 violated in:", ", ".join(failures))
    sys.exit(1)
print("C07 holds on these inputs")
