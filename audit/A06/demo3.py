"""C07 - f.next(...) from factory-made methods that share one code object
skips applicable methods.

Three methods made by the same factory (same code object, different closure)
are registered for the same type with priorities 3 > 2 > 1, above a plain
method of priority 0.  Each delegates with f.next(x), which docs/usage.md
presents as the (slower) equivalent of call_next(x).  Following the chain must
visit a, b, c, base in that order; with call_next it does.  With f.next the
chain goes a -> base: b and c are never visited.
"""

import sys

from ovld import Ovld, call_next


def make(tag):
    def m(x: int):
        return [tag, *f.next(x)]

    return m


def make_cn(tag):
    def m(x: int):
        return [tag, *call_next(x)]

    return m


def base(x: int):
    return ["base"]


def build(factory):
    F = Ovld()
    F.register(factory("a"), priority=3)
    F.register(factory("b"), priority=2)
    F.register(factory("c"), priority=1)
    F.register(base)
    return F


expected = ["a", "b", "c", "base"]

F = build(make_cn)
got_cn = F(1)
print(f"call_next chain: {got_cn!r}")
assert got_cn == expected

F = build(make)
f = F.dispatch
try:
    got = f(1)
except TypeError as exc:
    got = f"TypeError: {str(exc).splitlines()[0]}"
print(f"f.next chain:    {got!r}   expected {expected!r}")

if got != expected:
    codes = [h.__code__ for h in F.map.priorities]
    same = [c for c in codes if c == codes[0]]
    print(
        f"C07 violated: {len(same)} of the {len(codes)} registered handlers have "
        "code objects that compare equal, so their continuation keys collide"
    )
    sys.exit(1)
print("C07 holds on this input")
