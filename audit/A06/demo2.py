"""C08 (and C07) - recurse(x=...) / call_next(x=...) for a parameter that the
overloaded function accepts by keyword.

docs/usage.md, "Keyword arguments", rule 2: "If every function's positional
arguments are named the same, ovld will also allow you to provide them as
keywords."  So f(x=...) is a documented way of calling f, and C08 demands that
recurse(x=...) behave exactly like f(x=...).  The library raises
"No method ... for argument types [x: str]" instead.
"""

import sys

from ovld import call_next, ovld, recurse


@ovld
def f(x: int):
    return ["int", recurse(x=str(x))]


@ovld
def f(x: str):
    return ["str", x]


@ovld(priority=1)
def g(x: int):
    return ["hi", call_next(x=x + 1)]


@ovld
def g(x: int):
    return ["lo", x]


failures = []

# What the overloaded function itself does with these arguments
direct = f(x="3")
assert direct == ["str", "3"], direct

try:
    got = f(3)
except TypeError as exc:
    got = f"TypeError: {str(exc).splitlines()[0]}"
expected = ["int", direct]
print(f"f(3) with recurse(x='3')    -> {got!r}   expected {expected!r}")
if got != expected:
    failures.append("recurse(x=...)")

try:
    got = g(3)
except TypeError as exc:
    got = f"TypeError: {str(exc).splitlines()[0]}"
expected = ["hi", ["lo", 4]]
print(f"g(3) with call_next(x=4)    -> {got!r}   expected {expected!r}")
if got != expected:
    failures.append("call_next(x=...)")

if failures:
    print("violated:", ", ".join(failures))
    sys.exit(1)
print("C08/C07 hold on these inputs")
