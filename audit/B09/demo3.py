"""C18: after a rebuild that failed part-way, recursive calls made from code of
an earlier activation (a generator / closure returned by a method before the
failure) silently dispatch over the partially filled table of the failed
rebuild."""
import sys

from ovld import call_next, ovld
from ovld.utils import UsageError


@ovld
def f(x: list):
    return (f(e) for e in x)          # lazy: the recursive calls happen on consumption

@ovld
def f(x: object):
    return "object"

@ovld
def f(x: int):
    return "int"

@ovld
def f(x: str):
    return lambda: f(len(x))          # a thunk


assert list(f([1, "a", 2.5])) != []
assert f("ab")() == "int"

pending = f([1, 2, 2.5])              # results of calls made while f was fine
thunk = f("abc")


def better_int(x: int):               # replaces f(x: int); invalid: misuse of call_next
    nxt = call_next
    return nxt(x)


try:
    f.register(better_int)
    print("the registration of the invalid method did not fail?")
    sys.exit(2)
except UsageError:
    pass

# the function itself reports the configuration error, as it should
try:
    f(1)
    print("f(1) worked with an invalid method registered?")
    sys.exit(2)
except UsageError:
    pass

problems = []


def check(label, thunk, complete):
    # allowed: a configuration error, or the answer of the complete method set
    try:
        got = thunk()
    except UsageError:
        return
    except Exception as exc:
        problems.append(f"{label}: {type(exc).__name__}: {exc}")
        return
    if got != complete:
        problems.append(
            f"{label}: silently returned {got!r}; with all registered methods "
            f"(and again once the invalid one is removed) the answer is {complete!r}"
        )


check("list(pending generator)", lambda: list(pending), ["int", "int", "object"])
check("thunk()", thunk, "int")

f.unregister(better_int)
assert f(1) == "int" and list(f([1, 2, 2.5])) == ["int", "int", "object"] and f("abc")() == "int"

if problems:
    print("C18 violated:")
    for p in problems:
        print("  -", p)
    sys.exit(1)
print("ok")
