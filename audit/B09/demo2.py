"""C13: whether Exactly[M] / StrictSubclass[type] / HasMethod[...] / a protocol
is applicable to a value that is a class (whose type is its metaclass) depends
on whether some OTHER method of the function has a type[...] annotation at the
same position."""
import sys
from typing import Protocol, runtime_checkable

from ovld import Ovld
from ovld.types import Exactly, HasMethod, StrictSubclass


class M(type):
    def metameth(cls): ...

class K(metaclass=M): ...          # type(K) is M


@runtime_checkable
class HasMetameth(Protocol):
    def metameth(self): ...


def build(T, with_sibling):
    ov = Ovld(name="f")

    def hit(x):
        return "hit"
    hit.__annotations__ = {"x": T}
    ov.register(hit)

    def fallback(x: object):
        return "fallback"
    ov.register(fallback, priority=-1)

    if with_sibling:
        def sibling(x: type[int]):      # unrelated: only matches int and its subclasses
            return "sibling"
        ov.register(sibling)
    return ov


cases = [
    # annotation,                does type(K) == M satisfy it?
    (M, True),
    (Exactly[M], True),                 # type(K) is exactly M
    (StrictSubclass[type], True),       # M is a proper subclass of type
    (HasMethod["metameth"], True),      # M has the method
    (HasMetameth, True),                # M implements the protocol
    (Exactly[type], False),
    (StrictSubclass[M], False),
]

problems = []
for T, satisfied in cases:
    expected = "hit" if satisfied else "fallback"
    for with_sibling in (False, True):
        got = build(T, with_sibling)(K)
        if got != expected:
            problems.append(
                f"f(x: {T}) called with the class K (type(K) is M), "
                f"{'with' if with_sibling else 'without'} a sibling f(x: type[int]): "
                f"got {got!r}, expected {expected!r}"
            )

if problems:
    print("C13 violated:")
    for p in problems:
        print("  -", p)
    sys.exit(1)
print("ok")
