"""C13: a parameter annotated type[A | C] (PEP 604 union inside type[...]) does
not accept the classes A, C or their subclasses, although type[Union[A, C]]
(typing spelling of the very same type) does.  The subtype test
subclasscheck(A, A | C) is False."""
import sys
import typing

from ovld import ovld, subclasscheck


class A: ...
class B(A): ...
class C: ...
class D: ...


@ovld
def f(cls: type[A | C]):
    return "A|C"

@ovld
def f(cls: object):
    return "other"


@ovld
def g(cls: type[typing.Union[A, C]]):
    return "A|C"

@ovld
def g(cls: object):
    return "other"


problems = []
for arg in (A, B, C, D, int):
    expected = "A|C" if issubclass(arg, (A, C)) else "other"   # member of some union arm
    for fn, spelling in ((f, "type[A | C]"), (g, "type[Union[A, C]]")):
        got = fn(arg)
        if got != expected:
            problems.append(f"{spelling}: call with class {arg.__name__} -> {got!r}, expected {expected!r}")

for t1 in (A, B, C):
    if not subclasscheck(t1, A | C):
        problems.append(f"subclasscheck({t1.__name__}, A | C) is False")
    if not subclasscheck(type[t1], type[A | C]):
        problems.append(f"subclasscheck(type[{t1.__name__}], type[A | C]) is False")

if problems:
    print("C13 violated:")
    for p in problems:
        print("  -", p)
    sys.exit(1)
print("ok")
