"""C18: a failed first-use build of a variant / copy locks the ovld it derives
from, so the offending method can never be removed any more: both functions are
permanently out of service (whereas calling the parent first would have left
everything repairable)."""
import sys

from ovld import call_next, ovld
from ovld.utils import UsageError


def scenario(first):
    @ovld
    def f(x: int):
        return "int"

    @ovld
    def f(x: object):
        return "object"

    def bad(x: str):            # misuse of call_next
        nxt = call_next
        return nxt(x)

    f.register(bad)

    g = f.copy()                # a copy / variant of f with one more method

    @g.register
    def g_float(x: float):
        return "float"

    target = {"f": f, "g": g}[first]
    try:
        target(1)
        return f"{first}(1) worked with an invalid method registered?"
    except UsageError:
        pass                    # configuration error: fine

    # repair: remove the offending method
    try:
        f.unregister(bad)
    except Exception as exc:
        return (
            f"after the failed build of {first}, the offending method cannot be "
            f"removed: {type(exc).__name__}: {exc}"
        )
    try:
        got = (f(1), f("s"), g(1), g(1.5), g("s"))
    except Exception as exc:
        return f"after removal: {type(exc).__name__}: {exc}"
    if got != ("int", "object", "int", "float", "object"):
        return f"after removal: {got}"
    return None


problems = [p for p in (scenario("f"), scenario("g")) if p]
if problems:
    print("C18 violated:")
    for p in problems:
        print("  -", p)
    sys.exit(1)
print("ok")
