"""C05: a recursion made after a successful unregister still dispatches over
the table from before the change.

A generator (or any activation) of method `walk_list` is handed out; then
walk_list is unregistered and another method for lists is registered (both
changes succeed, the function is rebuilt).  Every later call must behave as on
a brand-new function built from the resulting method set {walk_obj,
walk_list2}; the recursion `recurse(e)` that the old generator makes afterwards
is such a later call, but it is looked up in the table of before the change
and runs the method that was unregistered.
"""
import sys

from ovld import Ovld, recurse


def walk_list(x: list):
    for e in x:
        yield from recurse(e)


def walk_obj(x: object):
    yield ("obj", x)


def walk_list2(x: list):
    yield ("list2", len(x))


# history
H = Ovld(name="walk")
H.register(walk_list)
H.register(walk_obj)
gen = H([1, [2, 3]])
first = next(gen)  # ("obj", 1): the generator is now suspended inside walk_list
H.unregister(walk_list)
H.register(walk_list2)
rest = list(gen)  # continues with recurse([2, 3]) - a call made after the change

# what a brand-new function with the resulting method set answers to that call
F = Ovld(name="walk")
F.register(walk_obj)
F.register(walk_list2)
expected = list(F([2, 3]))
direct = list(H([2, 3]))  # the same call through the entry point of H

print("recurse([2, 3]) from the old activation :", rest)
print("H([2, 3]) through the entry point        :", direct)
print("fresh function F([2, 3])                 :", expected)

ok = True
if direct != expected:
    print("FAIL: entry point differs from fresh function")
    ok = False
if rest != expected:
    print(
        "FAIL: the recursion made after unregister/register ran the "
        "unregistered method (stale table in the ___MAP<id>__ global)"
    )
    ok = False

# same thing without generators: a method that removes itself and recurses
state = {"n": 0}
G = Ovld(name="g")


def g_int(x: int):
    state["n"] += 1
    if state["n"] > 1:
        return ("int-again",)
    G.unregister(g_int)
    return recurse(x)


def g_obj(x: object):
    return ("obj",)


G.register(g_int)
G.register(g_obj)
got = G(1)
print("g_int unregisters itself, then recurse(1) ->", got, "; expected ('obj',)")
if got != ("obj",):
    print("FAIL: recurse(1) after the unregistration still reached g_int")
    ok = False

sys.exit(0 if ok else 1)
