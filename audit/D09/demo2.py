"""C13 (minor): StrictSubclass over a union that has `type` as a member never matches a
class passed as argument, although type(v) is a proper subclass of a union member."""
import sys
from ovld import Ovld
from ovld.types import StrictSubclass, Union

class M(type): pass
class K(metaclass=M): pass

def applicable(T, v):
    o = Ovld()
    def m(x): return "T"
    m.__annotations__ = {"x": T}
    o.register(m)
    try:
        return o(v) == "T"
    except TypeError:
        return False

bad = []
# control: documented meaning holds for the plain spellings
assert applicable(StrictSubclass[type], K) is True       # M is a proper subclass of type
assert applicable(StrictSubclass[type], int) is False    # type(int) is type itself
assert applicable(Union[type, str], K) is True
assert applicable(StrictSubclass[Union[int, str]], True) is True   # bool < int
# type(K) = M is a proper subclass of `type`, a member of the union -> must be applicable
for v in (K, M):
    got = applicable(StrictSubclass[Union[type, str]], v)
    if got is not True:
        bad.append((v, got))
if bad:
    print("VIOLATION: StrictSubclass[Union[type, str]] not applicable to", bad)
    sys.exit(1)
