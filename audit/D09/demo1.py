"""C18: an interrupt during the rebuild after a change (f.unregister / f.register on a
built function that has linked variants) leaves the linked children in service on the
OLD table: they keep dispatching to a method that is no longer registered anywhere
(resp. never see the new one), silently and for good, while the parent itself is rebuilt.
Exit 0 = property holds, 1 = violated."""
import sys
from ovld import Ovld, call_next

SRC_FUNC = "_compile"  # the interrupt arrives when the parent starts rebuilding


class A: pass
class B(A): pass


def interrupt_once_in(funcname):
    state = {"fired": False}

    def glob(frame, event, arg):
        co = frame.f_code
        if (not state["fired"] and co.co_name == funcname
                and co.co_filename.endswith("ovld/core.py")):
            def loc(frame, event, arg):
                if event == "line" and not state["fired"]:
                    state["fired"] = True
                    raise KeyboardInterrupt("Ctrl-C")
                return loc
            return loc
        return None
    return glob, state


def build():
    f = Ovld()

    @f.register
    def f_a(x: A):
        return "A"

    def f_b(x: B):
        return "B"
    f.register(f_b)

    g = f.copy(linkback=True)   # a linked variant: changes of f are propagated to it

    @g.register
    def g_int(x: int):
        return "int"
    return f, g, f_b


# reference: the same operations, no interrupt
f, g, f_b = build()
assert f(B()) == "B" and g(B()) == "B"
f.unregister(f_b)
assert f(B()) == "A" and g(B()) == "A"

# the same with Ctrl-C arriving while f is being rebuilt
f, g, f_b = build()
assert f(B()) == "B" and g(B()) == "B"      # both built and in use
tracer, state = interrupt_once_in(SRC_FUNC)
sys.settrace(tracer)
try:
    f.unregister(f_b)
except KeyboardInterrupt:
    pass
finally:
    sys.settrace(None)
assert state["fired"]

registered_in_f = f_b in f._defns.values()
registered_in_g = f_b in g.defns.values()
rf, rg = f(B()), g(B())
print("f_b still registered: in f:", registered_in_f, " in g:", registered_in_g)
print("f(B()) ->", rf, "   g(B()) ->", rg)
ok = (rf, rg) in [("A", "A"), ("B", "B")] and (rg == "B") == registered_in_g
if not ok:
    print("VIOLATION: the linked variant g still dispatches to f_b, which is not in its "
          "set of registered methods any more (f was rebuilt, g was never told)")
    sys.exit(1)
sys.exit(0)
