"""C15 - reordering the members of a union changes the behaviour.

A union that has a type[...] member next to a value-dependent member
(Literal[...], list[int], ...) is checked by generated code that tests the
members in the order they were written, with a plain
`isinstance(arg, type[int])` for the type[...] member - which raises
"isinstance() argument 2 cannot be a parameterized generic".  Whether a call
works therefore depends on whether a matching member happens to be written
before the type[...] member.

Exit status 0 if all spellings behave identically, 1 otherwise.
"""

import sys
import typing
from typing import Literal, Union

from ovld import Ovld


def make(annotation):
    ov = Ovld()

    def hit(x):
        return "hit"

    hit.__annotations__ = {"x": annotation}
    ov.register(hit)

    def fallback(x: float):
        return "fallback"

    ov.register(fallback)
    return ov


def outcome(ov, arg):
    try:
        return ov(arg)
    except Exception as exc:  # noqa: BLE001
        return f"{type(exc).__name__}: {str(exc).splitlines()[0][:70]}"


A = Literal["a"]
T = type[int]

spellings = {
    "Union[Literal['a'], type[int]]": Union[A, T],
    "Union[type[int], Literal['a']]": Union[T, A],
    "Literal['a'] | type[int]": A | T,
    "type[int] | Literal['a']": T | A,
    "(Literal['a'], type[int])": (A, T),
    "(type[int], Literal['a'])": (T, A),
}
# the same with a generic alias as the value-dependent member
spellings2 = {
    "Union[list[int], type[int]]": Union[list[int], T],
    "Union[type[int], list[int]]": Union[T, list[int]],
}

problems = []
for group, args in [(spellings, ["a", "zz", int, str, 1.5]), (spellings2, [[1], ["s"], int, str, 1.5])]:
    ovs = {name: make(ann) for name, ann in group.items()}
    for arg in args:
        results = {name: outcome(ov, arg) for name, ov in ovs.items()}
        if len(set(results.values())) != 1:
            problems.append((arg, results))

if problems:
    print("C15 violated: equivalent spellings of one union behave differently")
    for arg, results in problems:
        print(f"  call with {arg!r}:")
        for name, res in results.items():
            print(f"      {name:34} -> {res}")
    sys.exit(1)
print("ok")
