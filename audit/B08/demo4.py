"""C12 - Dependent[bound, check] written twice is not the same type as itself.

`Dependent[int, positive]` evaluated twice (same bound, same check function)
gives two types that are neither equal nor ordered: typeorder answers NONE
where "same means same" demands SAME.  (Exactly[A], HasMethod["m"],
class_check(fn), Literal[1], list[int], ... written twice are all SAME.)
Consequences in dispatch: two methods that agree on that parameter are never
compared on their other parameters (ambiguity instead of the more specific
one), and re-registering a method with the very same annotation does not
replace the old one.

Exit status 0 if the property holds, 1 if it is violated.
"""

import sys

from ovld import Dependent, ovld
from ovld.mro import Order, typeorder


def positive(x):
    return x > 0


problems = []

t1 = Dependent[int, positive]
t2 = Dependent[int, positive]
o12, o21 = typeorder(t1, t2), typeorder(t2, t1)
if o12 is not Order.SAME or o21 is not Order.SAME:
    problems.append(
        f"typeorder(Dependent[int, positive], Dependent[int, positive]) = {o12} / {o21}, expected SAME / SAME"
    )


# same first parameter, second parameter int against object: int is more specific
@ovld
def f(x: Dependent[int, positive], y: int):
    return "y: int"


@ovld
def f(x: Dependent[int, positive], y: object):
    return "y: object"


try:
    got = f(1, 2)
    if got != "y: int":
        problems.append(f"f(1, 2) returned {got!r}, expected 'y: int'")
except TypeError as exc:
    problems.append(f"f(1, 2) raised {str(exc).splitlines()[0]!r}, expected the 'y: int' method")


# registering again under the same signature replaces the method
@ovld
def g(x: Dependent[int, positive]):
    return "old"


@ovld
def g(x: Dependent[int, positive]):
    return "new"


try:
    got = g(1)
    if got != "new":
        problems.append(f"g(1) returned {got!r}, expected 'new'")
except TypeError as exc:
    problems.append(f"g(1) raised {str(exc).splitlines()[0]!r}, expected the re-registered method to replace the first")

if problems:
    print("C12 violated:")
    for p in problems:
        print(" -", p)
    sys.exit(1)
print("ok")
