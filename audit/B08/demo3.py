"""C15 - typing.Union[A, B] and A | B are not interchangeable inside type[...].

`t: type[Union[int, str]]` (the spelling used by the library's own
deserialisation example, tests/test_examples.py) accepts the classes int and
str; `t: type[int | str]` accepts neither of them: the call falls through to
another method or fails with "No method".

Exit status 0 if both spellings dispatch identically, 1 otherwise.
"""

import sys
import typing
from typing import Optional, Union

from ovld import Ovld


def make(annotation, with_fallback):
    ov = Ovld()

    def hit(t):
        return "hit"

    hit.__annotations__ = {"t": annotation}
    ov.register(hit)

    if with_fallback:

        def fallback(t: object):
            return "fallback"

        ov.register(fallback)
    return ov


def outcome(ov, arg):
    try:
        return ov(arg)
    except Exception as exc:  # noqa: BLE001
        return f"{type(exc).__name__}: {str(exc).splitlines()[0][:60]}"


groups = [
    {
        "type[Union[int, str]]": type[Union[int, str]],
        "type[int | str]": type[int | str],
        "type[str | int]": type[str | int],
        "Type[Union[int, str]]": typing.Type[Union[int, str]],
    },
    {
        "type[Optional[int]]": type[Optional[int]],
        "type[int | None]": type[int | None],
    },
]
args = [int, str, bool, float, type(None)]

problems = []
for group in groups:
    for with_fallback in (False, True):
        ovs = {name: make(ann, with_fallback) for name, ann in group.items()}
        for arg in args:
            results = {name: outcome(ov, arg) for name, ov in ovs.items()}
            if len(set(results.values())) != 1:
                problems.append((with_fallback, arg, results))

if problems:
    print("C15 violated: equivalent spellings of a union inside type[...] dispatch differently")
    for with_fallback, arg, results in problems:
        extra = " (method set also has f(t: object))" if with_fallback else ""
        print(f"  call with {arg!r}{extra}:")
        for name, res in results.items():
            print(f"      {name:24} -> {res}")
    sys.exit(1)
print("ok")
