"""C12 - a plain class against a generic alias of a *different*, more general origin.

typeorder(list, Sequence[int]) answers LESS ("list is more specific than
Sequence[int]") on the strength of issubclass(list, Sequence) alone, although
neither type is a subtype of the other (subclasscheck says so too).  The order
is then not transitive on the class / generic fragment
(list[str] < list < Sequence[int], but list[str] and Sequence[int] are
unrelated), and a call that should be ambiguous silently runs one method.

Exit status 0 if the property holds, 1 if it is violated.
"""

import sys
from collections.abc import Mapping, Sequence

from ovld import ovld
from ovld.mro import Order, subclasscheck, typeorder

problems = []


def le(a, b):
    return typeorder(a, b) in (Order.LESS, Order.SAME)


# 1. the relation itself -------------------------------------------------------
for cls, alias in [(list, Sequence[int]), (dict, Mapping[str, int]), (tuple, Sequence[str])]:
    sub = subclasscheck(cls, alias)
    sup = subclasscheck(alias, cls)
    o1 = typeorder(cls, alias)
    o2 = typeorder(alias, cls)
    # neither is a subtype of the other: a list need not be a Sequence[int]
    # (list[str] is not), a Sequence[int] need not be a list (tuple[int] is not)
    if not sub and not sup and (o1 is not Order.NONE or o2 is not Order.NONE):
        problems.append(
            f"typeorder({cls.__name__}, {alias}) = {o1}, reverse = {o2}; "
            f"expected NONE both ways (subclasscheck: {sub} / {sup})"
        )

# 2. transitivity on the class / generic fragment --------------------------------
a, b, c = list[str], list, Sequence[int]
if le(a, b) and le(b, c) and not le(a, c):
    problems.append(
        f"not transitive: {a} <= {b.__name__} ({typeorder(a, b)}), "
        f"{b.__name__} <= {c} ({typeorder(b, c)}), but typeorder({a}, {c}) = {typeorder(a, c)}"
    )


# 3. what dispatch makes of it -----------------------------------------------------
@ovld
def f(t: type[list]):
    return "type[list]"


@ovld
def f(t: type[Sequence[int]]):
    return "type[Sequence[int]]"


# list[int] is both a list type and a Sequence[int] type; the two annotations
# are unrelated, so the documented outcome is the ambiguity error.
try:
    got = f(list[int])
except TypeError as exc:
    if "Ambiguous" not in str(exc):
        problems.append(f"f(list[int]) raised an unexpected {exc!r}")
else:
    problems.append(
        f"f(list[int]) silently ran the {got!r} method; the two methods are unrelated, "
        "the call should be ambiguous"
    )

if problems:
    print("C12 violated:")
    for p in problems:
        print(" -", p)
    sys.exit(1)
print("ok")
