"""C07 (resolution order cannot be walked at all): a method annotated
type[A | int] next to any other type[...] method makes every call fail with
TypeError('issubclass() arg 1 must be a class').

Exit 0 if the property holds, 1 otherwise.
"""
import sys
import typing
from ovld import ovld, call_next


class A:
    pass


class B(A):
    pass


problems = []


def check(label, union_type):
    @ovld
    def f(x: type[B]):
        return ["type[B]"] + call_next(x)

    @ovld
    def f(x: union_type):
        return ["type[A|int]"] + call_next(x)

    @ovld
    def f(x: object):
        return ["object"]

    for arg, expected in [
        (B, ["type[B]", "type[A|int]", "object"]),
        (A, ["type[A|int]", "object"]),
        (int, ["type[A|int]", "object"]),
        (3, ["object"]),
    ]:
        try:
            got = f(arg)
        except Exception as e:
            got = f"{type(e).__name__}: {e}"
        if got != expected:
            problems.append(f"{label}: f({arg!r}) -> {got!r}, expected {expected}")


check("type[A | int]", type[A | int])
check("type[Union[A, int]]", type[typing.Union[A, int]])

# for reference: alone, the annotation is understood
@ovld
def g(x: type[A | int]):
    return "ok"

assert g(B) == "ok" and g(int) == "ok"

for p in problems:
    print(p)
sys.exit(1 if problems else 0)
