"""C07: f.next(...) inside a method that is run through a variant / mixin child.

Exit 0 if the property holds, 1 otherwise.
"""
import sys
from ovld import ovld, call_next, OvldBase, extend_super

problems = []


def build():
    @ovld
    def f(x: int):
        return ["f.int"] + f.next(x)

    @ovld
    def f(x: object):
        return ["f.obj"]

    @f.variant
    def g(x: bool):
        return ["g.bool"] + call_next(x)

    return f, g


EXPECTED = ["g.bool", "f.int", "f.obj"]

# (a) the parent was never called before the variant is
f, g = build()
try:
    got = g(True)
except TypeError as e:
    got = f"TypeError: {e}"
except Exception as e:
    got = f"{type(e).__name__}: {e}"
if got != EXPECTED:
    problems.append(f"(a) parent not yet used: g(True) -> {got!r}, expected {EXPECTED}")

# (b) the same definitions, but the parent was called once before
f, g = build()
f(1)
try:
    got_b = g(True)
except Exception as e:
    got_b = f"{type(e).__name__}: {e}"
if got_b != EXPECTED:
    problems.append(f"(b) parent used before: g(True) -> {got_b!r}, expected {EXPECTED}")
if isinstance(got_b, list) and len(set(got_b)) != len(got_b):
    problems.append(f"(b) a method is visited twice in one chain: {got_b}")
if got != got_b:
    problems.append("(a) and (b) differ: the result of g(True) depends on whether f was called before")


# (c) the same with methods that take self (extend_super = variant of the base's function)
class P(OvldBase):
    def h(self, x: int):
        return ["P.int"] + P.h.next(x)

    def h(self, x: object):
        return ["P.obj"]


class Q(P):
    @extend_super
    def h(self, x: bool):
        return ["Q.bool"] + call_next(x)


try:
    got_c = Q().h(True)
except Exception as e:
    got_c = f"{type(e).__name__}: {e}"
if got_c != ["Q.bool", "P.int", "P.obj"]:
    problems.append(f"(c) class form: Q().h(True) -> {got_c!r}, expected ['Q.bool', 'P.int', 'P.obj']")

for p in problems:
    print(p)
sys.exit(1 if problems else 0)
