"""C03 (neighbours of the repairs 2a9e699 and a86ab79): recurse / call_next in a
comprehension that sits in a class statement inside a method.
 (a) in the element of the comprehension the rewriting puts an assignment
     expression, which Python forbids in a comprehension of a class body: the
     function cannot be built at all (SyntaxError on the first call of ANY method);
 (b) in the iterable of the comprehension the rewriting makes
     (lambda __TMP0_0: ...)(__TMP0_0=...): inside the class statement the
     parameter is name-mangled (_K__TMP0_0), the keyword is not: TypeError."""
import sys
from ovld import ovld, recurse


@ovld
def f(x: int):
    return x + 1
@ovld
def f(x: str):
    class K:
        doubled = [recurse(y) for y in (1, 2)]
    return K.doubled


@ovld
def g(x: int):
    return x + 1
@ovld
def g(x: list):
    return x
@ovld
def g(x: str):
    class K:
        items = [y for y in recurse([1, 2])]
    return K.items


bad = []
def check(label, thunk, expected):
    try:
        got = thunk()
    except BaseException as exc:
        got = f"raised {type(exc).__name__}: {exc}"
    if got != expected:
        bad.append(f"{label}: expected {expected!r}, got {got!r}")

check("f(1)", lambda: f(1), 2)                 # not even the int method can be called
check("f('a')", lambda: f("a"), [2, 3])
check("g('a')", lambda: g("a"), [1, 2])

if bad:
    print("C03 violated: result / call shape not passed through:")
    for line in bad:
        print("  ", line)
    sys.exit(1)
print("ok")
