"""C03 (neighbour of the repairs 67809b2 / eb666fe): the generated entry point
calls strictly positional parameters ARG1, ARG2, ... without checking that no
user parameter has that name. A keyword-only (or later positional) parameter
called ARG1 next to positional parameters that are named differently in two
methods makes every call fail with SyntaxError: duplicate argument 'ARG1'."""
import sys
from ovld import ovld


@ovld
def f(x: int, *, ARG1: int = 10):
    return ("int", x, ARG1)
@ovld
def f(y: str, *, ARG1: int = 20):
    return ("str", y, ARG1)


@ovld
def g(x: int, ARG1: int):
    return ("int", x, ARG1)
@ovld
def g(y: str, ARG1: int):
    return ("str", y, ARG1)


bad = []
def check(label, thunk, expected):
    try:
        got = thunk()
    except BaseException as exc:
        got = f"raised {type(exc).__name__}: {exc}"
    if got != expected:
        bad.append(f"{label}: expected {expected!r}, got {got!r}")

check("f(1, ARG1=2)", lambda: f(1, ARG1=2), ("int", 1, 2))
check("f('a')", lambda: f("a"), ("str", "a", 20))
check("g(1, 2)", lambda: g(1, 2), ("int", 1, 2))
check("g('a', ARG1=3)", lambda: g("a", ARG1=3), ("str", "a", 3))

if bad:
    print("C03 violated: calls that a method accepts are rejected (the entry point cannot be generated):")
    for line in bad:
        print("  ", line)
    sys.exit(1)
print("ok")
