"""C03 (and the incomplete repair b9a877a): type[...] written inside a container
annotation (list[type[A]], tuple[type[A], int], dict[str, type[A]]) - and the
Ellipsis of tuple[int, ...] - reach isinstance(), which refuses them: the call
that the method accepts dies with a stray TypeError of isinstance() instead of
running the method (or, for a value the method does not accept, instead of going
on to the next method)."""
import sys
from ovld import ovld


class A: pass
class B(A): pass


@ovld
def f(x: list[type[A]]):
    return "list-of-classes"
@ovld
def f(x: tuple[type[A], int]):
    return "pair"
@ovld
def f(x: dict[str, type[A]]):
    return "mapping"
@ovld
def f(x: object):
    return "object"


@ovld
def g(x: tuple[int, ...]):
    return "ints"
@ovld
def g(x: object):
    return "object"


bad = []
def check(label, thunk, expected):
    try:
        got = thunk()
    except Exception as exc:
        got = f"raised {type(exc).__name__}: {exc}"
    if got != expected:
        bad.append(f"{label}: expected {expected!r}, got {got!r}")

check("f([B])", lambda: f([B]), "list-of-classes")
check("f([int])", lambda: f([int]), "object")          # int is not a type[A]
check("f((B, 1))", lambda: f((B, 1)), "pair")
check("f((int, 1))", lambda: f((int, 1)), "object")
check("f({'k': B})", lambda: f({"k": B}), "mapping")
check("f([])", lambda: f([]), "list-of-classes")       # (works: nothing to test)
check("g((1, 2))", lambda: g((1, 2)), "ints")

if bad:
    print("C03 violated: a call shape that a method accepts is rejected by an error of isinstance():")
    for line in bad:
        print("  ", line)
    sys.exit(1)
print("ok")
