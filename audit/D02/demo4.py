"""C17 (scope: class hierarchies): a subclass of an OvldBase / OvldMC class that
passes class keyword arguments (consumed by __init_subclass__) cannot be created:
OvldMC.__prepare__ does not accept the keywords Python hands to it."""
import sys
from ovld import OvldBase, extend_super

problems = []

class A(OvldBase):
    def __init_subclass__(cls, tag=None, **kw):
        super().__init_subclass__(**kw)
        cls.tag = tag

    def f(self, x: int):
        return "A.int"

    def f(self, x: str):
        return "A.str"

try:
    class B(A, tag="b"):
        @extend_super
        def f(self, x: float):
            return "B.float"

    got = (B().f(1), B().f("s"), B().f(1.0), B.tag, A().f(1))
    if got != ("A.int", "A.str", "B.float", "b", "A.int"):
        problems.append(f"got {got}")
except Exception as e:
    problems.append(f"class B(A, tag='b'): {type(e).__name__}: {e}")

if problems:
    print("C17 violated:")
    for p in problems:
        print("  ", p)
    sys.exit(1)
print("ok")
