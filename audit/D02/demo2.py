"""C17: a class body whose first definition of a name is plain and whose later
definition carries @extend_super, in a class whose bases have nothing under that
name, crashes with AttributeError while the class is being created. Every other
placement of the marker works (marker first; or bases that do define the name)."""
import sys
from ovld import OvldBase, extend_super

problems = []

# controls
class Ctl1(OvldBase):
    @extend_super
    def f(self, x: str):
        return "str"

    def f(self, x: int):
        return "int"

class Base(OvldBase):
    def f(self, x: float):
        return "float"

    def f(self, x: bytes):
        return "bytes"

class Ctl2(Base):
    def f(self, x: int):
        return "int"

    @extend_super
    def f(self, x: str):
        return "str"

if (Ctl1().f(1), Ctl1().f("s")) != ("int", "str"):
    problems.append("control 1 wrong")
if (Ctl2().f(1), Ctl2().f("s"), Ctl2().f(1.0)) != ("int", "str", "float"):
    problems.append("control 2 wrong")

try:
    class A(OvldBase):
        def f(self, x: int):
            return "int"

        @extend_super
        def f(self, x: str):
            return "str"

    got = (A().f(1), A().f("s"))
    if got != ("int", "str"):
        problems.append(f"plain def then @extend_super def: got {got}")
except Exception as e:
    problems.append(f"plain def then @extend_super def (nothing inherited): {type(e).__name__}: {e}")

# the same as a mixin without the metaclass base having the name: M is later combined by a subclass
try:
    class Root(OvldBase):
        pass

    class B(Root):
        def g(self, x: int):
            return "int"

        @extend_super
        def g(self, x: str):
            return "str"

    got = (B().g(1), B().g("s"))
    if got != ("int", "str"):
        problems.append(f"subclass of a base without the name: got {got}")
except Exception as e:
    problems.append(f"subclass of a base without the name: {type(e).__name__}: {e}")

if problems:
    print("C17 violated:")
    for p in problems:
        print("  ", p)
    sys.exit(1)
print("ok")
