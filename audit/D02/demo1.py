"""C17: in an OvldBase / OvldMC class body, a plain first definition followed by
a definition decorated with @ovld (or @ovld(priority=...)) cannot be defined:
TypeError('@ovld requires Ovld instance'). The other order works."""
import sys
from ovld import OvldBase, ovld

problems = []

# control: the decorated definition first, the plain one second -> one overloaded method
class Ctl(OvldBase):
    @ovld(priority=1)
    def f(self, x: int):
        return "int"

    def f(self, x: str):
        return "str"

if (Ctl().f(1), Ctl().f("s")) != ("int", "str"):
    problems.append("control case does not dispatch")

for label, deco in [("@ovld", ovld), ("@ovld(priority=1)", ovld(priority=1))]:
    try:
        class A(OvldBase):
            def f(self, x: str):
                return "str"

            @deco
            def f(self, x: int):
                return "int"

        got = (A().f(1), A().f("s"))
        if got != ("int", "str"):
            problems.append(f"plain def then {label}: got {got}")
    except Exception as e:
        problems.append(f"plain def then {label}: {type(e).__name__}: {e}")

if problems:
    print("C17 violated:")
    for p in problems:
        print("  ", p)
    sys.exit(1)
print("ok")
