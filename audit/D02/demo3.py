"""C02: a method set whose methods name their first parameter differently (so that
position becomes positional-only and the generated entry point calls it ARG1) and
have a later parameter that the user called ARG1: the function cannot be built
(SyntaxError: duplicate argument 'ARG1'), no call resolves."""
import sys
from ovld import ovld

problems = []

@ovld
def f(a: int, ARG1: str):
    return "int"

@ovld
def f(b: float, ARG1: str):
    return "float"

@ovld
def g(a: int, *, ARG1: str):
    return "int"

@ovld
def g(b: float, *, ARG1: str):
    return "float"

# control: same method sets with another parameter name
@ovld
def h(a: int, ARG9: str):
    return "int"

@ovld
def h(b: float, ARG9: str):
    return "float"

if (h(1, "x"), h(1.0, "x")) != ("int", "float"):
    problems.append("control wrong")

for label, thunk, exp in [
    ("f(1, 'x')", lambda: f(1, "x"), "int"),
    ("f(1.0, 'x')", lambda: f(1.0, "x"), "float"),
    ("f.resolve(1, 'x')", lambda: f.resolve(1, "x")(1, "x"), "int"),
    ("g(1, ARG1='x')", lambda: g(1, ARG1="x"), "int"),
    ("g(1.0, ARG1='x')", lambda: g(1.0, ARG1="x"), "float"),
]:
    try:
        got = thunk()
        if got != exp:
            problems.append(f"{label}: got {got!r}, expected {exp!r}")
    except BaseException as e:
        problems.append(f"{label}: {type(e).__name__}: {e}")

if problems:
    print("C02 violated:")
    for p in problems:
        print("  ", p)
    sys.exit(1)
print("ok")
