"""C09 - a rewritten method loses `from __future__ import annotations`.

The module below uses postponed evaluation of annotations (PEP 563).  A nested
function inside a method annotates its parameter with a name that only exists
for type checkers.  As written this is fine: under the future import the
annotation is never evaluated.  Once the method is registered, ovld recompiles
its source WITHOUT the future flag, so the annotation of the nested function is
evaluated every time the method runs.
"""
from __future__ import annotations

import sys
from typing import TYPE_CHECKING

from ovld import ovld, recurse

if TYPE_CHECKING:  # pragma: no cover
    from somewhere_only_the_type_checker_sees import Node


# --- the source as written, with recurse bound to an ordinary callable -------
def plain_walk(x):
    if isinstance(x, list):
        return plain_walk_list(x, recurse=plain_walk)
    return x + 1


def plain_walk_list(x, recurse):
    def visit(item: Node) -> Node:
        return recurse(item)

    return [visit(v) for v in x], visit.__annotations__


# --- the same method, registered ---------------------------------------------
@ovld
def walk(x: list):
    def visit(item: Node) -> Node:
        return recurse(item)

    return [visit(v) for v in x], visit.__annotations__


@ovld
def walk(x: int):
    return x + 1


expected = plain_walk([1, 2])
try:
    got = walk([1, 2])
except Exception as exc:
    print("expected (source as written):", expected)
    print(f"registered method raised {type(exc).__name__}: {exc}")
    sys.exit(1)

if got != expected:
    print("expected:", expected)
    print("got     :", got)
    sys.exit(1)
print("ok")
