"""C09 - closures over factory variables: a free variable of a method that is
not assigned yet when the function is first called makes the build fail.

The factory calls the overloaded function once before it defines a helper that
one of the methods refers to.  As written this is fine, because that first
call never reaches the line that uses the helper (Python looks free variables
up when they are used).  ovld, however, reads the contents of EVERY closure
cell of EVERY method while it looks for names bound to recurse, and an
unassigned cell raises ValueError("Cell is empty").
"""
import sys

from ovld import ovld, recurse


# --- the source as written, with recurse bound to an ordinary callable -------
def plain_make():
    def f(x):
        if isinstance(x, list):
            return [scale(f(v)) for v in x]
        return x + 1

    first = f(1)  # does not touch `scale`

    def scale(v):
        return v * first

    return f


# --- the same thing with registered methods ----------------------------------
def make():
    @ovld
    def f(x: list):
        return [scale(recurse(v)) for v in x]

    @ovld
    def f(x: int):
        return x + 1

    first = f(1)  # does not touch `scale`

    def scale(v):
        return v * first

    return f


expected = plain_make()([1, 2])  # [4, 6]
try:
    got = make()([1, 2])
except Exception as exc:
    print("expected (source as written):", expected)
    print(f"registered methods raised {type(exc).__name__}: {exc}")
    sys.exit(1)
if got != expected:
    print("expected:", expected, "got:", got)
    sys.exit(1)
print("ok")
