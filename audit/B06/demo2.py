"""C09 - the rewriting renames identifiers without looking at their scope.

A nested function (or lambda) of a method has a PARAMETER with the same name
as the overloaded function.  Inside that nested function the name is the
parameter, not the overloaded function.  The method also calls the overloaded
function by name elsewhere, so the rewriter is active, and it rewrites every
`transform(...)` it sees - including the call of the parameter, which becomes
a call of the overloaded function.
"""
import sys

from ovld import ovld


# --- the source as written, the function's own name being an ordinary callable
def plain_transform(x):
    if isinstance(x, list):

        def apply(transform, v):  # `transform` is a parameter here
            return transform(v)

        return [apply(str, plain_transform(v)) for v in x]
    return x + 1


# --- the same methods, registered ---------------------------------------------
@ovld
def transform(x: list):
    def apply(transform, v):  # `transform` is a parameter here
        return transform(v)

    return [apply(str, transform(v)) for v in x]


@ovld
def transform(x: int):
    return x + 1


# same thing with a lambda parameter
@ovld
def g(x: list):
    twice = lambda g, v: g(g(v))  # noqa: E731
    return [twice(lambda s: s + "!", str(g(v))) for v in x]


@ovld
def g(x: int):
    return x * 10


bad = 0

expected = plain_transform([1, 2])  # ['2', '3']
try:
    got = transform([1, 2])
except Exception as exc:
    got = f"{type(exc).__name__}: {exc}"
if got != expected:
    bad += 1
    print("nested def parameter: expected", expected, "got", got)

expected = ["10!!", "20!!"]
try:
    got = g([1, 2])
except Exception as exc:
    got = f"{type(exc).__name__}: {exc}"
if got != expected:
    bad += 1
    print("lambda parameter    : expected", expected, "got", got)

if bad:
    sys.exit(1)
print("ok")
