"""C09 - call_next with keywords that name positional parameters, written in
another order than the parameter list.

All methods name their positional parameters alike, so (docs/usage.md,
"Keyword arguments") they may be given by keyword; f(1, k=3, y=2) works from
the outside and recurse(x, k=k, y=y) works from the inside.  The same
arguments given to call_next raise "No method": the call site only turns a
keyword into a positional table key when it happens to be the next position
AND no other keyword was written before it.
"""
import sys

from ovld import call_next, ovld, recurse


@ovld
def f(x: int, y: object = 0, *, k: object = 0):
    return ("int", call_next(x, k=k, y=y))


@ovld
def f(x: object, y: object = 0, *, k: object = 0):
    return ("obj", x, y, k)


@ovld
def g(x: int, y: object):
    return ("int", call_next(y=y, x=x))


@ovld
def g(x: object, y: object):
    return ("obj", x, y)


@ovld
def r(x: int, y: object = 0, *, k: object = 0):
    return ("int", recurse(str(x), k=k, y=y))


@ovld
def r(x: object, y: object = 0, *, k: object = 0):
    return ("obj", x, y, k)


def attempt(fn, *a, **kw):
    try:
        return fn(*a, **kw)
    except Exception as exc:
        return f"{type(exc).__name__}: {exc}"


bad = 0
checks = [
    # sanity: the same keywords are fine from outside and through recurse
    ("f('a', k=3, y=2)", attempt(f, "a", k=3, y=2), ("obj", "a", 2, 3)),
    ("recurse(str(x), k=k, y=y)", attempt(r, 1, 2, k=3), ("int", ("obj", "1", 2, 3))),
    # the property: call_next is an ordinary callable "call the next method"
    ("call_next(x, k=k, y=y)", attempt(f, 1, 2, k=3), ("int", ("obj", 1, 2, 3))),
    ("call_next(y=y, x=x)", attempt(g, 1, 2), ("int", ("obj", 1, 2))),
]
for what, got, expected in checks:
    if got != expected:
        bad += 1
        print(f"{what}: expected {expected!r}, got {got!r}")

if bad:
    sys.exit(1)
print("ok")
