"""C10: a Dependent whose bound is type[...] (the argument is a class).

Dependent[type[Base], cond] must run for every class that is an instance of the
bound (a subclass of Base) and satisfies cond -- whatever other methods exist.
On the library it only runs when some *other* method of the function happens to
carry a type[...] annotation at that position.
"""
import sys

from ovld import Dependent, ovld


class Base:
    pass


class Axx(Base):
    pass


class Bxx(Base):
    pass


def is_a(cls):
    return cls.__name__.startswith("A")


@ovld
def f(x: Dependent[type[Base], is_a]):
    return "A-class"


@ovld
def f(x: object):
    return "object"


# the same two methods plus an unrelated one
@ovld
def g(x: Dependent[type[Base], is_a]):
    return "A-class"


@ovld
def g(x: object):
    return "object"


@ovld
def g(x: type[int]):
    return "int-class"


problems = []
expected = [(Axx, "A-class"), (Bxx, "object"), (Base, "object"), (3, "object"), (str, "object")]
for name, fn in [("f", f), ("g", g)]:
    for v, want in expected:
        try:
            got = fn(v)
        except Exception as exc:
            got = f"raised {exc!r}"
        if got != want:
            problems.append(f"{name}({v!r}): expected {want!r}, got {got!r}")

if problems:
    print("PROPERTY C10 VIOLATED")
    for p in problems:
        print(" -", p)
    sys.exit(1)
print("ok")
