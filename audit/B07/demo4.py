"""C11: tuple[...] element types / unions with a Literal, when a member class has a
__name__ that is not a plain identifier (e.g. the 'Model[int]' names that generic
model factories give to their specialisations).

isinstance(value, type) is True, but the generated checking code does not compile/run.
"""
import sys
from typing import Generic, Literal, TypeVar

from ovld import ovld

T = TypeVar("T")


class Box(Generic[T]):
    pass


# a concrete specialisation, named the way pydantic-style factories name them
BoxInt = type("Box[int]", (Box,), {})


@ovld
def f(x: tuple[BoxInt, int]):
    return "pair"


@ovld
def f(x: object):
    return "object"


@ovld
def g(x: BoxInt | Literal[0]):
    return "A"


@ovld
def g(x: object):
    return "object"


PAIR = [s.types[0] for s in f.__ovld__.defns][0]
problems = []
for fn, name, table in [
    (f, "f", [((BoxInt(), 1), "pair"), ((1, 1), "object"), ((BoxInt(), "x"), "object")]),
    (g, "g", [(0, "A"), (BoxInt(), "A"), (1, "object")]),
]:
    for v, want in table:
        try:
            got = fn(v)
        except Exception as exc:
            got = f"raised {exc!r}"
        if got != want:
            problems.append(f"{name}({v!r}): expected {want!r}, got {got}")

assert isinstance((BoxInt(), 1), PAIR) and not isinstance((1, 1), PAIR)

if problems:
    print("PROPERTY C11 VIOLATED")
    for p in problems:
        print(" -", p)
    sys.exit(1)
print("ok")
