"""C10 / C11: a union of a type[...] arm and a value type (Literal, StartsWith).

f(x: type[int] | Literal[0]) must run for 0, for int and its subclasses given
as classes, and for nothing else; other values continue to the next method.
"""
import sys
from typing import Literal

from ovld import ovld
from ovld.dependent import StartsWith


@ovld
def f(x: type[int] | Literal[0]):
    return "A"


@ovld
def f(x: object):
    return "object"


@ovld
def g(x: type[int] | StartsWith["a"]):
    return "A"


@ovld
def g(x: object):
    return "object"


# (the same union without a value type works: it is the mixture that fails)
@ovld
def k(x: type[int] | str):
    return "A"


@ovld
def k(x: object):
    return "object"


problems = []
cases = [
    (f, "f", [(0, "A"), (False, "A"), (1, "object"), (int, "A"), (bool, "A"), (str, "object"), ("a", "object")]),
    (g, "g", [("abc", "A"), ("b", "object"), (int, "A"), (str, "object"), (3, "object")]),
    (k, "k", [("abc", "A"), (int, "A"), (str, "object"), (3, "object")]),
]
for fn, name, table in cases:
    for v, want in table:
        try:
            got = fn(v)
        except Exception as exc:
            got = f"raised {exc!r}"
        if got != want:
            problems.append(f"{name}({v!r}): expected {want!r}, got {got}")

if problems:
    print("PROPERTY C10/C11 VIOLATED")
    for p in problems:
        print(" -", p)
    sys.exit(1)
print("ok")
