"""C10: a Dependent whose bound is itself a value type (tuple[int, int], list[int], Literal[...]).

The method must run only for instances of the bound that satisfy the condition,
and the condition must never see a value that is not an instance of the bound.
"""
import sys
from typing import Literal

from ovld import Dependent, ovld

problems = []
seen = []


def ordered(t):
    seen.append(t)
    return t[0] < t[1]


@ovld
def f(x: Dependent[tuple[int, int], ordered]):
    return "ordered int pair"


@ovld
def f(x: tuple):
    return "tuple"


@ovld
def f(x: object):
    return "object"


(BOUND,) = [s.types[0].bound for s in f.__ovld__.defns if hasattr(s.types[0], "bound")]


def reference(v):
    if isinstance(v, BOUND) and v[0] < v[1]:
        return "ordered int pair"
    return "tuple" if isinstance(v, tuple) else "object"


for v in [(1, 2), (2, 1), ("a", "b"), (1.5, 2.5), (1,), (), (1, 2, 3), [1, 2]]:
    want = reference(v)
    try:
        got = f(v)
    except Exception as exc:  # the condition blew up on a value outside its bound
        got = f"raised {exc!r}"
    if got != want:
        problems.append(f"f({v!r}): expected {want!r}, got {got}")

outside = [v for v in seen if not isinstance(v, BOUND)]
if outside:
    problems.append(
        f"the condition was evaluated on values that are not instances of the bound {BOUND}: {outside}"
    )


# Same thing with a shallow list check and with a Literal as the bound
def positive_sum(xs):
    return sum(xs) > 0


@ovld
def g(x: Dependent[list[int], positive_sum]):
    return "positive ints"


@ovld
def g(x: list):
    return "list"


for v, want in [([1, 2], "positive ints"), ([-1], "list"), (["a", "b"], "list")]:
    try:
        got = g(v)
    except Exception as exc:
        got = f"raised {exc!r}"
    if got != want:
        problems.append(f"g({v!r}): expected {want!r}, got {got}")


@ovld
def h(x: Dependent[Literal[1, 2, "a"], lambda v: v != 2]):
    return "1 or a"


@ovld
def h(x: object):
    return "object"


for v, want in [(1, "1 or a"), ("a", "1 or a"), (2, "object"), (3, "object"), ("b", "object")]:
    try:
        got = h(v)
    except Exception as exc:
        got = f"raised {exc!r}"
    if got != want:
        problems.append(f"h({v!r}): expected {want!r}, got {got}")

if problems:
    print("PROPERTY C10 VIOLATED")
    for p in problems:
        print(" -", p)
    sys.exit(1)
print("ok")
