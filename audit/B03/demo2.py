"""C04 - whether a method's call to the function's own name is hard-wired to
the ovld is decided when the table is built, i.e. at the FIRST CALL, from the
value the name happens to have at that moment.

    walk = traced(walk)        # a decorator applied after the definitions

As written, the recursive calls `walk(a)` inside the methods go through the
name `walk`, hence through the wrapper.  If the function has never been called
before the name is rebound, that is what happens.  If it has been called once
before (any call, with any arguments), the own-name calls were rewritten into
direct table lookups and the very same later call silently bypasses the
wrapper: same methods, same call, different outcome, depending only on an
earlier call.

Exit status 0: property holds; 1: violated.
"""

import sys

from ovld import ovld


def scenario(call_before):
    seen = []

    @ovld
    def walk(x: list):
        return [walk(a) for a in x]

    @ovld
    def walk(x: int):
        return x + 1

    @ovld
    def walk(x: str):
        return x.upper()

    original = walk

    if call_before:
        original("unrelated")  # a first call, other argument types

    def traced(fn):
        def wrapper(x):
            seen.append(x)
            return ("traced", fn(x))

        return wrapper

    walk = traced(walk)  # the name the methods call is rebound

    result = walk([1, [2]])
    return result, seen


first_call = scenario(call_before=False)
after_history = scenario(call_before=True)

print("first call ever     :", first_call)
print("after an other call :", after_history)

if first_call != after_history:
    print(
        "C04 violated: the same call on the same method set gives a different"
        " outcome (calls seen by the wrapper) depending on an earlier call"
    )
    sys.exit(1)
print("ok")
