"""C05 - a call made after a registration does not behave like on a fresh
function: call sites of an activation that started before the registration
keep the argument-keying mode (type(x) versus type[x]) of the previous build.

A method registers a further method (a plug-in loaded on first use) and then
re-dispatches with recurse().  The new method is the first one with a
type[...] parameter, which changes how arguments in that position are keyed
(class objects are looked up as type[cls] instead of type).  The rebuild swaps
the table, but the code of the method that is still running was generated for
the old keying: its recurse(cls) looks up the key `type` in the new table and
the method that was just registered is not found.

On a brand-new function built from the resulting method set the same
recurse(cls), from the same method, reaches the new method - as does a second
call on the very same function.

Exit status 0: property holds; 1: violated.
"""

import sys

from ovld import Ovld, recurse


class Node:
    pass


def describe_class(cls: type[Node]):
    return f"class {cls.__name__}"


def build(preloaded, with_fallback=False):
    f = Ovld(name="f")
    loaded = [preloaded]

    @f.register
    def _(x: str):
        if not loaded[0]:
            loaded[0] = True
            f.register(describe_class)  # plug-in loaded on first use
        return recurse(Node)

    @f.register
    def _(x: int):
        return "int"

    if with_fallback:

        @f.register
        def _(x: object):
            return "fallback for any object"

    if preloaded:
        f.register(describe_class)
    return f


def outcome(fn, *args):
    try:
        return ("ok", fn(*args))
    except TypeError as exc:
        return ("TypeError", str(exc).splitlines()[0])


failed = False
for with_fallback in (False, True):
    fresh = build(True, with_fallback)  # built directly from the resulting method set
    expected = outcome(fresh, "go")

    hist = build(False, with_fallback)
    hist(1)  # the function has been used (and built) before
    got = outcome(hist, "go")  # registers describe_class, then recurse(Node)
    again = outcome(hist, "go")

    print(f"--- with an `object` fallback method: {with_fallback}")
    print("fresh function                    :", expected)
    print("call that registers, then recurses:", got)
    print("same call again                   :", again)
    if got != expected or again != expected:
        failed = True

# --- same defect without any registration from inside a method: a generator
# method that is consumed after the registration


def build_walk():
    w = Ovld(name="walk")

    @w.register
    def _(x: list):
        for a in x:
            yield from recurse(a)

    @w.register
    def _(x: int):
        yield x

    @w.register
    def _(x: object):
        yield "some object"

    return w


def walk_class(x: type[Node]):
    yield "class Node"


fresh = build_walk()
fresh.register(walk_class)
expected = list(fresh([1, Node]))

hist = build_walk()
pending = hist([1, Node])  # a generator: nothing has run yet
hist.register(walk_class)
got = list(pending)  # every recurse() below happens after the registration

print("--- generator consumed after the registration")
print("fresh function:", expected)
print("with history  :", got)
if got != expected:
    failed = True

if failed:
    print("C05 violated: after the registration, recurse(Node) does not behave as on a fresh function")
    sys.exit(1)
print("ok")
