"""C04 - the error raised by a failing call carries the history of earlier calls.

A call that matches no method through a value-dependent rank (Literal /
Dependent), a call that is ambiguous inside such a rank, and a call_next that
falls into a tied rank, all raise an exception *instance* that was created
when the argument types were first resolved and that is kept in the dispatch
table.  Every later failing call re-raises that same object: its traceback
keeps the frames of all earlier failing calls, notes / context attached by an
earlier caller show up in later, unrelated calls.

On a fresh function (first call ever) the same call raises a clean error.

Exit status 0: property holds; 1: violated.
"""

import sys
import traceback
from typing import Literal

from ovld import Dependent, call_next, ovld

problems = []


def build():
    # --- no method matches inside a value-dependent rank
    @ovld
    def f(x: Literal[0]):
        return "zero"

    # --- two value-dependent methods of one rank match: ambiguity
    @ovld
    def g(x: Dependent[int, lambda x: x >= 0]):
        return "non-negative"

    @ovld
    def g(x: Dependent[int, lambda x: x <= 0]):
        return "non-positive"

    # --- call_next into a rank of two tied methods
    class A: pass
    class B: pass
    class C(A, B): pass

    @ovld(priority=1)
    def h(x: C):
        return call_next(x)

    @ovld
    def h(x: A):
        return "A"

    @ovld
    def h(x: B):
        return "B"

    return {"nomatch": lambda: f(1), "ambiguous": lambda: g(0), "call_next": lambda: h(C())}


def route_1(thunk):
    return thunk()


def route_2(thunk):
    return thunk()


def failing_call(thunk, who, route):
    """What a typical caller does: catch, annotate, report."""
    try:
        route(thunk)
    except TypeError as exc:
        exc.add_note(f"while handling {who}")
        return exc, len(traceback.extract_tb(exc.__traceback__)), list(exc.__notes__)
    raise AssertionError("expected a TypeError")


def request_1(thunk):
    return failing_call(thunk, "request 1", route_1)


def request_2(thunk):
    return failing_call(thunk, "request 2", route_2)


# reference: the call as the first call ever made on a brand-new function
fresh = {k: request_2(t) for k, t in build().items()}

# same call, made after one earlier (failing) call on the same function
hist_fns = build()
for kind, thunk in hist_fns.items():
    e1, depth1, notes1 = request_1(thunk)
    e2, depth2, notes2 = request_2(thunk)
    _, fdepth, fnotes = fresh[kind]
    if e2 is e1:
        problems.append(f"[{kind}] the very same exception object is raised again")
    names = [fr.name for fr in traceback.extract_tb(e2.__traceback__)]
    if "route_1" in names:
        problems.append(
            f"[{kind}] traceback of the 2nd call has {depth2} frames and still contains"
            f" the frames of the 1st call: {names}"
        )
    if notes2 != fnotes:
        problems.append(f"[{kind}] notes on the error of the 2nd call: {notes2}, on a fresh function: {fnotes}")

if problems:
    print("C04 violated: the error raised depends on earlier calls")
    for p in problems:
        print(" -", p)
    sys.exit(1)
print("ok")
