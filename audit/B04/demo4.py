"""C14 - a bare generic inside type[...] must accept every parametrisation of a
same-or-subclass origin, whichever way the bare generic is spelled.

type[list] / type[collections.abc.Sequence] / type[dict] / type[tuple] accept
list[B], dict[str, B], ... ; the (still supported, documented as aliases)
spellings typing.List / typing.Sequence / typing.Dict / typing.Tuple do not,
and a bare typing.Type annotation (alias of bare `type`, which must behave as
type[object]) cannot even be registered.
"""
import collections.abc
import sys
import typing

from ovld import Ovld


class A:
    pass


class B(A):
    pass


def outcome(annotation, arg):
    try:
        f = Ovld()

        def m(x):
            return "applicable"

        m.__annotations__ = {"x": annotation}
        f.register(m)
        return f(arg)
    except Exception as exc:
        return f"{type(exc).__name__}: " + str(exc).splitlines()[0]


cases = [
    # (annotation, the same annotation spelled with the builtin / abc class, argument)
    (type[typing.List], type[list], list[B]),
    (type[typing.List], type[list], typing.List[B]),
    (type[typing.Sequence], type[collections.abc.Sequence], list[B]),
    (type[typing.Dict], type[dict], dict[str, B]),
    (type[typing.Tuple], type[tuple], tuple[int, str]),
    (type[typing.List[typing.Type]], type[list[type]], list[type[B]]),
    (typing.Type, type, B),
    (typing.Type, type, list[B]),
]

failed = False
for annotation, reference, arg in cases:
    got = outcome(annotation, arg)
    ref = outcome(reference, arg)
    if got != ref:
        failed = True
        print(
            f"argument {arg!r}:\n"
            f"    f(x: {reference}) -> {ref!r}\n"
            f"    f(x: {annotation}) -> {got!r}"
        )

if failed:
    print("C14 violated: a bare typing generic in type[...] does not accept its parametrisations")
    sys.exit(1)
print("ok")
