"""C06 - a value-dependent method whose bound is type / type[...] is applicable
to a class argument only when some OTHER (non-applicable) method happens to be
annotated with type[...] at the same position.

docs/dependent.md: Dependent[bound, check] matches values such that
isinstance(value, bound) and check(value); Literal[v] matches v.
"""
import dataclasses
import sys
from typing import Literal

from ovld import Dependent, Ovld


class A:
    pass


class B(A):
    pass


class Unrelated:
    pass


@dataclasses.dataclass
class Point:
    x: int


def build(annotation, with_irrelevant_method):
    f = Ovld()

    def m_dep(x):
        return "dependent"

    m_dep.__annotations__ = {"x": annotation}
    f.register(m_dep)

    def m_int(x: int):
        return "int"

    f.register(m_int)

    if with_irrelevant_method:

        def m_irrelevant(x: type[Unrelated]):
            return "type[Unrelated]"

        f.register(m_irrelevant)
    return f


def outcome(f, arg):
    try:
        return f(arg)
    except TypeError as exc:
        return "TypeError: " + str(exc).splitlines()[0]


cases = [
    (Dependent[type, dataclasses.is_dataclass], Point),
    (Dependent[type[A], lambda cls: cls.__name__ == "B"], B),
    (Literal[B], B),
]

failed = False
for annotation, arg in cases:
    assert not issubclass(arg, Unrelated)
    alone = outcome(build(annotation, False), arg)
    with_extra = outcome(build(annotation, True), arg)
    if alone != with_extra:
        failed = True
        print(
            f"f(x: {annotation}) called with the class {arg.__name__}:\n"
            f"    without the irrelevant method -> {alone!r}\n"
            f"    with f(x: type[Unrelated])     -> {with_extra!r}"
        )

if failed:
    print("C06 violated: a non-applicable method changed the outcome of the call")
    sys.exit(1)
print("ok")
