"""C14 - bare `type` must behave as type[object], also inside a nested
parametrisation, on the annotation side and on the argument side.

  * type[type[object]] / type[type[Any]] must accept what type[type] accepts
    (the bare class `type`, which stands for type[object]);
  * type[list[type[object]]] must accept list[type], exactly like
    type[list[type]] accepts list[type[object]].
"""
import sys
from typing import Any

from ovld import Ovld


def build(*annotations):
    f = Ovld()
    for i, ann in enumerate(annotations):

        def m(x, _i=i):
            return _i

        m.__annotations__ = {"x": ann}
        f.register(m)
    return f


def outcome(f, arg):
    try:
        return f(arg)
    except TypeError as exc:
        return "TypeError: " + str(exc).splitlines()[0]


failed = False


def check(annotation, arg, reference_annotation):
    """annotation and reference_annotation are the same type, spelled with
    type[object] / type[Any] and with bare type: same applicability."""
    global failed
    got = outcome(build(annotation), arg)
    ref = outcome(build(reference_annotation), arg)
    if got != ref:
        failed = True
        print(
            f"argument {arg!r}:\n"
            f"    f(x: {reference_annotation}) -> {ref!r}\n"
            f"    f(x: {annotation}) -> {got!r}"
        )


# the passed type is the bare class `type` (= type[object])
check(type[type[object]], type, type[type])
check(type[type[Any]], type, type[type])
# nested in a generic
check(type[list[type[object]]], list[type], type[list[type]])
check(type[list[type[Any]]], list[type], type[list[type]])
check(type[dict[str, type[object]]], dict[str, type], type[dict[str, type]])
# the mirror image works, which shows the asymmetry
check(type[list[type]], list[type[object]], type[list[type[object]]])

# the two spellings are one and the same type: neither may be "more specific"
# than the other.  (If they are the same signature the later registration
# replaces the earlier one: index 1 in both orders; if they are kept apart the
# call is a tie in both orders.  Index 1 in one order and 0 in the other means
# that one spelling is preferred over the other.)
r1 = outcome(build(type[type], type[type[object]]), type[int])
r2 = outcome(build(type[type[object]], type[type]), type[int])
if (r1, r2) == (1, 0) or (r1, r2) == (0, 1):
    failed = True
    print(
        "f(x: type[type]) + f(x: type[type[object]]) called with type[int]: one "
        f"spelling is preferred over the other (registration orders give {r1}, {r2})"
    )

if failed:
    print("C14 violated: bare type does not behave as type[object] inside type[...]")
    sys.exit(1)
print("ok")
