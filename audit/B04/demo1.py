"""C06 - a method that is NOT applicable to a call changes the outcome of that call.

f(Color) / f(C) are resolved among methods annotated with an ABC, a protocol-like
HasMethod type, Exactly[metaclass] or StrictSubclass[type].  Adding one more
method, annotated type[Unrelated] (not applicable: the class passed is not a
subclass of Unrelated), must not change the outcome.  On the library it turns
a successful call into "No method".
"""
import enum
import sys
from collections.abc import Hashable, Iterable, Sized

from ovld import Ovld
from ovld.types import Exactly, HasMethod, StrictSubclass


class Color(enum.Enum):  # the class Color is itself iterable / sized
    RED = 1
    BLUE = 2


class Meta(type):
    def __len__(cls):
        return 0


class C(metaclass=Meta):
    pass


class Unrelated:
    pass


def build(annotation, with_irrelevant_method):
    f = Ovld()

    def m_main(x):
        return "main"

    m_main.__annotations__ = {"x": annotation}
    f.register(m_main)

    def m_int(x: int):
        return "int"

    f.register(m_int)

    if with_irrelevant_method:
        # not applicable to f(Color) nor to f(C)
        def m_irrelevant(x: type[Unrelated]):
            return "type[Unrelated]"

        f.register(m_irrelevant)
    return f


def outcome(f, arg):
    try:
        return f(arg)
    except TypeError as exc:
        return "TypeError: " + str(exc).splitlines()[0]


cases = [
    (Iterable, Color),
    (Sized, Color),
    (Hashable, C),
    (HasMethod["__len__"], C),
    (Exactly[Meta], C),
    (StrictSubclass[type], C),
]

failed = False
for annotation, arg in cases:
    alone = outcome(build(annotation, False), arg)
    with_extra = outcome(build(annotation, True), arg)
    # sanity: the extra method really is not applicable to the argument
    assert not issubclass(arg, Unrelated)
    if alone != with_extra:
        failed = True
        print(
            f"f(x: {annotation}) called with the class {arg.__name__}:\n"
            f"    without the irrelevant method -> {alone!r}\n"
            f"    with f(x: type[Unrelated])     -> {with_extra!r}"
        )

if failed:
    print("C06 violated: a non-applicable method changed the outcome of the call")
    sys.exit(1)
print("ok")
