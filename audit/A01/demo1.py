"""C01 / C10: a method with a union-of-dependent parameter next to another
dependent parameter is entered with a value its own annotation excludes.

Exit status 0 if the properties hold, 1 if violated.
"""

import sys
from typing import Literal

from ovld import Dependent, Ovld
from ovld.types import Intersection, Union

problems = []


# ---- case 1: plain typing annotations only -------------------------------
f = Ovld()


@f.register
def f_special(x: Literal[0] | str, y: Literal["a"]):
    # y is declared Literal["a"]
    if y != "a":
        problems.append(
            f"case 1: f_special(x: Literal[0] | str, y: Literal['a']) entered with x={x!r}, y={y!r}"
        )
    return "special"


@f.register
def f_generic(x: object, y: object):
    return "generic"


r = f(0, "b")  # y == "b" is not Literal["a"]: only f_generic accepts this call
if r != "generic":
    problems.append(f"case 1: f(0, 'b') returned {r!r}, expected 'generic'")
# control: the same method set behaves correctly when x takes the 2nd member
assert f("s", "b") == "generic"
assert f(0, "a") == "special"


# ---- case 2: Dependent[...] with user predicates, union in first position --
def positive(v):
    return v > 0


def even(v):
    return v % 2 == 0


class A:
    pass


g = Ovld()


@g.register
def g_dep(x: Union[Dependent[int, positive], A], y: Dependent[int, even]):
    if not even(y):
        problems.append(
            f"case 2: g_dep(..., y: Dependent[int, even]) entered with y={y!r}"
        )
    return "dep"


@g.register
def g_generic(x: object, y: object):
    return "generic"


r = g(2, 1)  # 1 is odd: g_dep's condition on y does not hold
if r != "generic":
    problems.append(f"case 2: g(2, 1) returned {r!r}, expected 'generic'")


# ---- case 3: the same union inside an Intersection (single position) ------
h = Ovld()


@h.register
def h_dep(x: Intersection[Union[Dependent[int, positive], A], Dependent[int, even]]):
    if not even(x):
        problems.append(
            f"case 3: h_dep(x: (positive | A) & even) entered with x={x!r}"
        )
    return "dep"


@h.register
def h_int(x: int):
    return "int"


r = h(3)  # positive but odd: not an instance of the intersection
if r != "int":
    problems.append(f"case 3: h(3) returned {r!r}, expected 'int'")


if problems:
    print("VIOLATION (C01 / C10):")
    for p in problems:
        print("  -", p)
    sys.exit(1)
print("ok")
