"""C10 (interleaving): while another thread registers / unregisters an
UNRELATED method, calls dispatch over a half-built table: a value-dependent
method whose condition holds (and which stays registered all along) is skipped
in favour of the method declared on its bound - and the wrong resolution can
stay cached after all threads are done.

Exit status 0 if the property holds, 1 if violated.
"""

import collections
import sys
import threading
import time

from ovld import Dependent, Ovld

f = Ovld()


@f.register
def on_int(x: int):
    return "int"


# Some unrelated methods (they only make a rebuild of the table a bit longer)
for i in range(30):
    cls = type(f"C{i}", (), {})

    def other(x):
        return "other"

    other.__annotations__ = {"x": cls}
    f.register(other)


@f.register
def on_dep(x: Dependent[int, lambda v: True]):  # the condition always holds
    return "dep"


assert f(1) == "dep"  # built, sequential behaviour is right

outcomes = collections.Counter()
stop = False


def caller():
    while not stop:
        try:
            r = f(1)
        except Exception as e:  # noqa
            r = f"{type(e).__name__}: {str(e).splitlines()[0][:70]}"
        outcomes[r] += 1


sys.setswitchinterval(1e-5)
t = threading.Thread(target=caller)
t.start()
deadline = time.time() + 30
rebuilds = 0
while time.time() < deadline and "int" not in outcomes:

    def unrelated(x: str):
        return "str"

    f.register(unrelated)  # on_int / on_dep are never touched
    f.unregister(unrelated)
    rebuilds += 1
stop = True
t.join()

# Everything is quiescent now
after = f(1)

wrong = {k: v for k, v in outcomes.items() if k != "dep"}
if wrong or after != "dep":
    print("VIOLATION (C10):")
    print(f"  after {rebuilds} register/unregister of an unrelated str method,")
    print(f"  concurrent calls f(1) gave: {dict(outcomes)}")
    print(f"  f(1) once all threads are finished: {after!r} (expected 'dep')")
    sys.exit(1)
print("ok")
