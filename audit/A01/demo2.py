"""C10: a Dependent[...] method whose bound is written `int | str` never runs,
although the value is an instance of the bound and the condition holds.

docs/dependent.md: "Dependent[bound, check]: only matches values such that
isinstance(value, bound) and check(value)", and a dependent type is preferred
over methods declared on the bound or its subclasses.

Exit status 0 if the property holds, 1 if violated.
"""

import sys
import typing

from ovld import Dependent, Ovld


def short(v):
    return len(str(v)) < 3


def on_int(x: int):  # int is a subclass of the bound
    return "int"


def on_str(x: str):  # str is a subclass of the bound
    return "str"


def dep_604(x: Dependent[int | str, short]):
    return "dep"


def dep_typing(x: Dependent[typing.Union[int, str], short]):
    return "dep"


f = Ovld()
for m in (on_int, on_str, dep_604):
    f.register(m)

# control: the same method set with the bound spelled typing.Union[int, str]
g = Ovld()
for m in (on_int, on_str, dep_typing):
    g.register(m)

problems = []
for value in [7, "ab", 0]:
    assert isinstance(value, int | str) and short(value)
    assert g(value) == "dep"
    got = f(value)
    if got != "dep":
        problems.append(
            f"f({value!r}) ran the {got!r} method; the value is an instance of the "
            f"bound int | str and the condition holds, so the Dependent method must run"
        )
# values for which the condition fails must fall through to the static methods
assert f(12345) == "int" and f("abcdef") == "str"

if problems:
    print("VIOLATION (C10):")
    for p in problems:
        print("  -", p)
    sys.exit(1)
print("ok")
