"""C03: an optional keyword-only parameter named `type` makes every call fail.

Both methods accept f(1) and f(1, type="z") under the documented rules
(`type` is keyword-only in every method).  Expected: the selected method runs
with its own default / the supplied keyword.
"""
import sys
from ovld import ovld


@ovld
def f(x: int, *, type: str = "int-default"):
    return ("int", x, type)


@ovld
def f(x: str, *, type: str = "str-default"):
    return ("str", x, type)


failures = []


def check(label, thunk, expected):
    try:
        got = thunk()
    except BaseException as e:  # noqa
        failures.append(f"{label}: raised {type(e).__name__}: {e}; expected {expected!r}")
        return
    if got != expected:
        failures.append(f"{label}: got {got!r}; expected {expected!r}")


check("f(1)", lambda: f(1), ("int", 1, "int-default"))
check("f('s')", lambda: f("s"), ("str", "s", "str-default"))
check("f(1, type='z')", lambda: f(1, type="z"), ("int", 1, "z"))

for msg in failures:
    print("VIOLATION", msg)
sys.exit(1 if failures else 0)
