"""C09: multi-line string literals of an indented method are altered (or the
method is refused) when the method uses recurse.

`plain` and `rec` have the same body, except that `rec` contains a recurse
call, so only `rec` goes through the source rewriting.
"""
import sys
from ovld import OvldBase, recurse

failures = []


class A(OvldBase):
    def plain(self, x: list):
        return f"""items:
        {[(e + 1) for e in x]}
        end"""

    def rec(self, x: list):
        return f"""items:
        {[recurse(e) for e in x]}
        end"""

    def rec(self, x: int):
        return x + 1


expected = "items:\n        [2, 3]\n        end"
assert A().plain([1, 2]) == expected  # ordinary Python semantics
try:
    got = A().rec([1, 2])
    if got != expected:
        failures.append(f"A().rec([1, 2]) returned {got!r}; the source as written gives {expected!r}")
except BaseException as e:  # noqa
    failures.append(f"A().rec([1, 2]) raised {type(e).__name__}: {e}")


# Same thing, with a line of the literal that is less indented than the def:
# the method is refused altogether.
class B(OvldBase):
    def rec(self, x: list):
        return f"""items:
{[recurse(e) for e in x]}
end"""

    def rec(self, x: int):
        return x + 1


expected = "items:\n[2, 3]\nend"
try:
    got = B().rec([1, 2])
    if got != expected:
        failures.append(f"B().rec([1, 2]) returned {got!r}; expected {expected!r}")
except BaseException as e:  # noqa
    failures.append(f"B().rec([1, 2]) raised {type(e).__name__}: {e}; expected {expected!r}")

for msg in failures:
    print("VIOLATION", msg)
sys.exit(1 if failures else 0)
