"""C09: recurse(x=...) / f(x=...) / call_next(x=...) with a positional
parameter given by keyword is rejected after rewriting, although the same call
on the ordinary callable is accepted.

All methods name their positional parameter `x`, so the documented rule allows
f(x=1) (and the dispatcher does accept it from outside).
"""
import sys
from ovld import ovld, recurse, call_next

failures = []


@ovld
def f(x: list):
    # not rewritten (not a Name call): the "ordinary callable" baseline
    return [globals()["f"](x=e) for e in x]


@ovld
def f(x: int):
    return x + 1


@ovld
def g(x: list):
    return [recurse(x=e) for e in x]


@ovld
def g(x: int):
    return x + 1


@ovld
def h(x: list):
    return [h(x=e) for e in x]


@ovld
def h(x: int):
    return x + 1


@ovld(priority=1)
def n(x: int):
    return ("first", call_next(x=x))


@ovld
def n(x: int):
    return x + 1


def check(label, thunk, expected):
    try:
        got = thunk()
    except BaseException as e:  # noqa
        failures.append(f"{label}: raised {type(e).__name__}: {e}; expected {expected!r}")
        return
    if got != expected:
        failures.append(f"{label}: got {got!r}; expected {expected!r}")


assert f(x=1) == 2 and g(x=1) == 2 and h(x=1) == 2  # accepted from outside
assert f([1, 2]) == [2, 3]  # the same body with an ordinary callable works
check("recurse(x=e)", lambda: g([1, 2]), [2, 3])
check("h(x=e) (self-name)", lambda: h([1, 2]), [2, 3])
check("call_next(x=x)", lambda: n(1), ("first", 2))

for msg in failures:
    print("VIOLATION", msg)
sys.exit(1 if failures else 0)
