"""C15: Optional[A], A | None and typing.Union[A, None] accept None; the
tuple spelling (A, None) of the same union does not (None is kept as the
value None instead of NoneType), and neither does the annotation None."""
import sys
import typing

from ovld import ovld


class A:
    pass


@ovld
def f1(x: typing.Optional[A]):
    return "ok"


@ovld
def f2(x: A | None):
    return "ok"


@ovld
def f3(x: typing.Union[A, None]):
    return "ok"


@ovld
def f4(x: (A, None)):
    return "ok"


@ovld
def f5(x: (None, A)):
    return "ok"


def outcome(f, arg):
    try:
        return f(arg)
    except Exception as e:
        return f"{type(e).__name__}: " + str(e).splitlines()[0]


bad = []
ref = outcome(f1, None)
for name, f in [("A | None", f2), ("Union[A, None]", f3), ("(A, None)", f4), ("(None, A)", f5)]:
    for arg in (None, A()):
        r0, r = outcome(f1, arg), outcome(f, arg)
        if r0 != r:
            bad.append(f"x: {name}, f({arg!r}) -> {r!r}; with Optional[A] -> {r0!r}")

for b in bad:
    print("VIOLATION:", b)
sys.exit(1 if bad else 0)
