"""C12: the order is not transitive on the class / generic fragment, and does
not match subclassing: a bare origin is ranked BELOW a parametrised generic of
one of its base classes (list < Sequence[A]), although list[int] < list and
list[int] is unrelated to Sequence[A]."""
import sys
from collections.abc import Sequence

from ovld import ovld
from ovld.mro import Order, subclasscheck, typeorder


class A:
    pass


bad = []

ab = typeorder(list[int], list)
bc = typeorder(list, Sequence[A])
ac = typeorder(list[int], Sequence[A])
if ab is Order.LESS and bc is Order.LESS and ac is not Order.LESS:
    bad.append(
        f"not transitive: list[int] < list ({ab}), list < Sequence[A] ({bc}), "
        f"but typeorder(list[int], Sequence[A]) is {ac}"
    )

# the order disagrees with the subclass relation the library itself uses
if bc is Order.LESS and not subclasscheck(list, Sequence[A]):
    bad.append(
        "typeorder(list, Sequence[A]) is LESS although "
        "subclasscheck(list, Sequence[A]) is False (a list of ints is a list "
        "and is not a Sequence[A])"
    )

# list and list[object] accept the same classes, yet they compare differently
# with Sequence[A]; seen through dispatch:


@ovld
def f(t: type[list]):
    return "list"


@ovld
def f(t: type[Sequence[A]]):
    return "Sequence[A]"


@ovld
def g(t: type[list[object]]):
    return "list[object]"


@ovld
def g(t: type[Sequence[A]]):
    return "Sequence[A]"


def outcome(fn):
    try:
        return fn(list[A])
    except TypeError as e:
        return "TypeError: " + str(e).splitlines()[0]


rf, rg = outcome(f), outcome(g)
if not (rf.startswith("TypeError") and rg.startswith("TypeError")):
    bad.append(
        "f(list[A]) with methods type[list] / type[Sequence[A]] -> "
        f"{rf!r}; with type[list[object]] / type[Sequence[A]] -> {rg!r} "
        "(neither list nor list[object] is a subtype of Sequence[A]: both "
        "calls should be ambiguous)"
    )

for b in bad:
    print("VIOLATION:", b)
sys.exit(1 if bad else 0)
