"""C15: list[A] and typing.List[A] (also dict / typing.Dict, tuple /
typing.Tuple, type / typing.Type) are not the same annotation inside
type[...]: the second definition does not replace the first one, the two
coexist and every call is ambiguous."""
import sys
import typing

from ovld import Ovld


def make(ann1, ann2):
    f = Ovld(name="f")

    def first(t):
        return "first"

    def second(t):
        return "second"

    first.__annotations__ = {"t": ann1}
    second.__annotations__ = {"t": ann2}
    f.register(first)
    f.register(second)
    return f


def outcome(f, arg):
    try:
        return f(arg)
    except TypeError as e:
        return "TypeError: " + str(e).splitlines()[0]


bad = []
cases = [
    (type[list[int]], type[typing.List[int]], list[int]),
    (type[typing.List[int]], type[list[int]], typing.List[int]),
    (type[dict[str, int]], type[typing.Dict[str, int]], dict[str, int]),
    (type[tuple[int]], type[typing.Tuple[int]], tuple[int]),
    (type[type[int]], type[typing.Type[int]], type[int]),
    (type[dict[str, list[int]]], type[dict[str, typing.List[int]]], dict[str, list[int]]),
]
for ann1, ann2, arg in cases:
    ref = outcome(make(ann1, ann1), arg)  # same spelling twice: replaced
    got = outcome(make(ann1, ann2), arg)  # equivalent spelling
    if ref != got:
        bad.append(f"{ann1} then {ann2}, f({arg}): {got!r}, same spelling twice: {ref!r}")

# outside type[...] the two spellings are one annotation
assert outcome(make(list[int], typing.List[int]), [1]) == "second"

for b in bad:
    print("VIOLATION:", b)
sys.exit(1 if bad else 0)
