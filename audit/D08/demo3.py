"""C15: the unsubscripted typing aliases (typing.List, typing.Dict,
typing.Tuple, typing.Sequence, typing.Type) are not the classes they stand
for: typing.List is kept as a type of its own that is MORE SPECIFIC than
list, and typing.Type cannot be registered at all."""
import sys
import typing

from ovld import Ovld
from ovld.types import Exactly


def make(*anns):
    f = Ovld(name="f")
    for i, ann in enumerate(anns):

        def m(x, _i=i):
            return _i

        m.__annotations__ = {"x": ann}
        f.register(m)
    return f


def outcome(thunk):
    try:
        return thunk()
    except Exception as e:
        return f"{type(e).__name__}: " + str(e).splitlines()[0]


bad = []

# 1. next to Exactly[list]: list loses against it, typing.List wins over it
r1 = outcome(lambda: make(Exactly[list], list)([]))
r2 = outcome(lambda: make(Exactly[list], typing.List)([]))
if r1 != r2:
    bad.append(f"[Exactly[list], list]([]) -> {r1!r} but [Exactly[list], typing.List]([]) -> {r2!r}")

# 2. a redefinition under the other spelling does not replace
for alias, cls, arg in [
    (typing.List, list, [1]),
    (typing.Dict, dict, {}),
    (typing.Tuple, tuple, ()),
    (typing.Sequence, __import__("collections.abc").abc.Sequence, "s"),
]:
    r1 = outcome(lambda: make(alias, cls)(arg))  # should be 1: replaced
    r2 = outcome(lambda: make(cls, cls)(arg))
    if r1 != r2:
        bad.append(f"[{alias}, {cls.__name__}]({arg!r}) -> {r1!r}, expected {r2!r} (the later definition)")

# 3. typing.Type / type
r1 = outcome(lambda: make(type)(int))
r2 = outcome(lambda: make(typing.Type)(int))
if r1 != r2:
    bad.append(f"[type](int) -> {r1!r} but [typing.Type](int) -> {r2!r}")

for b in bad:
    print("VIOLATION:", b)
sys.exit(1 if bad else 0)
