"""C14: a union inside type[...] (type[int | str], type[list[int | str]]) is
understood for applicability but not for the comparison of annotations: the
call dies inside typeorder() or reports a false ambiguity.

Exits 0 if the property holds, 1 otherwise.
"""
import sys
import typing

from ovld import Ovld

problems = []


def make(*anns):
    ov = Ovld()
    for i, ann in enumerate(anns):
        glb = {"ANN": ann}
        exec(f"def m{i}(t: ANN):\n    return {i}\n", glb)
        ov.register(glb[f"m{i}"])
    return ov


def attempt(anns, arg, expected):
    fn = make(*anns)
    try:
        got = fn(arg)
    except Exception as exc:  # noqa
        got = f"{type(exc).__name__}: {str(exc).splitlines()[0]}"
    if got != expected:
        problems.append(
            f"methods {list(anns)} called with {arg}: expected method #{expected}, got {got!r}"
        )


# bare type is type[object]: less specific than type[int | str]
attempt([type[int | str], type], int, 0)
attempt([type[int | str], type], float, 1)  # works
# type[int] is more specific than type[int | str]
attempt([type[int | str], type[int]], int, 1)
attempt([type[int | str], type[int]], bool, 1)
attempt([type[typing.Union[int, str]], type[int]], int, 1)
attempt([type[int | str], type[int]], str, 0)  # works
# a smaller union is more specific than a larger one
attempt([type[int | str], type[int | str | float]], int, 0)
# the same one level down, in a generic
attempt([type[list[int | str]], type[list[int]]], list[int], 1)
attempt([type[list[int | str]], type[list[int]]], list[str], 0)  # works

if problems:
    print("VIOLATION")
    for p in problems:
        print("  " + p)
    sys.exit(1)
print("ok")
