"""C14 (and C06): tuple[X, ...] next to a tuple whose arguments are themselves
parametrised makes dispatch die with an internal TypeError of issubclass().

Exits 0 if the property holds, 1 otherwise.
"""
import sys

from ovld import ovld

problems = []


def attempt(label, fn, arg, expected):
    try:
        got = fn(arg)
    except Exception as exc:  # noqa
        got = f"{type(exc).__name__}: {str(exc).splitlines()[0]}"
    if got != expected:
        problems.append(f"{label}: expected {expected!r}, got {got!r}")


# (a) annotation with Ellipsis, passed type with a parametrised 2nd argument
@ovld
def f(t: type[tuple[int, ...]]):
    return "tuple[int, ...]"


@ovld
def f(t: type[tuple]):
    return "tuple"


attempt("f(tuple[int, ...])", f, tuple[int, ...], "tuple[int, ...]")
attempt("f(tuple[int, str])", f, tuple[int, str], "tuple")  # works
# list[int] is not `...`: only type[tuple] is applicable
attempt("f(tuple[int, list[int]])", f, tuple[int, list[int]], "tuple")


# (b) the mirror image: passed type with Ellipsis, annotation with a
# parametrised 2nd argument
@ovld
def g(t: type[tuple]):
    return "tuple"


attempt("g(tuple[int, ...]) before", g, tuple[int, ...], "tuple")


@ovld
def g(t: type[tuple[int, list[int]]]):  # not applicable to tuple[int, ...]
    return "tuple[int, list[int]]"


# C06 as well: a method that is not applicable changes the outcome
attempt("g(tuple[int, ...]) after", g, tuple[int, ...], "tuple")
attempt("g(tuple[int, list[bool]])", g, tuple[int, list[bool]], "tuple[int, list[int]]")

if problems:
    print("VIOLATION")
    for p in problems:
        print("  " + p)
    sys.exit(1)
print("ok")
