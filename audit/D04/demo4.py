"""C14: "more specific" between type[...] annotations is not decided by the
subtype rule that decides applicability.  A bare class is ranked below a
parametrised generic of a superclass origin (type[list] < type[Sequence[int]])
although `list` is NOT a subtype of Sequence[int] for applicability
(f(list) does not reach the type[Sequence[int]] method).  A call to which
both apply is therefore resolved silently instead of being ambiguous, and the
order is not even transitive.

Exits 0 if the property holds, 1 otherwise.
"""
import sys
from collections.abc import Sequence

from ovld import Ovld
from ovld.mro import Order, subclasscheck, typeorder

problems = []


def make(*anns):
    ov = Ovld()
    for i, ann in enumerate(anns):
        glb = {"ANN": ann}
        exec(f"def m{i}(t: ANN):\n    return {i}\n", glb)
        ov.register(glb[f"m{i}"])
    return ov


def outcome(fn, arg):
    try:
        return fn(arg)
    except TypeError as exc:
        return str(exc).split(" in ")[0]


f = make(type[list], type[Sequence[int]])
# applicability: `list` itself is not a Sequence[int] ...
if outcome(f, list) != 0 or outcome(make(type[Sequence[int]]), list) != "No method":
    problems.append("unexpected applicability of bare list")
# ... so type[list] is not more specific than type[Sequence[int]], nor the
# other way round (Sequence[int] is not a list): list[int], to which both
# apply, has no most specific method
got = outcome(f, list[int])
if got != "Ambiguous resolution":
    problems.append(
        f"methods [type[list], type[Sequence[int]]] called with list[int]: "
        f"expected an ambiguity, got method #{got}"
    )

# the same thing seen from inside
a, b = type[list], type[Sequence[int]]
if typeorder(a, b) is Order.LESS and not subclasscheck(a, b):
    problems.append(
        "typeorder(type[list], type[Sequence[int]]) is LESS but "
        "subclasscheck(type[list], type[Sequence[int]]) is False"
    )
# and not transitive: list[str] < list < Sequence[int], list[str] ? Sequence[int]
c = type[list[str]]
if (
    typeorder(c, a) is Order.LESS
    and typeorder(a, b) is Order.LESS
    and typeorder(c, b) is not Order.LESS
):
    problems.append(
        "typeorder: type[list[str]] < type[list] < type[Sequence[int]] but "
        f"type[list[str]] vs type[Sequence[int]] is {typeorder(c, b)}"
    )

# consequence: a hidden ambiguity. list[bool] is a list[int] and a
# Sequence[bool]; neither annotation is below the other; with type[list]
# present as well the call is resolved silently to type[list[int]]
g = make(type[list[int]], type[Sequence[bool]])
h = make(type[list[int]], type[Sequence[bool]], type[list])
r1, r2 = outcome(g, list[bool]), outcome(h, list[bool])
if r1 != r2:
    problems.append(
        f"[type[list[int]], type[Sequence[bool]]] with list[bool]: {r1!r}; "
        f"adding the LESS specific type[list] method turns it into method #{r2}"
    )

if problems:
    print("VIOLATION")
    for p in problems:
        print("  " + p)
    sys.exit(1)
print("ok")
