"""C06: the outcome of a call that passes a parametrised generic (list[int])
changes when a method that is NOT applicable to the call is added, because
that method (annotated type[...]) switches the keying of the position from
type(arg) to type[arg] and the alias is then no longer matched through its
own class (types.GenericAlias / typing._GenericAlias).  The repair made for
passed classes (matched through their metaclass) does not cover aliases.

Exits 0 if the property holds, 1 otherwise.
"""
import sys
import typing
from collections.abc import Iterable

from ovld import Ovld
from ovld.types import HasMethod


class Z:
    pass


problems = []


def make(*anns):
    ov = Ovld()
    for i, ann in enumerate(anns):
        glb = {"ANN": ann}
        exec(f"def m{i}(x: ANN):\n    return {i}\n", glb)
        ov.register(glb[f"m{i}"])
    return ov


def outcome(fn, arg):
    try:
        return fn(arg)
    except Exception as exc:  # noqa
        return f"{type(exc).__name__}: {str(exc).splitlines()[0][:40]}"


for anns in (
    [object, Iterable],
    [object, HasMethod["__getitem__"]],
    [Iterable],
):
    for arg in (list[int], typing.List[int], dict[str, int]):
        alone = outcome(make(*anns), arg)
        # type[Z] is not applicable to any of these arguments
        assert outcome(make(type[Z]), arg).startswith("TypeError: No method")
        extended = outcome(make(*anns, type[Z]), arg)
        if alone != extended:
            problems.append(
                f"methods {anns} called with {arg}: {alone!r}; "
                f"after adding the non-applicable type[Z] method: {extended!r}"
            )
    # control: passed classes are unaffected (that was repaired)
    for arg in (int, Z.__class__, 3, "s"):
        if outcome(make(*anns), arg) != outcome(make(*anns, type[float]), arg):
            problems.append(f"control failed for {anns} / {arg}")

if problems:
    print("VIOLATION")
    for p in problems:
        print("  " + p)
    sys.exit(1)
print("ok")
