"""C05 (threads / change made while calls are running).

Method set: a fallback for `object`, thirty unrelated classes, and `int`.
A second thread keeps calling f(1).  The main thread registers and then
unregisters a method for `str`.  Whatever the interleaving, the method set
always contains the `int` method, so a brand-new function built from the
method set before OR after each change answers f(1) == "int".

On the library, a call that overlaps a rebuild dispatches over the table
while it is being refilled: it raises "No method ... [int]" or silently runs
the `object` fallback.
"""

import sys
import threading

from ovld import Ovld

sys.setswitchinterval(1e-5)

f = Ovld(name="f")


@f.register
def fallback(x: object):
    return "object"


for i in range(30):
    cls = type(f"K{i}", (), {})

    def other(x: cls):
        return "other"

    f.register(other)


@f.register
def on_int(x: int):
    return "int"


assert f(1) == "int"

stop = threading.Event()
deviations = []
ncalls = [0]


def caller():
    while not stop.is_set():
        try:
            r = f(1)
        except Exception as exc:  # noqa
            r = f"{type(exc).__name__}: {exc}"
        ncalls[0] += 1
        if r != "int":
            deviations.append(r)
            if len(deviations) > 1000:
                return


t = threading.Thread(target=caller)
t.start()

rebuilds = 0
for _ in range(300):
    def on_str(x: str):
        return "str"

    f.register(on_str)  # has nothing to do with f(1)
    f.unregister(on_str)
    rebuilds += 2
    if deviations:
        break

stop.set()
t.join()

# sanity: once everything is quiet the function is fine again
assert f(1) == "int"

if deviations:
    kinds = sorted(set(deviations))
    print(
        f"C05 VIOLATED: {len(deviations)} of {ncalls[0]} calls f(1) made while "
        f"an unrelated method was being registered/unregistered ({rebuilds} "
        f"rebuilds) did not run the int method; they gave:"
    )
    for k in kinds:
        print("   ", k)
    sys.exit(1)

print(f"ok: {ncalls[0]} concurrent calls, {rebuilds} rebuilds, all answered 'int'")
sys.exit(0)
