"""C05 (failing build + change made while a call is running).

A call is suspended half-way (the method is a generator that uses recurse).
Meanwhile:
    f.register(bad)      -> raises TypeError (argument name conflict), build fails
    f.unregister(bad)    -> the mistake is taken back
    f.register(on_str)   -> a perfectly good method for str
The resulting method set is {walk, on_int, fallback, on_str}.  A brand-new
function built from it sends "s" to on_str, from a new call and from a
recurse() inside walk alike.

On the library the suspended call, when resumed, still dispatches recurse("s")
over the table of the last successful build (taken before the three changes):
it runs the `object` fallback.  The very same live function answers "str" to
a new outside call f("s"), so it disagrees with itself too.
"""

import sys

from ovld import Ovld, recurse

f = Ovld(name="f")


def walk(xs: list):
    for x in xs:
        yield recurse(x)


def on_int(x: int):
    return "int"


def fallback(x: object):
    return "object"


def bad(y: float, x: float):  # `x` in position 1: conflicts with the others
    return "bad"


def on_str(x: str):
    return "str"


for fn in (walk, on_int, fallback):
    f.register(fn)

it = f([1, "s", "s"])
assert next(it) == "int"  # the call is now running, suspended inside walk

try:
    f.register(bad)
except TypeError as exc:
    print("register(bad) raised as expected:", str(exc)[:60], "...")
else:
    print("unexpected: register(bad) did not raise")
f.unregister(bad)
f.register(on_str)

live_inner = next(it)  # recurse("s") inside the running call

# reference: brand-new function built from the resulting method set
g = Ovld(name="f")
for fn in (walk, on_int, fallback, on_str):
    g.register(fn)
ref_it = g([1, "s", "s"])
next(ref_it)
ref_inner = next(ref_it)

live_outer = f("s")  # new call: goes through the entry point, rebuilds
live_inner_after = next(it)

print("fresh function, recurse('s') inside walk :", ref_inner)
print("live function,  recurse('s') inside walk :", live_inner)
print("live function,  new call f('s')          :", live_outer)
print("live function,  recurse('s') after that  :", live_inner_after)

if live_inner != ref_inner:
    print(
        "C05 VIOLATED: after register(bad)->error, unregister(bad), "
        "register(on_str) the running call still dispatches on the table "
        "built before these changes"
    )
    sys.exit(1)
sys.exit(0)
