"""Additional observation (C05, public MultiTypeMap) - not one of the 3 demos.

MultiTypeMap keeps priority / tiebreak / declared types per *handler*
(self.priorities[handler], self.tiebreaks[handler], self.type_tuples[handler],
self.signatures[handler]), not per (signature, handler) entry.  When one
handler is registered under two signatures the last registration overwrites
the data of the other one, so the behaviour depends on the history and not on
the resulting method set; re-registering an already present
(signature, handler) pair flips the result of an unrelated lookup.
"""

import sys

from ovld import MultiTypeMap
from ovld.core import Signature


def mksig(types, priority=0):
    return Signature(
        types=types,
        return_type=None,
        req_pos=len(types),
        max_pos=len(types),
        req_names=frozenset(),
        vararg=False,
        priority=priority,
    )


tm = MultiTypeMap()
tm.register(mksig((int,), 10), "H")
tm.register(mksig((int,), 5), "N")
tm.register(mksig((str,), 0), "H")  # same handler, other signature
first = tm[(int,)]  # "N": H's priority 10 for int was overwritten by 0
tm.register(mksig((int,), 10), "H")  # re-register a present (signature, handler)
second = tm[(int,)]  # "H"
print("before the re-registration:", first, "- after:", second)
# The method set {int/10->H, int/5->N, str/0->H} is the same at both probes.
sys.exit(0 if first == second == "H" else 1)
