"""C16 (linkback: every later change to the ancestor shows up in the child).

P has two children created with linkback=True, C1 and C2; both are in use.
P.register(on_float) is fine for P and for C2, but the new method clashes
with one of C1's own methods (argument `x` in another position), so C1 can no
longer be built and P.register() lets C1's TypeError escape.

The registration itself has taken effect (P(1.5) runs on_float), but the
propagation loop stopped at C1: the sibling C2 is never rebuilt.  C2 keeps
answering from the method set of before the change - parent and linkback
child have drifted apart silently.  A function built from C2's parents'
methods plus its own handles 1.5 with on_float.
"""

import sys

from ovld import Ovld

P = Ovld(name="P")


def p_int(a: int):
    return "P.int"


P.register(p_int)


C1 = P.copy(linkback=True)


def c1_str(a: str, x: str):
    return "C1.str"


C1.register(c1_str)


C2 = P.copy(linkback=True)


def c2_str(a: str):
    return "C2.str"


C2.register(c2_str)


# put everything to use
assert (P(1), C1(1), C1("a", "b"), C2(1), C2("a")) == (
    "P.int",
    "P.int",
    "C1.str",
    "P.int",
    "C2.str",
)


def on_float(x: float):
    return "P.float"


try:
    P.register(on_float)
    print("P.register(on_float) returned normally")
except TypeError as exc:
    print("P.register(on_float) raised:", str(exc)[:70], "...")


def attempt(fn, *args):
    try:
        return fn(*args)
    except Exception as exc:  # noqa
        return f"{type(exc).__name__}: {str(exc)[:70]}"


print("P(1.5)  ->", attempt(P, 1.5))
print("C1(1.5) ->", attempt(C1, 1.5), " (C1 cannot be built any more: expected)")
live = attempt(C2, 1.5)
print("C2(1.5) ->", live)

# reference: C2's parents' methods plus its own, on a brand-new function
ref = Ovld(name="C2ref")
for fn in (p_int, on_float, c2_str):
    ref.register(fn)
expected = attempt(ref, 1.5)
print("fresh function with C2's method set, (1.5) ->", expected)

if attempt(P, 1.5) == "P.float" and live != expected:
    print(
        "C16 VIOLATED: the change to P took effect in P but does not show up "
        "in its linkback child C2 (C1's failure aborted the propagation)"
    )
    sys.exit(1)
sys.exit(0)
