"""C17: an extend_super definition dispatches over the inherited methods of
its bases PLUS its own, and call_next works on the bound method.

B.f is marked extend_super and re-defines the signature (int) that A already
has.  B's definition is the most recent one, so it runs first; its call_next
must continue with the next best inherited method for an int, which is A's
f(int) -- exactly what happens when the same three definitions are written in
ONE class body (class C).  In the library the inherited A.f(int) is silently
dropped from B's overloaded method: call_next skips it and runs A.f(object).
"""

import sys

from ovld import OvldBase, call_next, extend_super


class A(OvldBase):
    def f(self, x: int):
        return "A.int"

    def f(self, x: object):
        return "A.object"


class B(A):
    @extend_super
    def f(self, x: int):
        return ("B.int", call_next(x))


class C(OvldBase):  # the same three definitions in one class body
    def f(self, x: int):
        return "A.int"

    def f(self, x: object):
        return "A.object"

    def f(self, x: int):
        return ("B.int", call_next(x))


failures = []
expected = ("B.int", "A.int")

if C().f(1) != expected:
    failures.append(f"control C().f(1) = {C().f(1)!r}")
if A().f(1) != "A.int":
    failures.append(f"A().f(1) = {A().f(1)!r}")

got = B().f(1)
if got != expected:
    failures.append(
        f"B().f(1) = {got!r}, expected {expected!r}: the inherited f(int) of A is not "
        "among the methods B.f dispatches over (call_next from the override skips it)"
    )

if failures:
    print("C17 violated:")
    for x in failures:
        print("  -", x)
    sys.exit(1)
print("ok")
