r"""C17: a class that defines nothing (or only unmarked methods) does not
inherit like a class: an override made by its first base is undone.

        Two          f(int) -> "Two.int", f(str) -> "Two.str"   (marked extend_super,
       /   \                                                     nothing to extend)
    Three  Other     Three overrides f(int) with extend_super; Other defines nothing
       \   /
        Four         defines nothing           -> must behave like Three (its MRO)
        Five         one UNMARKED f(float)     -> must not dispatch over inherited methods
"""

import sys

from ovld import OvldBase, extend_super


class Base(OvldBase):
    pass


class Two(Base):
    @extend_super
    def f(self, x: int):
        return "Two.int"

    def f(self, x: str):
        return "Two.str"


class Three(Two):
    @extend_super
    def f(self, x: int):
        return "Three.int"


class Other(Two):
    pass


class Four(Three, Other):
    pass


class Five(Three, Other):
    def f(self, x: float):  # not marked: replaces the inherited f
        return ("Five.f", x)


failures = []


def check(label, got, expected):
    if got != expected:
        failures.append(f"{label}: got {got!r}, expected {expected!r}")


# the bases behave as documented
check("Two().f(1)", Two().f(1), "Two.int")
check("Three().f(1)", Three().f(1), "Three.int")
check("Three().f('s')", Three().f("s"), "Two.str")
check("Other().f(1)", Other().f(1), "Two.int")

# Four: MRO is Four, Three, Other, Two -> f is Three's overloaded method
assert [c.__name__ for c in Four.__mro__[:4]] == ["Four", "Three", "Other", "Two"]
check("Four().f(1)  (no definition in Four, first base is Three)", Four().f(1), "Three.int")
check("Four().f('s')", Four().f("s"), "Two.str")

# Five: a single unmarked definition is an ordinary function that replaces f
check("Five().f(1.5)", Five().f(1.5), ("Five.f", 1.5))
try:
    got = Five().f(1)
except TypeError as exc:  # would also be acceptable: own methods only
    got = ("Five.f", 1) if str(exc).startswith("No method") else repr(exc)
check("Five().f(1)  (unmarked definition must not dispatch to inherited methods)", got, ("Five.f", 1))

if failures:
    print("C17 violated:")
    for f in failures:
        print("  -", f)
    sys.exit(1)
print("ok")
