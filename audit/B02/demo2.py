"""C17: same-named definitions in one class body must form one overloaded
method, whatever the order in which they are written.

    @ovld(priority=1)  def f(self, x: object)      then   def f(self, x: int)     works
    def f(self, x: int)      then   @ovld(priority=1)  def f(self, x: object)     class body fails

The only difference between the two classes below is the order of the two
definitions (the documented way to give a priority to a method of an
OvldBase / OvldMC class is @ovld(priority=...)).
"""

import sys

from ovld import OvldBase, call_next, ovld

failures = []


class First(OvldBase):
    @ovld(priority=1)
    def f(self, x: object):
        return ("wrap", call_next(x))

    def f(self, x: int):
        return ("int", self)


a = First()
if a.f(1) != ("wrap", ("int", a)):
    failures.append(f"First().f(1) = {a.f(1)!r}")

try:

    class Second(OvldBase):
        def f(self, x: int):
            return ("int", self)

        @ovld(priority=1)
        def f(self, x: object):
            return ("wrap", call_next(x))

except Exception as exc:
    failures.append(
        "class Second (plain definition first, @ovld(priority=1) definition second) "
        f"cannot be created: {type(exc).__name__}: {exc}"
    )
else:
    b = Second()
    if b.f(1) != ("wrap", ("int", b)):
        failures.append(f"Second().f(1) = {b.f(1)!r}")

try:

    class Third(OvldBase):
        def g(self, x: int):
            return "int"

        @ovld
        def g(self, x: str):
            return "str"

except Exception as exc:
    failures.append(
        f"class Third (plain definition, then @ovld definition) cannot be created: {type(exc).__name__}: {exc}"
    )
else:
    if (Third().g(1), Third().g("s")) != ("int", "str"):
        failures.append("Third().g dispatches wrongly")

if failures:
    print("C17 violated:")
    for f in failures:
        print("  -", f)
    sys.exit(1)
print("ok")
