"""C02: between identical signatures the most recently registered method wins.

Keyword-only parameters have no order (inspect.Signature equality ignores it,
and a call cannot tell `*, k, j` from `*, j, k`), so the two methods below have
identical signatures: same positional type, same keyword-only names with the
same types, same priority.  The call must run the most recently registered one
(`second`), and resolve-by-call must not raise.  The library raises
'Ambiguous resolution' instead.
"""

import inspect
import sys

from ovld import Ovld


class A:
    pass


class K:
    pass


class J:
    pass


f = Ovld()


@f.register
def first(a: A, *, k: K, j: J):
    return "first"


@f.register
def second(a: A, *, j: J, k: K):
    return "second"


# control: the same two methods with the keyword-only parameters written in the same order
g = Ovld()


@g.register
def first_(a: A, *, k: K, j: J):
    return "first"


@g.register
def second_(a: A, *, k: K, j: J):
    return "second"


failures = []

# Python itself considers the signatures identical
assert inspect.signature(first) == inspect.signature(second)

if g(A(), k=K(), j=J()) != "second":
    failures.append("control g: the most recently registered method did not win")

for kwargs in ({"k": K(), "j": J()}, {"j": J(), "k": K()}):
    try:
        got = f(A(), **kwargs)
    except TypeError as exc:
        got = "TypeError: " + str(exc).splitlines()[0]
    if got != "second":
        failures.append(f"f(A(), {', '.join(kwargs)}) -> {got!r}, expected 'second'")

if failures:
    print("C02 violated:")
    for x in failures:
        print("  -", x)
    sys.exit(1)
print("ok")
