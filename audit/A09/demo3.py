"""C14: between type[...] annotations over generics with DIFFERENT origins the
library prefers the one with the subclass origin without looking at the
parameters, although it is not a subtype of the other one.

Statement: applicability and preference are by subtyping, "a same-or-subclass
origin with argument-wise subtyping for generics"; only "a more specific
type[...] annotation is preferred over a more general one".  list[object] is
not a subtype of Sequence[int] (object is not a subtype of int) and
Sequence[int] is not a subtype of list[object] (Sequence is not a subclass of
list): the two methods are unordered, so a call to which both apply has no
unique most specific method and must be reported as ambiguous (as the library
does for every other pair of unordered methods).  Instead the library silently
runs the type[list[object]] method.
"""

import sys
from collections.abc import Sequence

from ovld import ovld
from ovld.mro import subclasscheck

failures = []


def outcome(fn, *args):
    try:
        return fn(*args)
    except TypeError as e:
        return "TypeError: " + str(e).split("\n")[0]


class A:
    pass


class B(A):
    pass


class L(list):
    pass


def scenario(T1, T2, passed, label):
    # each method alone accepts the passed type
    @ovld
    def only1(t: type[T1]):
        return "M1"

    @ovld
    def only2(t: type[T2]):
        return "M2"

    assert only1(passed) == "M1", (label, "M1 should apply")
    assert only2(passed) == "M2", (label, "M2 should apply")
    # neither annotation is a subtype of the other (the library agrees)
    assert not subclasscheck(T1, T2) and not subclasscheck(T2, T1), label
    assert not subclasscheck(type[T1], type[T2]), label
    assert not subclasscheck(type[T2], type[T1]), label

    @ovld
    def both(t: type[T1]):
        return "M1"

    @ovld
    def both(t: type[T2]):
        return "M2"

    got = outcome(both, passed)
    if not got.startswith("TypeError: Ambiguous"):
        failures.append(
            f"{label}: methods type[{T1}] / type[{T2}] are unordered, "
            f"f({passed}) should be ambiguous but ran {got!r}"
        )


# the method whose parameter is plain `object` wins over the one that says `int`
scenario(list[object], Sequence[int], list[int], "list[object] vs Sequence[int]")
scenario(list[object], Sequence[bool], list[bool], "list[object] vs Sequence[bool]")
# class hierarchy + subclassed generic + nesting
scenario(L[A], list[B], L[B], "L[A] vs list[B]")
scenario(list[list[B]], Sequence[L], L[L[B]], "list[list[B]] vs Sequence[L]")


# Control: with the SAME origin, unordered parameters are reported properly
@ovld
def ctl(t: type[dict[str, A]]):
    return "M1"


@ovld
def ctl(t: type[dict[object, B]]):
    return "M2"


assert outcome(ctl, dict[str, B]).startswith("TypeError: Ambiguous")

if failures:
    print("C14 violated: an annotation that is not more specific is preferred")
    for line in failures:
        print("  -", line)
    sys.exit(1)
print("ok")
