"""C17: a method name defined ONCE in an OvldBase / OvldMC class is not an
overloaded method at all: no dispatch on the annotation, and recurse /
call_next are unusable in it.

Statement: "same-named definitions in one class body form one overloaded
method bound to the instance ... recurse / call_next work on the bound method"
for "every assignment of method definitions ... to its classes".  The
documentation (docs/usage.md) itself shows such a class:

    class IOL(metaclass=OvldMC):
        def __call__(self, xs: list):
            return [recurse(x) for x in xs]
"""

import sys

from ovld import OvldBase, OvldMC, extend_super, ovld, recurse

failures = []


# Reference: what one definition gives with an explicit @ovld
class Ref:
    @ovld
    def f(self, x: int):
        return "int method"


try:
    Ref().f("a string")
    failures.append("reference @ovld method accepted a str?!")
except TypeError:
    pass


# 1. the annotation of a single definition is not dispatched on
class K(OvldBase):
    def f(self, x: int):
        return "int method"


try:
    r = K().f("a string")
    failures.append(
        f"K(OvldBase) with one definition f(self, x: int): K().f('a string') "
        f"ran the int method and returned {r!r} instead of raising TypeError"
    )
except TypeError:
    pass


# 2. recurse does not work on the bound method (class taken from the docs)
class IOL(metaclass=OvldMC):
    def __call__(self, xs: list):
        return [recurse(x) for x in xs]


try:
    r = IOL()([[], [[]]])
    if r != [[], [[]]]:
        failures.append(f"IOL()([[], [[]]]) returned {r!r}")
except Exception as e:
    failures.append(
        f"IOL()([[], [[]]]) raised {type(e).__name__}: {e} "
        "(recurse is not usable in a method defined once)"
    )


# 3. ... although the very same definition works as soon as a subclass
#    extends it, so the base class and the subclass disagree on inherited
#    behaviour for the same arguments
class Mul(IOL):
    @extend_super
    def __call__(self, x: int):
        return x * 2


if Mul()([[], [[]]]) != [[], [[]]]:
    failures.append("Mul()([[], [[]]]) wrong")

if failures:
    print("C17 violated:")
    for line in failures:
        print("  -", line)
    sys.exit(1)
print("ok")
