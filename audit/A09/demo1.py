"""C14: typing.Any inside a type[...] annotation does not count as object.

Statement: "bare type behaves as type[object], typing.Any counts as object".
A method annotated type[Any] / type[list[Any]] / type[dict[str, Any]] must
therefore be applicable exactly like type[object] / type[list[object]] /
type[dict[str, object]].  On the library it is applicable to nothing but the
literally identical alias.
"""

import sys
import typing
from typing import Any

from ovld import ovld

failures = []


def outcome(fn, arg):
    try:
        return fn(arg)
    except TypeError as e:
        return "TypeError: " + str(e).split("\n")[0]


def check(label, fn_any, fn_obj, arg):
    got_any = outcome(fn_any, arg)
    got_obj = outcome(fn_obj, arg)
    if got_any != got_obj:
        failures.append(
            f"{label}: with Any -> {got_any!r}, with object -> {got_obj!r}"
        )


class A:
    pass


# --- type[Any] vs type[object] -------------------------------------------
@ovld
def f_any(t: type[Any]):
    return "hit"


@ovld
def f_obj(t: type[object]):
    return "hit"


check("type[Any] <- int", f_any, f_obj, int)
check("type[Any] <- A", f_any, f_obj, A)
check("type[Any] <- list[int]", f_any, f_obj, list[int])


# --- type[list[Any]] vs type[list[object]] -------------------------------
@ovld
def g_any(t: type[list[Any]]):
    return "hit"


@ovld
def g_obj(t: type[list[object]]):
    return "hit"


check("type[list[Any]] <- list[int]", g_any, g_obj, list[int])
check("type[list[Any]] <- list[A]", g_any, g_obj, list[A])
check("type[list[Any]] <- list[list[int]]", g_any, g_obj, list[list[int]])
# (the only thing it accepts is the identical alias)
check("type[list[Any]] <- list[Any]", g_any, g_obj, list[Any])


# --- nested: type[dict[str, Any]] ----------------------------------------
@ovld
def h_any(t: type[dict[str, Any]]):
    return "hit"


@ovld
def h_obj(t: type[dict[str, object]]):
    return "hit"


check("type[dict[str, Any]] <- dict[str, int]", h_any, h_obj, dict[str, int])


# --- with a fallback: the Any method is silently skipped ------------------
@ovld
def k(t: type[list[Any]]):
    return "list of anything"


@ovld
def k(t: object):
    return "fallback"


if k(list[int]) != "list of anything":
    failures.append(
        f"k(list[int]) ran {k(list[int])!r} instead of the type[list[Any]] method"
    )

if failures:
    print("C14 violated: typing.Any in a type[...] annotation is not treated as object")
    for line in failures:
        print("  -", line)
    sys.exit(1)
print("ok")
