"""C03 (C01 scope: union with type[...] arms and value-dependent members):
a parameter annotated Union[type[A], Literal[1]] makes every call whose
argument class reaches that method die in the generated checking code with
"isinstance() argument 2 cannot be a parameterized generic" -- also the calls
the method accepts (h(1), h(A)) and the calls another method accepts (h(0)).

Exit status 0 = property holds, 1 = violated.
"""
import sys
from typing import Literal, Union

from ovld import Dependent, ovld
from ovld.types import Intersection

problems = []


class A:
    pass


class B(A):
    pass


@ovld
def h(x: Union[type[A], Literal[1]]):
    return ("union", x)


@ovld
def h(x: object):
    return ("fallback", x)


for arg, expected in [
    (1, ("union", 1)),
    (A, ("union", A)),
    (B, ("union", B)),
    (0, ("fallback", 0)),
    (int, ("fallback", int)),
    ("s", ("fallback", "s")),
]:
    try:
        got = h(arg)
        if got != expected:
            problems.append(f"h({arg!r}) returned {got!r}, expected {expected!r}")
    except TypeError as e:
        problems.append(f"h({arg!r}) refused: {e}")


# the same with an intersection
def is_leaf(c):
    return not c.__subclasses__()


@ovld
def k(x: Intersection[type[A], Dependent[object, is_leaf]]):
    return ("inter", x)


@ovld
def k(x: object):
    return ("fallback", x)


for arg, expected in [(B, ("inter", B)), (A, ("fallback", A))]:
    try:
        got = k(arg)
        if got != expected:
            problems.append(f"k({arg!r}) returned {got!r}, expected {expected!r}")
    except TypeError as e:
        problems.append(f"k({arg!r}) refused: {e}")

for p in problems:
    print("VIOLATION:", p)
sys.exit(1 if problems else 0)
