"""C03: keywords at a call_next call site.

(a) call_next(k=k, x=x, y=y) / call_next(y=y, x=x): a call shape that the
    next method accepts, and that f(...) and recurse(...) accept, is refused.
(b) call_next(a=v): the keyword `a` is turned into the first positional
    argument and delivered to a method that has no parameter `a` (its first
    parameter has another name, or is positional-only). f(a=v) is a TypeError.

Exit status 0 = property holds, 1 = violated.
"""
import sys

from ovld import call_next, ovld, recurse

problems = []


# ---- (a) -------------------------------------------------------------------
@ovld
def f(x: int, y: int, *, k: int = 0):
    return ("base", x, y, k)


@ovld(priority=1)
def f(x: int, y: int, *, k: int = 0):
    return call_next(k=k, x=x, y=y)


@ovld
def g(x: int, y: int):
    return ("base", x, y)


@ovld(priority=1)
def g(x: int, y: int):
    return call_next(y=y, x=x)


@ovld
def r(x: int, y: int, *, k: int = 0):
    return ("base", x, y, k)


@ovld
def r(x: str, y: int, *, k: int = 0):
    return recurse(k=k, y=y, x=int(x))


# the same shapes are fine on the function itself and through recurse
assert r(k=3, x=1, y=2) == ("base", 1, 2, 3)
assert r("1", 2, k=3) == ("base", 1, 2, 3)

for fn, args, kw, expected in [
    (f, (1, 2), {"k": 3}, ("base", 1, 2, 3)),
    (g, (1, 2), {}, ("base", 1, 2)),
]:
    try:
        got = fn(*args, **kw)
        if got != expected:
            problems.append(f"{fn.__name__}: got {got!r}, expected {expected!r}")
    except TypeError as e:
        problems.append(
            f"{fn.__name__}{args}: call_next with keywords refused: "
            + str(e).splitlines()[0]
        )


# ---- (b) -------------------------------------------------------------------
@ovld(priority=1)
def h(a: object):
    return call_next(a=a)


@ovld
def h(p: object, /):
    return ("h[p]", p)


try:
    h(a=1)
    direct = "accepted"
except TypeError:
    direct = "TypeError"
assert direct == "TypeError"  # positions named differently: strictly positional

try:
    got = h(1)
    problems.append(
        f"call_next(a=1) ran {got!r}: keyword 'a' was delivered to the "
        "positional-only parameter 'p' (h(a=1) itself is a TypeError)"
    )
except TypeError:
    pass

for p in problems:
    print("VIOLATION:", p)
sys.exit(1 if problems else 0)
