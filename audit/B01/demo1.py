"""C01: a Dependent[...] whose bound is itself value-dependent (list[int],
tuple[int, str], Literal[...], another Dependent) only has its bound checked
on the argument's class; the bound's own value condition is never evaluated.

Exit status 0 = property holds, 1 = violated.
"""
import sys
from typing import Literal

from ovld import Dependent, dependent_check, ovld

problems = []


def nonempty(xs):
    return len(xs) > 0


T = Dependent[list[int], nonempty]


@ovld
def f(xs: T):
    if not isinstance(xs, T):
        problems.append(
            f"f[{T}] entered with {xs!r}, but isinstance({xs!r}, {T}) is False"
        )
    return "list[int], non-empty"


@ovld
def f(xs: object):
    return "fallback"


assert isinstance([1], T) and not isinstance(["a"], T)
assert f([1]) == "list[int], non-empty"
assert f([]) == "fallback"
r = f(["a"])  # documented: isinstance(value, bound) and check(value) -> fallback
if r != "fallback":
    problems.append(f"f(['a']) returned {r!r} instead of 'fallback'")


# Same thing with the bound taken from the annotation of a @dependent_check
@dependent_check
def Longer(value: tuple[int, str], n):
    return len(value) > n


@ovld
def g(x: Longer[1]):
    if not isinstance(x, Longer[1]):
        problems.append(f"g[Longer[1]] entered with {x!r}")
    return "Longer"


@ovld
def g(x: object):
    return "fallback"


g(("a", "b"))

# ... and with a Literal bound
L = Dependent[Literal[1, 2], lambda v: True]


@ovld
def h(x: L):
    if not isinstance(x, L):
        problems.append(f"h[{L}] entered with {x!r}")
    return "L"


@ovld
def h(x: object):
    return "fallback"


h(3)

for p in problems:
    print("VIOLATION:", p)
sys.exit(1 if problems else 0)
