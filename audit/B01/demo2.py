"""C03: inside a method that takes `self`, a call to the overloaded function
by its own (module-level) name, written as Python requires -- f(self, x) --
is rewritten as if it were recurse(self, x): self is passed a second time.
The arguments land one position too far to the right (silently), or the call
is refused although the same call made from outside is accepted.

Exit status 0 = property holds, 1 = violated.
"""
import sys

from ovld import ovld

problems = []


# -- 1. silently shifted arguments ------------------------------------------
@ovld
def show(self, x: int, y: object = "default-y"):
    return ("int", self, x, y)


@ovld
def show(self, x: object, y: object = "default-y"):
    return ("object", self, x, y)


@ovld
def show(self, x: list, y: object = "default-y"):
    # plain Python: `show` is a module-level function, self must be passed
    return [show(self, a) for a in x]


class Printer:
    show = show


p = Printer()
outside = show(p, 5)  # the very same call, made from outside a method
assert outside == ("int", p, 5, "default-y"), outside
inside = p.show([5])[0]
if inside != outside:
    problems.append(
        f"show(self, 5) from inside a method ran {inside!r}; "
        f"from outside it runs {outside!r}"
    )


# -- 2. refused call ---------------------------------------------------------
@ovld
def visit(self, x: int):
    return x + 1


@ovld
def visit(self, x: list):
    return [visit(self, a) for a in x]


class V:
    visit = visit


v = V()
assert visit(v, 1) == 2
try:
    r = v.visit([1, 2])
    if r != [2, 3]:
        problems.append(f"V().visit([1, 2]) returned {r!r}")
except TypeError as e:
    problems.append(
        f"visit(self, a) inside visit[list] was refused: {str(e).splitlines()[0]}"
    )

for pr in problems:
    print("VIOLATION:", pr)
sys.exit(1 if problems else 0)
