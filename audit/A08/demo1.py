"""C12: a type must be the SAME as itself and typeorder must be mirror-symmetric.

Exactly[A] / StrictSubclass[A] / HasMethod["m"] written twice (as one does in
two annotations) are not recognised as the same type:
  typeorder(Exactly[A], Exactly[A]) is MORE in *both* directions,
  typeorder(StrictSubclass[A], StrictSubclass[A]) and HasMethod are NONE.
Consequence at dispatch: h(x: Exactly[A], y: int) does not dominate
h(x: Exactly[A], y: object) -> spurious "Ambiguous resolution".
"""

import sys

from ovld import ovld
from ovld.mro import Order, typeorder
from ovld.types import Exactly, HasMethod, StrictSubclass


class A:
    pass


failures = []

for label, make in [
    ("Exactly[A]", lambda: Exactly[A]),
    ("StrictSubclass[A]", lambda: StrictSubclass[A]),
    ("HasMethod['m']", lambda: HasMethod["m"]),
]:
    t1, t2 = make(), make()
    o12, o21 = typeorder(t1, t2), typeorder(t2, t1)
    if o12 is not o21.opposite():
        failures.append(
            f"not mirror images: typeorder({label}, {label}) = {o12}, reversed = {o21}"
        )
    if o12 is not Order.SAME:
        failures.append(
            f"{label} is not the SAME as {label}: typeorder gives {o12} / {o21}"
        )


@ovld
def h(x: Exactly[A], y: int):
    return "int"


@ovld
def h(x: Exactly[A], y: object):
    return "object"


try:
    r = h(A(), 1)
    if r != "int":
        failures.append(f"h(A(), 1) returned {r!r}, expected 'int'")
except TypeError as e:
    failures.append(
        "h(A(), 1) with methods (Exactly[A], int) and (Exactly[A], object) "
        "should run the (Exactly[A], int) method, got TypeError: "
        + str(e).splitlines()[0]
    )


@ovld
def k(x: HasMethod["m"], y: int):
    return "int"


@ovld
def k(x: HasMethod["m"], y: object):
    return "object"


class WithM:
    def m(self):
        pass


try:
    r = k(WithM(), 1)
    if r != "int":
        failures.append(f"k(WithM(), 1) returned {r!r}, expected 'int'")
except TypeError as e:
    failures.append(
        "k(WithM(), 1) with methods (HasMethod['m'], int) and (HasMethod['m'], object) "
        "should run the first, got TypeError: " + str(e).splitlines()[0]
    )

if failures:
    print("PROPERTY C12 VIOLATED")
    for f in failures:
        print(" -", f)
    sys.exit(1)
print("ok")
