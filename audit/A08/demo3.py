"""C12: a parametrised generic compares argument-wise; the order must agree
with the subtype test on the class / generic fragment.

typeorder only looks at the origins when they differ and ignores the
arguments: typeorder(list[object], Sequence[int]) is LESS ("list[object] is
more specific than Sequence[int]") although list[object] is not a subtype of
Sequence[int] (object is not below int; the library's own
subclasscheck(list[object], Sequence[int]) is False).

Dispatch: g(x: type[list[object]]) and g(x: type[Sequence[int]]) both apply
to g(list[int]); neither declared type is below the other, so the call is
ambiguous - the library silently runs the list[object] method.
"""

import sys
from collections.abc import Sequence
from typing import Generic, TypeVar

from ovld import ovld
from ovld.mro import Order, subclasscheck, typeorder

T = TypeVar("T")


class G(Generic[T]):
    pass


class H(G[T]):
    pass


failures = []

for a, b in [
    (list[object], Sequence[int]),
    (H[object], G[int]),
    (H[str], G[int]),
    (type[list[object]], type[Sequence[int]]),
]:
    o = typeorder(a, b)
    below = subclasscheck(a, b)
    if o in (Order.LESS, Order.SAME) and not below:
        failures.append(
            f"typeorder({a}, {b}) = {o} but subclasscheck({a}, {b}) = {below}"
            " (arguments ignored because the origins differ)"
        )


@ovld
def g(x: type[list[object]]):
    return "list[object]"


@ovld
def g(x: type[Sequence[int]]):
    return "Sequence[int]"


# Both methods are applicable to list[int] ...
assert subclasscheck(type[list[int]], type[list[object]])
assert subclasscheck(type[list[int]], type[Sequence[int]])
# ... and only one of them to these:
assert g(list[str]) == "list[object]"
assert g(tuple[int]) == "Sequence[int]"

try:
    r = g(list[int])
    failures.append(
        f"g(list[int]) ran the {r!r} method; type[list[object]] and "
        "type[Sequence[int]] are unrelated (neither is a subtype of the other), "
        "the call should be ambiguous"
    )
except TypeError as e:
    if "Ambiguous" not in str(e):
        failures.append(f"unexpected error: {e}")

if failures:
    print("PROPERTY C12 VIOLATED")
    for f in failures:
        print(" -", f)
    sys.exit(1)
print("ok")
