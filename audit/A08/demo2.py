"""C13: a method declared on a union is applicable to v exactly when v is a
member of some union arm.

With the arms being type[...] (classes passed as arguments), the method is
never applicable: f(x: type[int] | type[str]) rejects f(int), and
g(x: type[int] | None) rejects g(int) (but accepts g(None)).  The same
declaration works as soon as some *other* method of the ovld declares a bare
type[...] on that parameter, which shows the intended meaning.
"""

import sys

from ovld import ovld
from ovld.types import Intersection

failures = []


@ovld
def f(x: type[int] | type[str]):
    return "int-or-str class"


for v in (int, str, bool):
    try:
        r = f(v)
        if r != "int-or-str class":
            failures.append(f"f({v.__name__}) returned {r!r}")
    except TypeError as e:
        failures.append(
            f"f(x: type[int] | type[str]) is not applicable to {v.__name__}: {e}"
        )

# must NOT be applicable to float (control)
try:
    f(float)
    failures.append("f(float) was accepted")
except TypeError:
    pass


@ovld
def g(x: type[int] | None):
    return "ok"


for v in (None, int):
    try:
        g(v)
    except TypeError as e:
        failures.append(f"g(x: type[int] | None) is not applicable to {v!r}: {e}")


@ovld
def i(x: Intersection[type[object], type[int]]):
    return "ok"


try:
    i(bool)
except TypeError as e:
    failures.append(
        f"i(x: Intersection[type[object], type[int]]) is not applicable to bool: {e}"
    )


# The same union declaration is honoured when a sibling declares a plain
# type[...]: applicability of a method depends on its siblings.
@ovld
def f2(x: type[int] | type[str]):
    return "int-or-str class"


@ovld
def f2(x: type[float]):
    return "float class"


try:
    assert f2(int) == "int-or-str class"
except Exception as e:  # pragma: no cover
    failures.append(f"control f2(int) failed: {e!r}")

if failures:
    print("PROPERTY C13 VIOLATED")
    for f_ in failures:
        print(" -", f_)
    sys.exit(1)
print("ok")
