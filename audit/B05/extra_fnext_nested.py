"""C07 - f.next(x) written in a lambda / inner function / generator expression
inside a method starts over from the top of the resolution order.

`hi` (priority 1) delegates with f.next(x) from a nested lambda.  The next
method for an int below `hi` is `lo`; the library instead selects `hi` again
(f.next identifies the current method by the code object of the frame that
called it, which is the lambda's), i.e. the method is visited more than once
and the chain never goes down: unbounded recursion.  The same body with
call_next(x) works, and so does f.next(x) written directly in the method.

Exit status 0 = property holds, 1 = violated.
"""

import sys

from ovld import call_next, ovld


class VisitedTwice(Exception):
    pass


def build(form):
    visits = []

    @ovld(priority=1)
    def f(x: int):
        visits.append("hi")
        if len(visits) > 1:
            raise VisitedTwice(visits)
        if form == "direct":
            return ("hi", f.next(x))
        elif form == "lambda":
            return ("hi", (lambda: f.next(x))())
        elif form == "inner def":

            def inner():
                return f.next(x)

            return ("hi", inner())
        elif form == "generator expression":
            return ("hi", next(f.next(x) for _ in range(1)))
        elif form == "call_next in lambda":
            return ("hi", (lambda: call_next(x))())

    @ovld
    def f(x: int):
        visits.append("lo")
        return ("lo", x)

    return f, visits


failures = []
for form in [
    "direct",
    "call_next in lambda",
    "lambda",
    "inner def",
    "generator expression",
]:
    f, visits = build(form)
    try:
        got = f(1)
    except VisitedTwice:
        got = f"method `hi` selected again by f.next (visits: {visits})"
    except BaseException as exc:  # noqa
        got = f"{type(exc).__name__}: {exc}"
    if got != ("hi", ("lo", 1)):
        failures.append(f"f.next(x) in {form}: expected ('hi', ('lo', 1)), got {got}")

if failures:
    print("C07 violated:")
    for f_ in failures:
        print("  -", f_)
    sys.exit(1)
print("ok")
