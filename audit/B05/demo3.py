"""C07 - call_next / recurse written in a method of a class defined inside an
ovld method fail with NameError.

The rewritten call site uses generated global names that start with two
underscores (___MAP<n>, ___CODE<slot>, __PLAIN_TYPE, __SUBTLER_TYPE); inside
a class body the compiler mangles such names (_Later___MAP1, ...), so the call
never reaches the next method.

Exit status 0 = property holds, 1 = violated.
"""

import sys

from ovld import call_next, ovld, recurse


@ovld(priority=1)
def f(x: int):
    class Later:
        def __call__(self):
            return call_next(x)

    return ("hi", Later()())


@ovld
def f(x: int):
    return ("lo", x)


@ovld
def walk(x: list):
    class Visitor:
        def visit(self, item):
            return recurse(item)

    v = Visitor()
    return [v.visit(i) for i in x]


@ovld
def walk(x: int):
    return x + 1


def attempt(thunk):
    try:
        return thunk()
    except BaseException as exc:  # noqa
        return f"{type(exc).__name__}: {exc}"


failures = []
got = attempt(lambda: f(1))
if got != ("hi", ("lo", 1)):
    failures.append(f"f(1): expected ('hi', ('lo', 1)), got {got!r}")
got = attempt(lambda: walk([1, [2]]))
if got != [2, [3]]:
    failures.append(f"walk([1, [2]]): expected [2, [3]], got {got!r}")

if failures:
    print("C07 violated:")
    for f_ in failures:
        print("  -", f_)
    sys.exit(1)
print("ok")
