"""C16 - which of the parent's methods a child's own method replaces depends
on the position of the parent's method in its re-registration chain, not on
its signature; later changes of a linked parent then surface in the child as
methods that appear / disappear although they were not the ones touched.

P has two methods of identical signature (a, then b registered over it: P(1)
runs b, whose call_next runs a).  C = P.copy(linkback=True) registers c, again
with the identical signature.

The statement says C behaves as a function whose methods are P's methods plus
c, "its own replacing a parent's method of identical signature".  Both a and b
have the signature of c, so either
  (R) c replaces them:          C(1) visits  c
  (S) c is stacked over them
      (as in P itself):         C(1) visits  c, b, a
The library gives               C(1) visits  c, a      (b replaced, a kept).

Then P.register(d) (same signature).  With linkback the change must show up in
C: d may appear (S) or stay hidden behind c (R); nothing else changed.  The
library makes *b* appear in C (c, b, a).  And P.unregister(b) on the original
P (b is not among C's methods according to the library) removes *a* from C.

Exit status 0 = property holds, 1 = violated.
"""

import sys

from ovld import Ovld, call_next


def visited(result):
    out = []
    while isinstance(result, tuple):
        out.append(result[0])
        result = result[1]
    return out


def a(x: int):
    try:
        return ("a", call_next(x))
    except TypeError:
        return ("a", None)


def b(x: int):
    try:
        return ("b", call_next(x))
    except TypeError:
        return ("b", None)


def c(x: int):
    try:
        return ("c", call_next(x))
    except TypeError:
        return ("c", None)


def d(x: int):
    try:
        return ("d", call_next(x))
    except TypeError:
        return ("d", None)


failures = []

# --- without linkback --------------------------------------------------
P = Ovld(name="P")
P.register(a)
P.register(b)
C = P.copy()
C.register(c)
got = visited(C(1))
assert visited(P(1)) == ["b", "a"], visited(P(1))
if got not in (["c"], ["c", "b", "a"]):
    failures.append(
        f"P = [b over a], C = P.copy() + c: C(1) visits {got}; "
        "expected ['c'] (c replaces the methods of identical signature) "
        "or ['c', 'b', 'a'] (c on top of them)"
    )

# --- with linkback: later changes of P --------------------------------
P = Ovld(name="P")
P.register(a)
P.register(b)
C = P.copy(linkback=True)
C.register(c)
before = visited(C(1))

P.register(d)
assert visited(P(1)) == ["d", "b", "a"], visited(P(1))
after = visited(C(1))
appeared = [m for m in after if m not in before]
if appeared not in ([], ["d"]):
    failures.append(
        f"P.register(d): C(1) went from {before} to {after}; the method that "
        f"appeared in the child is {appeared}, not the one registered on the parent"
    )

P2 = Ovld(name="P2")
P2.register(a)
P2.register(b)
C2 = P2.copy(linkback=True)
C2.register(c)
before = visited(C2(1))
P2.unregister(b)
assert visited(P2(1)) == ["a"], visited(P2(1))
after = visited(C2(1))
gone = [m for m in before if m not in after]
if gone not in ([], ["b"]):
    failures.append(
        f"P2.unregister(b): C2(1) went from {before} to {after}; the method that "
        f"disappeared from the child is {gone}, not the one unregistered on the parent"
    )

if failures:
    print("C16 violated:")
    for f_ in failures:
        print("  -", f_)
    sys.exit(1)
print("ok")
