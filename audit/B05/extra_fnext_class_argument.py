"""(extra, beyond the four demos) C07 - f.next(cls) with a class as argument.

The entry point and call_next key an argument at a position without type[...]
annotations by type(arg) (here: `type`), f.next keys every argument with
subtler_type (here: type[int]).  Class-level types that look at the key itself
(Exactly[type], HasMethod on a metaclass attribute, ...) accept the former and
reject the latter, so f.next(int) does not find the method that call_next(int)
and a fresh call find.

Exit status 0 = property holds, 1 = violated.
"""

import sys

from ovld import call_next, ovld
from ovld.types import Exactly


@ovld(priority=1)
def f(x: object):
    return ("top", f.next(x))


@ovld
def f(x: Exactly[type]):
    return "exactly-type"


@ovld(priority=1)
def g(x: object):
    return ("top", call_next(x))


@ovld
def g(x: Exactly[type]):
    return "exactly-type"


def attempt(thunk):
    try:
        return thunk()
    except BaseException as exc:  # noqa
        return f"{type(exc).__name__}: {exc}"


assert attempt(lambda: g(int)) == ("top", "exactly-type")
got = attempt(lambda: f(int))
if got != ("top", "exactly-type"):
    print("C07 violated: f.next(int):", got)
    sys.exit(1)
print("ok")
