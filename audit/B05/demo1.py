"""C07 - call_next (and recurse) written inside an ovld that is itself defined
inside a method of another ovld are captured by the ENCLOSING ovld.

The inner function `inner` has two methods for int; the high-priority one
delegates with call_next(y).  Had the current method not been registered,
inner(1) would pick `inner_lo`, so call_next(y) must invoke it.

Control: the very same inner definition placed in a plain (non-ovld) function
works.  Inside a method of the ovld `outer`, the library rewrites the inner
call_next site against outer's table: it raises
"No method in <Ovld outer> for argument types [int]" (or, when outer has a
method for that argument, runs a method of OUTER).

Exit status 0 = property holds, 1 = violated.
"""

import sys

from ovld import call_next, ovld, recurse


def plain_factory(x):
    @ovld(priority=1)
    def inner(y: int):
        return ("inner_hi", call_next(y))

    @ovld
    def inner(y: int):
        return ("inner_lo", y)

    return inner(x)


@ovld
def outer(x: int):
    @ovld(priority=1)
    def inner(y: int):
        return ("inner_hi", call_next(y))

    @ovld
    def inner(y: int):
        return ("inner_lo", y)

    return inner(x)


@ovld
def outer(x: str):
    return "outer_str"


# same thing with recurse: the helper's recursion lands in the enclosing ovld
@ovld
def outer2(x: list):
    @ovld
    def helper(y: list):
        return [recurse(a) for a in y]

    @ovld
    def helper(y: int):
        return y + 1

    return helper(x)


@ovld
def outer2(x: int):
    return "OUTER2_INT"


def attempt(thunk):
    try:
        return thunk()
    except BaseException as exc:  # noqa
        return f"{type(exc).__name__}: {exc}"


failures = []

expected = ("inner_hi", ("inner_lo", 1))
control = attempt(lambda: plain_factory(1))
if control != expected:
    failures.append(f"control (plain enclosing function): {control!r}")

got = attempt(lambda: outer(1))
if got != expected:
    failures.append(
        f"inner(1) defined inside a method of `outer`: expected {expected!r}, got {got!r}"
    )

got2 = attempt(lambda: outer2([1, [2]]))
if got2 != [2, [3]]:
    failures.append(
        f"helper([1, [2]]) defined inside a method of `outer2`: expected [2, [3]], got {got2!r}"
    )

if failures:
    print("C07 violated:")
    for f in failures:
        print("  -", f)
    sys.exit(1)
print("ok")
