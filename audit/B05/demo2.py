"""C07 - call_next with keyword arguments that name the positional parameters,
written in another order than the positions: call_next(y=y, x=x).

f(y=2, x=1) is a valid call of f (the entry point binds x and y, both methods
use the same names), and without the high-priority method it reaches `lo`.
So call_next(y=y, x=x) from `hi` must invoke `lo` with x=1, y=2.  The library
raises "No method in <Ovld f> for argument types [x: int, y: int]" instead.
call_next(x=x, y=y) (same keywords, positional order) works.

Exit status 0 = property holds, 1 = violated.
"""

import sys

from ovld import call_next, ovld


@ovld(priority=1)
def f(x: int, y: int):
    return ("hi", call_next(y=y, x=x))


@ovld
def f(x: int, y: int):
    return ("lo", x, y)


@ovld(priority=1)
def g(x: int, y: int):
    return ("hi", call_next(x=x, y=y))


@ovld
def g(x: int, y: int):
    return ("lo", x, y)


# what the call would select if `hi` was not registered
@ovld
def ref(x: int, y: int):
    return ("lo", x, y)


def attempt(thunk):
    try:
        return thunk()
    except BaseException as exc:  # noqa
        return f"{type(exc).__name__}: {exc}"


failures = []
assert ref(y=2, x=1) == ("lo", 1, 2)  # a fresh call with these keywords is fine
assert attempt(lambda: g(1, 2)) == ("hi", ("lo", 1, 2))  # in-order keywords work

for label, thunk in [
    ("f(1, 2)", lambda: f(1, 2)),
    ("f(y=2, x=1)", lambda: f(y=2, x=1)),
]:
    got = attempt(thunk)
    if got != ("hi", ("lo", 1, 2)):
        failures.append(f"{label}: expected ('hi', ('lo', 1, 2)), got {got!r}")

if failures:
    print("C07 violated: call_next(y=y, x=x) does not reach the next method")
    for f_ in failures:
        print("  -", f_)
    sys.exit(1)
print("ok")
