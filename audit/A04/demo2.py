"""C20 counter-example: recurse(...) with the keyword arguments written in an
order other than the one the entry point uses is looked up under another cache
key, so a combination of argument types that was already resolved is resolved
again (type-order hooks are consulted again).

Exit status 0 if the property holds, 1 if it is violated.
"""

import sys

from ovld import ovld, recurse
from ovld.mro import Order, TypeRelationship, typeorder
from ovld.types import class_check, parametrized_class_check

CONSULTED = []


# A user-defined type with an order hook (same shape as ovld.types.Exactly)
@parametrized_class_check
def Only(cls, base):
    CONSULTED.append(("Only", cls))
    return TypeRelationship(
        order=Order.LESS if cls is base else typeorder(base, cls),
        supertype=cls is base,
    )


# A user-defined class predicate
def is_small(cls):
    CONSULTED.append(("is_small", cls))
    return cls is int or cls is bool


Small = class_check(is_small)


class Mode:
    pass


@ovld
def f(x: object, *, mode: Mode, level: Small):
    return "object"


@ovld
def f(x: int, *, mode: Only[Mode], level: Small):
    return "int"


@ovld
def f(x: bytes, *, mode: Mode, level: Small):
    # keywords in the order of the definitions
    return recurse(len(x), mode=mode, level=level)


@ovld
def f(x: str, *, mode: Mode, level: Small):
    if not x:
        return "empty"
    # same arguments, keywords written in the other order
    return recurse(len(x), level=level, mode=mode)


m = Mode()

# Warm-up: every combination of argument types is handled successfully once
#   (int,   mode: Mode, level: int)  directly, in both keyword orders, and via recurse
#   (bytes, mode: Mode, level: int)
#   (str,   mode: Mode, level: int)
assert f(1, mode=m, level=1) == "int"
assert f(1, level=1, mode=m) == "int"
assert f(b"ab", mode=m, level=1) == "int"
assert f("", mode=m, level=1) == "empty"

# Sanity: repeats of the warm-up calls consult nothing
CONSULTED.clear()
f(1, mode=m, level=1), f(1, level=1, mode=m), f(b"ab", mode=m, level=1), f("", mode=m, level=1)
assert not CONSULTED, CONSULTED

# The method set has not changed. (str, Mode, int) and (int, Mode, int) are both warm.
CONSULTED.clear()
keys_before = set(f.map)
result = f("abc", mode=m, level=1)
new_keys = set(f.map) - keys_before

print("result:", result)
print("hooks consulted during a call on warm combinations:", len(CONSULTED))
for c in CONSULTED:
    print("   ", c)
print("cache keys added:", new_keys)

if CONSULTED or new_keys:
    print(
        "C20 VIOLATED: the combination (int, mode: Mode, level: int) had already been"
        " handled, yet recurse(len(x), level=level, mode=mode) resolved it again"
    )
    sys.exit(1)
print("C20 holds on this input")
