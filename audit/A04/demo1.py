"""C04 counter-example: typing.Union[int, str] and int | str share one cache entry
but are resolved differently, so whichever is passed first decides the outcome
of both.

Exit status 0 if the property holds, 1 if it is violated.
"""

import sys
import typing

from ovld import ovld


def make():
    # The same two methods every time: a fresh function with empty caches
    @ovld
    def f(x: type):
        return "type"

    @ovld
    def f(x: object):
        return "object"

    return f


def outcome(f, arg):
    try:
        return f(arg)
    except Exception as exc:  # the error is part of the outcome
        return f"{type(exc).__name__}: {exc}"


OLD = typing.Union[int, str]
NEW = int | str

# Outcome of each call when it is the first call ever made
first_old = outcome(make(), OLD)
first_new = outcome(make(), NEW)

# Outcome of the same calls after the other one was made
f = make()
outcome(f, OLD)
new_after_old = outcome(f, NEW)

g = make()
outcome(g, NEW)
old_after_new = outcome(g, OLD)

print(f"f(typing.Union[int, str]) as first call      : {first_old}")
print(f"f(int | str)              as first call      : {first_new}")
print(f"f(int | str)              after f(Union[..]) : {new_after_old}")
print(f"f(typing.Union[int, str]) after f(int | str) : {old_after_new}")

bad = []
if new_after_old != first_new:
    bad.append(
        f"f(int | str) runs {first_new!r} as a first call but {new_after_old!r}"
        " after f(typing.Union[int, str])"
    )
if old_after_new != first_old:
    bad.append(
        f"f(typing.Union[int, str]) runs {first_old!r} as a first call but"
        f" {old_after_new!r} after f(int | str)"
    )

if bad:
    print("C04 VIOLATED:")
    for b in bad:
        print("  -", b)
    sys.exit(1)
print("C04 holds on this input")
