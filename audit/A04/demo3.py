"""C04 counter-example: a resolution remembered for a class survives the
registration of that class as a virtual subclass of an ABC, so the same call,
on the same set of methods, gives a different outcome depending on whether the
function was called before.

Exit status 0 if the property holds, 1 if it is violated.
"""

import abc
import sys

from ovld import ovld


class Shape(abc.ABC):
    pass


class Circle:
    pass


def make():
    @ovld
    def f(x: Shape):
        return "Shape"

    @ovld
    def f(x: object):
        return "object"

    return f


called_before = make()
never_called = make()

assert called_before(Circle()) == "object"  # Circle is not a Shape yet

Shape.register(Circle)  # the set of methods of both functions is unchanged
assert issubclass(Circle, Shape) and isinstance(Circle(), Shape)

repeat = called_before(Circle())  # a repeat of an earlier call
first = never_called(Circle())  # the first call ever made

print("f(Circle()) as a repeat     :", repeat)
print("f(Circle()) as a first call :", first)

if repeat != first:
    print(
        "C04 VIOLATED: same methods, same argument, same moment: the outcome"
        " depends on whether f(Circle()) was called earlier"
    )
    sys.exit(1)
print("C04 holds on this input")
