"""C09: private names (__x) in rewritten methods. (a) an overloaded function
defined inside a method of an ordinary class loses the mangling; (b) in a
method of a class, only Name / Attribute / arg / keyword nodes are mangled:
a nested `def __h`, `except ... as __e`, `import ... as __m` keep their plain
name while their uses are mangled."""
import sys
from ovld import OvldBase, ovld, recurse


class Plain:
    def __init__(self):
        self.__bonus = 5

    def make(self):
        @ovld
        def g(x: int):
            return x + self.__bonus

        @ovld
        def g(x: list):
            return [recurse(i) + self.__bonus for i in x]

        return g

    def make_ref(self):
        def g(x):
            recurse = g
            if isinstance(x, int):
                return x + self.__bonus
            return [recurse(i) + self.__bonus for i in x]

        return g


class K(OvldBase):
    def m(self, x: int):
        return x

    def m(self, x: list):
        def __h(y):
            return y + 1

        return [__h(recurse(i)) for i in x]


class K2(OvldBase):
    def m(self, x: int):
        return x

    def m(self, x: list):
        try:
            1 / 0
        except ZeroDivisionError as __e:
            r = type(__e).__name__
        return [recurse(i) for i in x] + [r]


class K3(OvldBase):
    def m(self, x: int):
        return x

    def m(self, x: list):
        import os.path as __p

        return [recurse(i) for i in x] + [__p.basename("a/b")]


bad = 0
for name, thunk, want in (
    ("ovld inside a method of a plain class", lambda: Plain().make()([1]), Plain().make_ref()([1])),
    ("nested def __h", lambda: K().m([1]), [2]),
    ("except as __e", lambda: K2().m([1]), [1, "ZeroDivisionError"]),
    ("import as __p", lambda: K3().m([1]), [1, "b"]),
):
    try:
        got = thunk()
    except BaseException as e:
        got = f"{type(e).__name__}: {e}"
    if got != want:
        bad += 1
        print(f"{name}: expected {want!r}, got {got!r}")
sys.exit(1 if bad else 0)
