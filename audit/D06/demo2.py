"""C09: the temporaries of a rewritten call site inside a generator expression
live in the frame of the method, shared by every generator made at that site:
an argument expression that advances a sibling generator overwrites the
arguments already evaluated."""
import sys
from ovld import ovld, recurse


@ovld
def f(x: int, y: object):
    return (x, y)


@ovld
def f(x: list, y: object):
    gens = []
    for row in x:
        gens.append(
            (recurse(i, next(gens[1], None) if i < 10 else None) for i in row)
        )
    return list(gens[0]), list(gens[1])


# the source as written, recurse bound to an ordinary callable
def ref(x, y):
    recurse = ref
    if isinstance(x, int):
        return (x, y)
    gens = []
    for row in x:
        gens.append(
            (recurse(i, next(gens[1], None) if i < 10 else None) for i in row)
        )
    return list(gens[0]), list(gens[1])


arg = [[1, 2], [11, 12]]
want = ref(arg, None)
got = f(arg, None)
if got != want:
    print(f"expected {want!r}\n     got {got!r}")
    sys.exit(1)
sys.exit(0)
