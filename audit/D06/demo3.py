"""C09: recurse / call_next inside a comprehension in the body of a class
statement written in a method: valid Python, refused when the function is
built (the rewriting puts an assignment expression there)."""
import sys
from ovld import ovld, recurse, call_next


@ovld
def f(x: int):
    return x + 1


@ovld
def f(x: list):
    class Row:
        cells = [recurse(i) for i in x]
        total = sum(recurse(i) for i in x)

    return Row.cells, Row.total


@ovld
def g(x: object):
    return ("obj", x)


@ovld
def g(x: int):
    class K:
        vals = [call_next(i) for i in (x, x + 1)]

    return K.vals


def ref(x):
    recurse = ref
    if isinstance(x, int):
        return x + 1

    class Row:
        cells = [recurse(i) for i in x]
        total = sum(recurse(i) for i in x)

    return Row.cells, Row.total


bad = 0
for name, thunk, want in (
    ("recurse", lambda: f([1, 2]), ref([1, 2])),
    ("call_next", lambda: g(1), [("obj", 1), ("obj", 2)]),
):
    try:
        got = thunk()
    except BaseException as e:
        got = f"{type(e).__name__}: {e}"
    if got != want:
        bad += 1
        print(f"{name}: expected {want!r}, got {got!r}")
sys.exit(1 if bad else 0)
