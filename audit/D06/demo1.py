"""C09: a nested lambda / def that captures recurse through a default value
(`lambda y, recurse=recurse: ...`) - the default is evaluated in the method's
scope, where recurse is the real thing."""
import sys
from ovld import ovld, recurse


@ovld
def f(x: int):
    return x + 1


@ovld
def f(x: list):
    return list(map(lambda y, recurse=recurse: recurse(y), x))


@ovld
def g(x: int):
    return x + 1


@ovld
def g(x: list):
    def go(y, recurse=recurse):
        return recurse(y)

    return [go(y) for y in x]


# the source as written, recurse bound to an ordinary callable
def ref(x):
    recurse = ref
    if isinstance(x, int):
        return x + 1
    return list(map(lambda y, recurse=recurse: recurse(y), x))


bad = 0
for name, fn in (("lambda default", f), ("def default", g)):
    want = ref([1, [2, 3]])
    try:
        got = fn([1, [2, 3]])
    except BaseException as e:
        got = f"{type(e).__name__}: {e}"
    if got != want:
        bad += 1
        print(f"{name}: expected {want!r}, got {got!r}")
sys.exit(1 if bad else 0)
