"""C20: a class predicate inside an intersection (or union) that is itself a
member of a union with value-dependent members is consulted on every call.

    f(x: (HasLen & Small) | None)     -- (class_check & Dependent) | NoneType

Exits 0 if the predicate is not consulted after the warm-up, 1 otherwise.
"""
import sys

from ovld import Dependent, class_check, ovld

consulted = []


def has_len(cls):
    consulted.append(cls)
    return hasattr(cls, "__len__")


HasLen = class_check(has_len)
Small = Dependent[object, lambda x: len(x) < 3]


@ovld
def f(x: (HasLen & Small) | None):
    return "small or none"


@ovld
def f(x: object):
    return "other"


args = ["ab", "abcd", [1], None, 3.5]
expected = ["small or none", "other", "small or none", "small or none", "other"]

# warm-up: every argument-type combination once
assert [f(a) for a in args] == expected
n_warm = len(consulted)

for _ in range(3):
    assert [f(a) for a in args] == expected

again = consulted[n_warm:]
if again:
    print(
        f"C20 violated: class predicate consulted {len(again)} more times "
        f"after the warm-up, for classes {sorted({c.__name__ for c in again})}"
    )
    sys.exit(1)
print("ok: predicate not consulted after warm-up")
