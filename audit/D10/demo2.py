"""C20: a class predicate under type[...] next to a value-dependent member of
a union is consulted on every call.

    f(kind: type[Numeric] | Literal["auto"])

Exits 0 if the predicate is not consulted after the warm-up, 1 otherwise.
"""
import sys
from typing import Literal

from ovld import class_check, ovld

consulted = []


def numeric(cls):
    consulted.append(cls)
    return isinstance(cls, type) and issubclass(cls, (int, float, complex))


Numeric = class_check(numeric)


@ovld
def f(kind: type[Numeric] | Literal["auto"]):
    return "numeric class or auto"


@ovld
def f(kind: object):
    return "other"


args = [int, float, str, "auto", "manual", 3]
expected = [
    "numeric class or auto",
    "numeric class or auto",
    "other",
    "numeric class or auto",
    "other",
    "other",
]

# warm-up: every argument-type combination once
assert [f(a) for a in args] == expected
n_warm = len(consulted)

for _ in range(3):
    assert [f(a) for a in args] == expected

again = consulted[n_warm:]
if again:
    print(
        f"C20 violated: class predicate consulted {len(again)} more times "
        f"after the warm-up, for {sorted({getattr(c, '__name__', repr(c)) for c in again})}"
    )
    sys.exit(1)
print("ok: predicate not consulted after warm-up")
