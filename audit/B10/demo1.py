"""C20 counter-example: a user-supplied class predicate (class_check) that is a
member of a union / intersection with a value-dependent member is consulted
again on EVERY call, also for an argument-type combination that has already
been handled successfully.

Exit status 0 if the property holds, 1 if it is violated.
"""

import sys
from typing import Literal

from ovld import Dependent, call_next, class_check, ovld, recurse
from ovld.types import Intersection, Union

CALLS = []


class Animal:
    pass


class Cat(Animal):
    pass


@class_check
def IsAnimal(cls):
    # user-supplied class predicate: a function of the CLASS only
    CALLS.append(("IsAnimal", cls))
    return isinstance(cls, type) and issubclass(cls, Animal)


@class_check
def IsNumber(cls):
    CALLS.append(("IsNumber", cls))
    return isinstance(cls, type) and issubclass(cls, (int, float))


# --- 1. union of a class predicate and a Literal --------------------------
@ovld
def f(x: Union[IsAnimal, Literal[0]]):
    return "animal-or-zero"


@ovld
def f(x: object):
    return "other"


# --- 2. intersection of a class predicate and a Dependent ------------------
@ovld
def g(x: Intersection[IsNumber, Dependent[object, lambda v: v > 0]]):
    return "positive>" + call_next(x)


@ovld
def g(x: object):
    return "any"


# --- 3. through recurse ------------------------------------------------------
@ovld
def h(x: list):
    return [recurse(e) for e in x]


@ovld
def h(x: Union[IsAnimal, Literal["cat"]]):
    return "A"


@ovld
def h(x: object):
    return "-"


problems = []


def check(label, fn, arg, expected):
    # warm-up: the combination is handled successfully (twice, for good measure)
    assert fn(arg) == expected, (label, fn(arg))
    assert fn(arg) == expected
    del CALLS[:]
    for _ in range(3):
        assert fn(arg) == expected
    if CALLS:
        problems.append(
            f"{label}: 3 further calls with an already handled argument type "
            f"consulted the class predicate {len(CALLS)} more times: {CALLS[:3]}..."
        )


# Cat can never be Literal[0]: whether f's first method applies to a Cat only
# depends on the class, and was computed when (Cat,) was resolved.
check("f(Cat())        [Union[IsAnimal, Literal[0]]]", f, Cat(), "animal-or-zero")
# str is not an animal and is not 0 either
check("f('x')          [Union[IsAnimal, Literal[0]]]", f, "x", "other")
check("g(3)            [Intersection[IsNumber, Dependent]]", g, 3, "positive>any")
check("h([Cat(), 'x']) [recurse]", h, [Cat(), "x"], ["A", "-"])

if problems:
    print("C20 violated:")
    for p in problems:
        print(" -", p)
    sys.exit(1)
print("ok")
