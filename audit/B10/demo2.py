"""C19 counter-example: concurrent calls of an overloaded function whose
parameter is annotated Callable[...] and that is given another overloaded
function as argument.

The Callable[...] check is evaluated on every call; it inspects the signature
of the argument; for an ovld function that is LazySignature.parameters ->
Ovld.analyze_arguments(), which REPLACES the shared `argument_analysis` of that
Ovld by an empty analyzer and refills it step by step, without any lock.

Part A (both functions warmed up): a call returns something else than alone.
Part B (first calls): the function passed as argument is built with a
          half-filled analysis and is broken for all later calls.

Both parts drive two real threads through a fixed interleaving (2 pre-emptions,
at source lines of ovld/core.py); part C repeats the experiment with plain OS
scheduling.  Exit status 0 if the property holds, 1 if violated.
"""

import linecache
import sys
import threading
from typing import Callable

from ovld import ovld
from ovld.core import Ovld


def define():
    @ovld
    def g(x: int):
        return x + 1

    @ovld
    def g(x: int, y: int):
        return x + y

    @ovld
    def apply(fn: Callable[[int], object], x: int):
        return fn(x)

    @ovld
    def apply(fn: object, x: int):
        return "fallback: fn does not accept one int"

    return g, apply


def outcome(thunk):
    try:
        return ("returned", thunk())
    except BaseException as exc:  # noqa
        return ("raised", type(exc).__name__, str(exc).split("\n")[0])


class Pause:
    """Pause the current thread the n-th time it is about to execute a line
    of `code` (of the Ovld `target`) whose text contains `text`."""

    def __init__(self, code, target, text, nth):
        self.code, self.target, self.text, self.nth = code, target, text, nth
        self.seen = 0
        self.reached = threading.Event()
        self.resume = threading.Event()
        self.done = False

    def tracer(self, frame, event, arg):
        if (
            event == "call"
            and frame.f_code is self.code
            and frame.f_locals.get("self") is self.target
        ):
            return self.local
        return None

    def local(self, frame, event, arg):
        if event == "line" and not self.done:
            line = linecache.getline(frame.f_code.co_filename, frame.f_lineno)
            if self.text in line:
                self.seen += 1
                if self.seen == self.nth:
                    self.done = True
                    self.reached.set()
                    self.resume.wait(30)
        return self.local


def run_two(call0, pause0, call1, pause1):
    """T0 runs up to pause0; T1 runs up to pause1; T0 finishes; T1 finishes."""
    results = [None, None]

    def worker(i, call, pause):
        sys.settrace(pause.tracer)
        try:
            results[i] = outcome(call)
        finally:
            sys.settrace(None)
            pause.reached.set()

    t0 = threading.Thread(target=worker, args=(0, call0, pause0))
    t1 = threading.Thread(target=worker, args=(1, call1, pause1))
    t0.start()
    pause0.reached.wait(30)
    t1.start()
    pause1.reached.wait(30)
    pause0.resume.set()
    t0.join(30)
    pause1.resume.set()
    t1.join(30)
    return results


problems = []

# ---------------------------------------------------------------- part A ----
g, apply = define()
alone = outcome(lambda: apply(g, 1))
assert alone == ("returned", 2), alone
assert apply(g, 1) == 2  # warmed up: every type combination has been seen

AA = Ovld.analyze_arguments.__code__
gov = g.__ovld__
res = run_two(
    lambda: apply(g, 1),
    # T0: inside g's analyze_arguments, first method added, second one not yet
    Pause(AA, gov, ".add(fn)", 2),
    lambda: apply(g, 1),
    # T1: has just replaced g's argument_analysis by a new, empty one
    Pause(AA, gov, "for key, fn in", 1),
)
for i, r in enumerate(res):
    if r != alone:
        problems.append(
            f"A: warmed-up apply(g, 1) in thread {i} gave {r}; alone it gives {alone}"
        )

# ---------------------------------------------------------------- part B ----
g, apply = define()
gov = g.__ovld__
res = run_two(
    lambda: apply(g, 1),
    # T0: first call of g (from apply's method): g's build has analysed the
    # arguments and is about to generate the entry point from that analysis
    Pause(Ovld._compile.__code__, gov, "generate_dispatch(", 1),
    lambda: apply(g, 1),
    # T1: evaluating Callable[...] on g: has just emptied g's argument_analysis
    Pause(AA, gov, "for key, fn in", 1),
)
for i, r in enumerate(res):
    if r != alone:
        problems.append(
            f"B: first apply(g, 1) in thread {i} gave {r}; alone it gives {alone}"
        )
later = [outcome(lambda: g(1)), outcome(lambda: g(1, 2)), outcome(lambda: apply(g, 1))]
expected_later = [("returned", 2), ("returned", 3), ("returned", 2)]
if later != expected_later:
    problems.append(
        f"B: after both threads are finished, g(1), g(1, 2), apply(g, 1) give {later}"
        f" instead of {expected_later}: g is left broken for all later calls"
    )

# ---------------------------------------------------------------- part C ----
# plain OS scheduling, no tracing
old = sys.getswitchinterval()
sys.setswitchinterval(1e-5)
try:
    g, apply = define()
    assert apply(g, 1) == 2
    odd = {}

    def hammer():
        for _ in range(3000):
            r = outcome(lambda: apply(g, 1))
            if r != alone:
                odd[r] = odd.get(r, 0) + 1

    ths = [threading.Thread(target=hammer) for _ in range(4)]
    [t.start() for t in ths]
    [t.join() for t in ths]
    if odd:
        top = sorted(odd.items(), key=lambda kv: -kv[1])[:4]
        problems.append(
            f"C: 4 OS threads x 3000 warmed-up calls apply(g, 1): "
            f"{sum(odd.values())} calls did not return 2, e.g. {top}"
        )
finally:
    sys.setswitchinterval(old)

if problems:
    print("C19 violated:")
    for p in problems:
        print(" -", p)
    sys.exit(1)
print("ok")
