"""C20 counter-example (negative results are not remembered): a call with an
argument-type combination that has been handled successfully consults the
user-supplied class predicate / type-order hook again, every time, when its
method looks up another combination for which the resolution FAILS (no method,
or ambiguity) and handles that failure.  The failing combination is resolved
from scratch on every call: TypeMap.__missing__ / MultiTypeMap.__missing__ only
store successes (MultiTypeMap.errors is filled, but only read after resolve()
has run again).

Exit status 0 if the property holds, 1 if it is violated.
"""

import sys

from ovld import class_check, ovld, recurse

HOOKS = []


class Shape:
    pass


class Square(Shape):
    pass


@class_check
def IsShape(cls):
    HOOKS.append(("IsShape", cls.__name__))
    return isinstance(cls, type) and issubclass(cls, Shape)


class OrderedMC(type):
    # a type with a user-defined order hook
    def __type_order__(cls, other):
        HOOKS.append(("__type_order__", getattr(other, "__name__", other)))
        return NotImplemented

    def __is_supertype__(cls, other):
        HOOKS.append(("__is_supertype__", getattr(other, "__name__", other)))
        return other is bytes


class Blob(metaclass=OrderedMC):
    pass


# (1) no method for the inner combination
@ovld
def show(x: list):
    out = []
    for e in x:
        try:
            out.append(recurse(e))
        except TypeError:
            out.append("?")
    return out


@ovld
def show(x: IsShape):
    return "shape"


@ovld
def show(x: Blob):
    return "blob"


# (2) ambiguity for the inner combination
@ovld
def pick(x: int):
    try:
        return recurse(b"%d" % x)
    except TypeError:
        return "undecided"


@ovld
def pick(x: Blob):
    return "blob"


@ovld
def pick(x: bytes):
    return "bytes"


problems = []


def check(label, fn, arg, expected):
    for _ in range(2):  # warm-up: the call succeeds
        got = fn(arg)
        assert got == expected, (label, got)
    del HOOKS[:]
    for _ in range(3):
        assert fn(arg) == expected
    if HOOKS:
        problems.append(
            f"{label}: 3 further successful calls with the same argument type "
            f"consulted user hooks {len(HOOKS)} times: {sorted(set(HOOKS))}"
        )


check("show([Square(), 1.5])", show, [Square(), 1.5], ["shape", "?"])
check("pick(3)", pick, 3, "undecided")

if problems:
    print("C20 violated:")
    for p in problems:
        print(" -", p)
    sys.exit(1)
print("ok")
