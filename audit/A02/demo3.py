"""C02: the method that is run does not beat every other applicable method.

Classes (plain classes + one standard ABC, collections.abc.Hashable):

    class B:     defines __hash__          -> issubclass(B, Hashable)
    class A(B):  __hash__ = None           -> NOT issubclass(A, Hashable)
    class D(A):  defines __hash__ again    -> issubclass(D, Hashable)

Method set:  f(x: A)   f(x: B)   f(x: Hashable)      (all priority 0)
Call:        f(D())

All three methods are applicable (D is a subclass of A, of B and of Hashable).
By the documented rule a method beats another one when its parameter type is
the same as or a subclass of the other's:

    f[A] beats f[B]                (A is a subclass of B)
    f[B] beats f[Hashable]         (B is a subclass of Hashable)
    f[A] does NOT beat f[Hashable] (A is not a subclass of Hashable), nor the
                                   other way round

so no applicable method beats all the others and the call must raise the
'Ambiguous resolution' TypeError without running any body.  The library runs
f[A] instead (and resolve() names f[A]).
"""

import sys
from collections.abc import Hashable

from ovld import ovld


class B:
    def __hash__(self):
        return 1


class A(B):
    __hash__ = None


class D(A):
    def __hash__(self):
        return 2


ran = []


@ovld
def f(x: A):
    ran.append("A")
    return "A"


@ovld
def f(x: B):
    ran.append("B")
    return "B"


@ovld
def f(x: Hashable):
    ran.append("Hashable")
    return "Hashable"


TYPES = {"A": A, "B": B, "Hashable": Hashable}
arg = D()
applicable = [n for n, t in TYPES.items() if isinstance(arg, t)]
assert applicable == ["A", "B", "Hashable"]


def beats(m1, m2):
    # equal priority, distinct signatures, one dispatched position
    return issubclass(TYPES[m1], TYPES[m2])


winners = [
    m for m in applicable if all(beats(m, o) for o in applicable if o != m)
]
assert winners == [], winners  # nobody beats all the others
assert not beats("A", "Hashable") and not beats("Hashable", "A")

try:
    result = f(arg)
except TypeError as e:
    if str(e).startswith("Ambiguous resolution") and not ran:
        print("ok")
        sys.exit(0)
    print("PROPERTY VIOLATED: unexpected error", e)
    sys.exit(1)

print("PROPERTY VIOLATED (C02)")
print(f" - applicable methods for f(D()): {applicable}; none of them beats all")
print("   the others (f[A] and f[Hashable] are unordered: "
      f"issubclass(A, Hashable)={issubclass(A, Hashable)}, "
      f"issubclass(Hashable, A)={issubclass(Hashable, A)})")
print(f" - expected 'Ambiguous resolution' TypeError; the call ran f[{result}]"
      f" (bodies run: {ran}); resolve() names {f.resolve(arg).__name__}")
sys.exit(1)
