"""C06 (and C02): a call made while another thread registers an unrelated method.

Method set:  g(x: object) -> "object"     g(x: int) -> "int"
Call:        g(1)                          (must always run g[int])
Concurrent:  another thread registers g(x: str), which is not applicable to
             the call g(1).

The program explores the interleavings deterministically: the registering
thread is suspended (with sys.settrace, nothing in the library is modified) at
its n-th function call inside the ovld package, the main thread then calls
g(1), and the registering thread is resumed.  For every n the call g(1) must
run g[int]: both g[object] and g[int] were registered long before, and the
method being added is not applicable to an int.
"""

import os
import sys
import threading

import ovld as _ovld_pkg
from ovld import Ovld

PKG = os.path.dirname(_ovld_pkg.__file__)


def fresh():
    g = Ovld(name="g")

    def g_object(x: object):
        return "object"

    def g_int(x: int):
        return "int"

    g.register(g_object)
    g.register(g_int)
    assert g(1) == "int"  # built and in service
    return g


def g_str(x: str):
    return "str"


def run(n):
    """Suspend the registration at its n-th call event; call g(1) meanwhile.

    Returns None if the registration finished in fewer than n events."""
    g = fresh()
    reached = threading.Event()
    resume = threading.Event()
    finished = threading.Event()
    count = [0]
    where = [None]

    def tracer(frame, event, arg):
        if event == "call" and frame.f_code.co_filename.startswith(PKG):
            count[0] += 1
            if count[0] == n:
                where[0] = (
                    f"{os.path.basename(frame.f_code.co_filename)}:"
                    f"{frame.f_code.co_name}"
                )
                reached.set()
                resume.wait(2)  # timeout: never deadlock on the build lock
        return None

    def registrar():
        sys.settrace(tracer)
        try:
            g.register(g_str)
        finally:
            sys.settrace(None)
            finished.set()
            reached.set()

    t = threading.Thread(target=registrar)
    t.start()
    reached.wait(5)
    if finished.is_set() and where[0] is None:
        t.join()
        return None
    try:
        outcome = g(1)
    except TypeError as e:
        outcome = "TypeError: " + str(e).split("\n")[0]
    resume.set()
    t.join()
    assert g(1) == "int" and g("s") == "str"
    return outcome, where[0]


bad = []
n = 1
while True:
    r = run(n)
    if r is None:
        break
    outcome, where = r
    if outcome != "int":
        bad.append((n, where, outcome))
    n += 1

print(f"explored {n - 1} suspension points of g.register(g_str)")
if bad:
    print("PROPERTY VIOLATED (C06): g(1) must run g[int], but while another")
    print("thread was registering the non-applicable method g[str]:")
    seen = {}
    for n, where, outcome in bad:
        seen.setdefault(outcome, []).append((n, where))
    for outcome, pts in seen.items():
        n0, w0 = pts[0]
        n1, w1 = pts[-1]
        print(
            f" - g(1) -> {outcome!r} at {len(pts)} suspension points "
            f"(first: #{n0} in {w0}, last: #{n1} in {w1})"
        )
    sys.exit(1)
print("ok")
