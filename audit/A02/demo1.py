"""C06 / C02: a class passed as argument, whose metaclass is not `type`.

Method set:  f(x: Meta) -> "meta"     f(x: object) -> "object"
Call:        f(K)   where  class K(metaclass=Meta)

K is an instance of Meta, so f[Meta] is applicable and beats f[object].

(1) C02: f(K) runs f[Meta], but f.resolve(K) names f[object].
(2) C06: registering one more method, f(x: type[int]), which is NOT applicable
    to K (K is not a subclass of int), changes the outcome of f(K) from
    f[Meta] to f[object].
"""

import sys

from ovld import ovld

problems = []


class Meta(type):
    pass


class K(metaclass=Meta):
    pass


@ovld
def f(x: Meta):
    return "meta"


@ovld
def f(x: object):
    return "object"


assert isinstance(K, Meta) and issubclass(Meta, object)

before = f(K)
if before != "meta":
    problems.append(f"f(K) ran f[{before}] instead of f[Meta]")

# (1) resolve() must name the method the call runs
named = f.resolve(K)
if named(K) != before:
    problems.append(
        f"C02: f(K) runs the method returning {before!r} but f.resolve(K) names "
        f"{named.__name__!r} (returning {named(K)!r})"
    )


# (2) a further method that is not applicable to the call f(K)
@f.register
def _(x: type[int]):
    return "type[int]"


assert not issubclass(K, int)  # f[type[int]] cannot apply to K

after = f(K)
if after != before:
    problems.append(
        f"C06: f(K) ran the method returning {before!r}; after registering the "
        f"non-applicable method f[type[int]] the same call runs the method "
        f"returning {after!r}"
    )

if problems:
    print("PROPERTY VIOLATED")
    for p in problems:
        print(" -", p)
    sys.exit(1)
print("ok")
