"""C11: tuple[...] / Regexp checking code breaks when a dispatched keyword
parameter is called `len` / `bool` (names the generated value dispatcher uses
as builtins)."""
import sys
from ovld import ovld
from ovld.dependent import Regexp

problems = []


@ovld
def pad(x: tuple[int, int], *, len: int):
    return "pair"


@ovld
def pad(x: tuple, *, len: int):
    return "tuple"


@ovld
def rx(x: Regexp["^a"], *, bool: int):
    return "rx"


@ovld
def rx(x: str, *, bool: int):
    return "str"


def attempt(label, fn, expected):
    try:
        got = fn()
    except Exception as exc:  # noqa
        got = f"{type(exc).__name__}: {exc}"
    if got != expected:
        problems.append(f"{label}: expected {expected!r}, got {got!r}")


# isinstance((1, 2), tuple[int, int]) is true, isinstance((1, 2, 3), ...) is not
attempt("pad((1, 2), len=3)", lambda: pad((1, 2), len=3), "pair")
attempt("pad((1, 2, 3), len=3)", lambda: pad((1, 2, 3), len=3), "tuple")
attempt("rx('abc', bool=1)", lambda: rx("abc", bool=1), "rx")
attempt("rx('xyz', bool=1)", lambda: rx("xyz", bool=1), "str")

for p in problems:
    print(p)
sys.exit(1 if problems else 0)
