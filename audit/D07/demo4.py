"""C10: two unrelated value-dependent methods that both hold must raise the
ambiguity TypeError; an `Any` parameter in one of them makes the library order
them instead (it compares the parameters of two different check functions)."""
import sys
from typing import Any
from ovld import ovld, dependent_check


@dependent_check
def Shape(v: tuple, *shape):
    return len(v) == len(shape) and all(
        s is Any or a == s for a, s in zip(v, shape)
    )


@dependent_check
def Between(v: tuple, lo, hi):
    return all(lo <= a <= hi for a in v)


@ovld
def ref(x: Shape[2, 3]):
    return "shape"


@ovld
def ref(x: Between[0, 5]):
    return "between"


@ovld
def f(x: Shape[2, Any]):
    return "shape"


@ovld
def f(x: Between[0, 5]):
    return "between"


def outcome(fn, v):
    try:
        return fn(v)
    except TypeError as exc:
        return "ambiguous" if "Ambiguous" in str(exc) else f"TypeError: {exc}"


r = outcome(ref, (2, 3))
o = outcome(f, (2, 3))
print("Shape[2, 3]   vs Between[0, 5] on (2, 3):", r)
print("Shape[2, Any] vs Between[0, 5] on (2, 3):", o)
ok = r == "ambiguous" and o == "ambiguous"
sys.exit(0 if ok else 1)
