"""C11: whether a Literal matches float('nan') depends on the checking code
that gets generated (==, `in`, or the lookup table)."""
import sys
from typing import Literal
from ovld import Ovld

nan = float("nan")


def make(*literal_sets):
    ov = Ovld()
    for i, values in enumerate(literal_sets):
        def mk(i, values):
            def m(x):
                return f"lit{i}"
            m.__annotations__ = {"x": Literal[values]}
            return m
        ov.register(mk(i, values))

    def fallback(x: object):
        return "other"

    ov.register(fallback)
    return ov.dispatch


# nan is equal to no value at all, so by "matches precisely the values equal to
# one of the vi" none of these may select a Literal method for nan
single = make((nan,))                       # code path: ARG == nan
double = make((nan, 2.5))                   # code path: ARG in (nan, 2.5)
table = make((nan,), (1.5,), (2.5,), (3.5,), (4.5,))  # code path: dict lookup

answers = {
    "Literal[nan] alone": single(nan),
    "Literal[nan, 2.5]": double(nan),
    "Literal[nan] among 5 Literal methods": table(nan),
}
for k, v in answers.items():
    print(f"{k:40} f(nan) -> {v}")

ok = len(set(a == "other" for a in answers.values())) == 1
if not ok:
    print("the same value nan is matched or not depending on the generated code")
sys.exit(0 if ok else 1)
