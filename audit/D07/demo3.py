"""C11: whether a Literal that lists 0 matches 0.0 (0.0 == 0) depends on the
types of the *other* values in the Literal."""
import sys
from typing import Literal
from ovld import ovld


@ovld
def f(x: Literal[0]):
    return "lit"


@ovld
def f(x: object):
    return "other"


@ovld
def g(x: Literal[0, 1.5]):
    return "lit"


@ovld
def g(x: object):
    return "other"


@ovld
def h(x: Literal[0, "a"]):
    return "lit"


@ovld
def h(x: object):
    return "other"


a, b, c = f(0.0), g(0.0), h(0.0)
print("Literal[0]      f(0.0) ->", a)
print("Literal[0, 1.5] g(0.0) ->", b)
print("Literal[0, 'a'] h(0.0) ->", c)
# 0.0 == 0: the statement ("matches precisely the values equal to one of the
# vi, whatever n is, whatever the types of the vi") wants "lit" three times;
# at the very least the three answers must agree.
ok = a == b == c == "lit"
if not ok:
    print("0.0 is equal to the listed value 0 but is matched only when some "
          "other listed value happens to be a float")
sys.exit(0 if ok else 1)
