"""C11: Literal[v] where v is an IntEnum / StrEnum member, or float("inf").

These are legal Literal values (enum members are explicitly allowed by PEP 586),
but the single-literal check that ovld generates pastes repr(v) into the source
of the dispatch function, which is not valid Python for these values.  The very
same literals work when the generator takes another code path (two values in
one Literal -> `in` test; >= 4 Literal methods -> lookup table).

Exit status 0 iff every call returns what isinstance() says it should.
"""

import enum
import math
import sys
from typing import Literal

from ovld import ovld
from ovld.types import normalize_type


class Color(enum.IntEnum):
    RED = 1
    BLUE = 2


class Mode(enum.StrEnum):
    R = "r"
    W = "w"


failures = []


def check(label, lit, fallback_type, corpus):
    T = normalize_type(lit, None)

    @ovld
    def f(x: lit):
        return "literal"

    @f.register
    def f(x: fallback_type):
        return "fallback"

    for v in corpus:
        expected = "literal" if isinstance(v, T) else "fallback"
        try:
            got = f(v)
        except BaseException as exc:
            got = f"raised {type(exc).__name__}: {exc}"
        if got != expected:
            failures.append(f"{label}: f({v!r}) -> {got}; expected {expected!r}")


check("Literal[Color.RED]", Literal[Color.RED], int, [Color.RED, Color.BLUE])
check("Literal[Mode.R]", Literal[Mode.R], str, [Mode.R, Mode.W])
check("Literal[inf]", Literal[math.inf], float, [math.inf, 1.0, -math.inf])

# Control: the same values through the other generated code paths are fine.
check("Literal[Color.RED, Color.BLUE]", Literal[Color.RED, Color.BLUE], int, [Color.RED, Color.BLUE])

if failures:
    print("PROPERTY C11 VIOLATED")
    for line in failures:
        print(" -", line)
    sys.exit(1)
print("ok")
