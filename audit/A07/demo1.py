"""C11: an `&` / `|` combination of StartsWith / EndsWith accepts values that are
not instances of the type (the generated check loses the grouping of the `|`).

T = EndsWith["a"] & Union[StartsWith["b"], StartsWith["c"]]
    i.e.  x ends with "a"  AND  (x starts with "b"  OR  x starts with "c")

Exit status 0 iff dispatch accepts exactly the values v with isinstance(v, T).
"""

import sys

from ovld import ovld
from ovld.dependent import EndsWith, HasKey, StartsWith
from ovld.types import Intersection, Union

failures = []


def check(label, T, fallback_type, corpus):
    @ovld
    def f(x: T):
        return "T"

    @f.register
    def f(x: fallback_type):
        return "fallback"

    for v in corpus:
        expected = "T" if isinstance(v, T) else "fallback"
        try:
            got = f(v)
        except Exception as exc:  # pragma: no cover
            got = f"{type(exc).__name__}: {exc}"
        if got != expected:
            failures.append(
                f"{label}: f({v!r}) ran {got!r}, but isinstance({v!r}, T) is"
                f" {isinstance(v, T)} so {expected!r} was expected"
            )


strings = ["ba", "ca", "bx", "cx", "xa", "a", "b", "c", "", "cab", "bca"]

# spelled with the & operator
check(
    'EndsWith["a"] & Union[StartsWith["b"], StartsWith["c"]]',
    EndsWith["a"] & Union[StartsWith["b"], StartsWith["c"]],
    str,
    strings,
)
# spelled with Intersection[...] ; union first
check(
    'Intersection[Union[StartsWith["b"], StartsWith["c"]], EndsWith["a"]]',
    Intersection[Union[StartsWith["b"], StartsWith["c"]], EndsWith["a"]],
    str,
    strings,
)
# same thing with HasKey
check(
    'HasKey["k"] & Union[HasKey["x"], HasKey["y"]]',
    HasKey["k"] & Union[HasKey["x"], HasKey["y"]],
    dict,
    [{}, {"k": 1}, {"x": 1}, {"y": 1}, {"k": 1, "x": 1}, {"k": 1, "y": 1}],
)

if failures:
    print("PROPERTY C11 VIOLATED")
    for line in failures:
        print(" -", line)
    sys.exit(1)
print("ok")
