"""C15: Annotated[Any, ...] must dispatch like Any (= object = no annotation).

Exit status 0 iff the four spellings behave the same for every argument.
"""

import sys
from typing import Annotated, Any

from ovld import Ovld


def build(annotation, with_int_method):
    ov = Ovld(name="f")

    def generic(x):
        return "generic"

    if annotation is not None:
        generic.__annotations__ = {"x": annotation}
    ov.register(generic)

    if with_int_method:

        def on_int(x: int):
            return "int"

        ov.register(on_int)
    return ov


def outcome(f, v):
    try:
        return f(v)
    except Exception as exc:
        return f"raised {type(exc).__name__}: {str(exc).splitlines()[0]}"


spellings = {
    "<no annotation>": None,
    "Any": Any,
    "object": object,
    'Annotated[object, "doc"]': Annotated[object, "doc"],
    'Annotated[Any, "doc"]': Annotated[Any, "doc"],
}
corpus = [1, "s", None, 2.5, [1], int, object()]

failures = []
for with_int_method in (False, True):
    reference = build(None, with_int_method)
    for name, ann in spellings.items():
        f = build(ann, with_int_method)
        for v in corpus:
            want, got = outcome(reference, v), outcome(f, v)
            if want != got:
                failures.append(
                    f"x: {name} (int method: {with_int_method}): f({v!r}) -> {got!r};"
                    f" with the unannotated spelling -> {want!r}"
                )

if failures:
    print("PROPERTY C15 VIOLATED")
    for line in failures:
        print(" -", line)
    sys.exit(1)
print("ok")
