SPECIFICATION Spec
CONSTANTS
  N = 3
  NSig = 2
  MaxOps = 7
  DeepLock = TRUE
  BadSig = 2
  UnlockOnFail = TRUE
  HotReload = FALSE
  MixinsUpdate = TRUE
VIEW view
INVARIANT UsedConsistent
INVARIANT RefusalJustified
INVARIANT LockJustified
INVARIANT BuiltIsBuildable
PROPERTY ParentsUntouched
CHECK_DEADLOCK FALSE
