SPECIFICATION Spec
CONSTANTS
  Threads = {1, 2, 3}
  NMeth = 3
  BadM = 2
  MaxFail = 2
  CallsPer = 2
  SwapLast = TRUE
  RestoreOnFail = TRUE
  UseLock = TRUE
PROPERTY AnswersCorrect
PROPERTY RecoversAfterRemoval
INVARIANT EachAsAlone
INVARIANT FinalStateCorrect
