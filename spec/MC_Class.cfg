SPECIFICATION Spec
CONSTANTS
  MaxHosts = 3
  NTypes = 2
INVARIANT BasesAndSiblingsUnchanged
INVARIANT OwnAlwaysIn
INVARIANT ExtendSuperSeesAllBases
CHECK_DEADLOCK FALSE
