------------------------------- MODULE Table -------------------------------
(***************************************************************************)
(* Impl layer: MultiTypeMap + per-position TypeMap as a state machine.     *)
(*                                                                         *)
(*   reg    registered methods, in registration order (ids into the menu)  *)
(*   dict   the table itself: key -> method id; key = [m, T], m = 0 for a  *)
(*          direct lookup, m = caller id for a continuation (code, *T)     *)
(*   errs   remembered ambiguity errors (keys)                             *)
(*   allc   T -> candidate ids of the last resolution of T  (`all`)        *)
(*   tmc    per-position caches: <<key index kind, class>> -> level map    *)
(*   last   observation of the last step (hidden by the VIEW)              *)
(*                                                                         *)
(* Actions = the critical sections of typemap.py: Register (clears dict    *)
(* and the touched per-position caches; side tables errs / allc only when  *)
(* ClearSideTables), Lookup hit / miss (TypeMap misses, mro, resolve's     *)
(* writes), LookupNext (MultiTypeMap.__missing__ on a continuation key).   *)
(*                                                                         *)
(* Properties:  CacheInvisible (C04/C05 at table level), TmCacheFresh,     *)
(* ResolveOnce (C20), ContinuationSound (C07/C01 over cache states).       *)
(***************************************************************************)
EXTENDS ResolveImpl, TLC

CONSTANTS Worlds,            \* sequence of [par, menu, keys]
          MaxReg,            \* registrations per behaviour
          ClearSideTables,   \* TRUE: register() also clears errs / allc
          AllowDup           \* re-registration of an identical signature (function level only)

VARIABLES wid, reg, dict, errs, allc, tmc, last, nres
vars == <<wid, reg, dict, errs, allc, tmc, last, nres>>
view == <<wid, reg, dict, errs, allc, tmc>>

World == Worlds[wid]
W     == [anc |-> AncFromParents(World.par), attrs |-> [c \in 1..Len(World.par) |-> {}], n |-> Len(World.par)]
Menu  == World.menu
Keys  == Range(World.keys)

(* the registered method records; reg index = position in `reg` *)
MethAt(j) == [Menu[reg[j]] EXCEPT !.id = j, !.reg = j]
M == {MethAt(j) : j \in DOMAIN reg}
MOfReg(r) == {[Menu[r[j]] EXCEPT !.id = j, !.reg = j] : j \in DOMAIN r}

NKeys(T) == Len(T.pos) + Len(T.kwn)
KeyName(T, p) == IF p <= Len(T.pos) THEN "p" \o ToString(p) ELSE "k:" \o T.kwn[p - Len(T.pos)]
KeyCls(T, p)  == IF p <= Len(T.pos) THEN T.pos[p].c ELSE T.kwa[p - Len(T.pos)].c

FreshLevel(Ms, T, p) ==
  IF p <= Len(T.pos) THEN LevelsSym(W, AvailPos(W, Ms, p, T.pos[p].c))
  ELSE LET q == p - Len(T.pos) IN LevelsSym(W, AvailKw(W, Ms, T.kwn[q], T.kwa[q].c))

(* level maps in force for T: cached snapshot if present *)
LVOf(T) == [p \in 1..NKeys(T) |->
              LET k == <<KeyName(T, p), KeyCls(T, p)>> IN
              IF k \in DOMAIN tmc THEN tmc[k] ELSE FreshLevel(M, T, p)]

(* TypeMap.__missing__ caches non-empty results only *)
TmFill(T) ==
  LET new == {<<KeyName(T, p), KeyCls(T, p)>> : p \in 1..NKeys(T)}
      add == {k \in new : k \notin DOMAIN tmc} IN
  [k \in DOMAIN tmc \cup {k \in add : \E p \in 1..NKeys(T) :
                              k = <<KeyName(T, p), KeyCls(T, p)>> /\ DOMAIN FreshLevel(M, T, p) # {}} |->
     IF k \in DOMAIN tmc THEN tmc[k]
     ELSE FreshLevel(M, T, CHOOSE p \in 1..NKeys(T) : k = <<KeyName(T, p), KeyCls(T, p)>>)]

K0(T) == [m |-> 0, T |-> T]
KN(m, T) == [m |-> m, T |-> T]

(* what resolve() writes for rank list r of T *)
ResolveDict(r, T) ==
  LET ft == FirstTied(r) IN
  [k \in {IF j = 1 THEN K0(T) ELSE KN(r[j-1][1].m, T) : j \in 1..(ft - 1)} |->
     LET j == CHOOSE j \in 1..(ft - 1) : k = (IF j = 1 THEN K0(T) ELSE KN(r[j-1][1].m, T)) IN r[j][1].m]
ResolveErrs(r, T) ==
  LET ft == FirstTied(r) IN
  IF ft <= Len(r) THEN {IF ft = 1 THEN K0(T) ELSE KN(r[ft-1][1].m, T)} ELSE {}
AllIdsOf(r) == UNION {{r[k][j].m : j \in DOMAIN r[k]} : k \in DOMAIN r}

Merge(f, g) == [k \in DOMAIN f \cup DOMAIN g |-> IF k \in DOMAIN g THEN g[k] ELSE f[k]]

RunOf(mid) == [kind |-> "run", m |-> mid]

Init ==
  /\ wid \in DOMAIN Worlds
  /\ reg = <<>>
  /\ dict = <<>> /\ errs = {} /\ allc = <<>> /\ tmc = <<>>
  /\ last = [op |-> "init"]
  /\ nres = 0

(***************************************************************************)
(* register(sig, handler)                                                  *)
(***************************************************************************)
Touched(m) == {"p" \o ToString(p) : p \in DOMAIN m.pos} \cup {"k:" \o m.kwn[q] : q \in DOMAIN m.kwn}

Register(mi) ==
  /\ Len(reg) < MaxReg
  /\ AllowDup \/ mi \notin Range(reg)
  /\ reg' = Append(reg, mi)
  /\ dict' = <<>>
  /\ tmc' = [k \in {k \in DOMAIN tmc : k[1] \notin Touched(Menu[mi])} |-> tmc[k]]
  /\ errs' = IF ClearSideTables THEN {} ELSE errs
  /\ allc' = IF ClearSideTables THEN <<>> ELSE allc
  /\ last' = [op |-> "register", mi |-> mi]
  /\ UNCHANGED <<wid, nres>>

(***************************************************************************)
(* direct lookup  map[T]                                                   *)
(***************************************************************************)
(* the effect of MultiTypeMap.__missing__(T) for a plain key, rank list r *)
MissDict(r, T) == Merge(dict, ResolveDict(r, T))
MissErrs(r, T) == errs \cup ResolveErrs(r, T)
MissAll(r, T)  == Merge(allc, [t \in {T} |-> AllIdsOf(r)])
MissRes(r, T)  ==
  IF r = <<>> THEN NoMethod
  ELSE IF K0(T) \in MissErrs(r, T) THEN Ambiguous
  ELSE RunOf(MissDict(r, T)[K0(T)])

LookupHit(T) ==
  /\ K0(T) \in DOMAIN dict
  /\ last' = [op |-> "get", key |-> K0(T), hit |-> TRUE, res |-> RunOf(dict[K0(T)])]
  /\ UNCHANGED <<wid, reg, dict, errs, allc, tmc, nres>>

(* a failure that was already worked out for this key (no candidate at all, or a tie in the first rank) is  *)
(* remembered in errs like a success is in dict: nothing is resolved again                                  *)
RememberedRes(T) == IF <<>> \in RankListsL(W, M, T, LVOf(T)) THEN NoMethod ELSE Ambiguous

LookupErrHit(T) ==
  /\ K0(T) \notin DOMAIN dict /\ K0(T) \in errs
  /\ last' = [op |-> "get", key |-> K0(T), hit |-> TRUE, res |-> RememberedRes(T)]
  /\ UNCHANGED <<wid, reg, dict, errs, allc, tmc, nres>>

LookupMiss(T) ==
  /\ K0(T) \notin DOMAIN dict /\ K0(T) \notin errs
  /\ \E r \in RankListsL(W, M, T, LVOf(T)) :
       /\ dict' = IF r = <<>> THEN dict ELSE MissDict(r, T)
       /\ errs' = IF r = <<>> THEN errs \cup {K0(T)} ELSE MissErrs(r, T)
       /\ allc' = MissAll(r, T)
       /\ last' = [op |-> "get", key |-> K0(T), hit |-> FALSE, res |-> MissRes(r, T)]
  /\ tmc' = TmFill(T)
  /\ nres' = nres + 1
  /\ UNCHANGED <<wid, reg>>

(***************************************************************************)
(* continuation lookup  map[(code_m, *T)]                                  *)
(***************************************************************************)
NextHit(m, T) ==
  /\ KN(m, T) \in DOMAIN dict
  /\ last' = [op |-> "get", key |-> KN(m, T), hit |-> TRUE, res |-> RunOf(dict[KN(m, T)])]
  /\ UNCHANGED <<wid, reg, dict, errs, allc, tmc, nres>>

NextRes(d, e, a, m, T, inner) ==
  IF inner.kind # "run" THEN inner                  \* self[real_tup] raised
  ELSE IF m \notin a[T] THEN inner                  \* not a candidate: fresh call
  ELSE IF KN(m, T) \in e THEN Ambiguous
  ELSE IF KN(m, T) \in DOMAIN d THEN RunOf(d[KN(m, T)])
  ELSE NoMethod

NextMissInnerHit(m, T) ==
  /\ KN(m, T) \notin DOMAIN dict /\ K0(T) \in DOMAIN dict
  /\ last' = [op |-> "get", key |-> KN(m, T), hit |-> FALSE,
              res |-> NextRes(dict, errs, allc, m, T, RunOf(dict[K0(T)]))]
  /\ UNCHANGED <<wid, reg, dict, errs, allc, tmc, nres>>

(* the plain key failed before: self[real_tup] raises the remembered error *)
NextInnerErr(m, T) ==
  /\ KN(m, T) \notin DOMAIN dict /\ K0(T) \notin DOMAIN dict /\ K0(T) \in errs
  /\ last' = [op |-> "get", key |-> KN(m, T), hit |-> FALSE, res |-> RememberedRes(T)]
  /\ UNCHANGED <<wid, reg, dict, errs, allc, tmc, nres>>

NextMissInnerMiss(m, T) ==
  /\ KN(m, T) \notin DOMAIN dict /\ K0(T) \notin DOMAIN dict /\ K0(T) \notin errs
  /\ \E r \in RankListsL(W, M, T, LVOf(T)) :
       LET d == IF r = <<>> THEN dict ELSE MissDict(r, T)
           e == IF r = <<>> THEN errs \cup {K0(T)} ELSE MissErrs(r, T)
           a == MissAll(r, T) IN
       /\ dict' = d /\ errs' = e /\ allc' = a
       /\ last' = [op |-> "get", key |-> KN(m, T), hit |-> FALSE,
                   res |-> NextRes(d, e, a, m, T, MissRes(r, T))]
  /\ tmc' = TmFill(T)
  /\ nres' = nres + 1
  /\ UNCHANGED <<wid, reg>>

Lookup(T) == LookupHit(T) \/ LookupErrHit(T) \/ LookupMiss(T)
LookupNext(m, T) == NextHit(m, T) \/ NextMissInnerHit(m, T) \/ NextInnerErr(m, T) \/ NextMissInnerMiss(m, T)

Next ==
  \/ \E mi \in DOMAIN Menu : Register(mi)
  \/ \E T \in Keys : Lookup(T)
  \/ \E T \in Keys : \E m \in DOMAIN reg : LookupNext(m, T)

Spec == Init /\ [][Next]_vars

-----------------------------------------------------------------------------
(* what a lookup of key k would return from the current state, without     *)
(* performing it (pure), for every tie order                                *)
EvalKey(k) ==
  IF k \in DOMAIN dict THEN {RunOf(dict[k])}
  ELSE IF k.m = 0
  THEN {MissRes(r, k.T) : r \in RankListsL(W, M, k.T, LVOf(k.T))}
  ELSE IF K0(k.T) \in DOMAIN dict
       THEN {NextRes(dict, errs, allc, k.m, k.T, RunOf(dict[K0(k.T)]))}
       ELSE {NextRes(IF r = <<>> THEN dict ELSE MissDict(r, k.T),
                     IF r = <<>> THEN errs ELSE MissErrs(r, k.T),
                     MissAll(r, k.T), k.m, k.T, MissRes(r, k.T)) :
               r \in RankListsL(W, M, k.T, LVOf(k.T))}

(* the same from a brand-new table holding the same methods *)
FreshKey(k) ==
  IF k.m = 0 THEN ImplOutcomes(W, M, k.T) ELSE ImplNexts(W, M, k.m, k.T)

AllKeys == {K0(T) : T \in Keys} \cup {KN(m, T) : m \in DOMAIN reg, T \in Keys}

(* C04 / C05 (table level): caches and side tables are invisible *)
CacheInvisible == \A k \in AllKeys : EvalKey(k) = FreshKey(k)

(* per-position caches always hold what a recomputation would give *)
TmCacheFresh ==
  \A k \in DOMAIN tmc : \A T \in Keys : \A p \in 1..NKeys(T) :
     k = <<KeyName(T, p), KeyCls(T, p)>> => tmc[k] = FreshLevel(M, T, p)

(* C20: a key that has been resolved successfully is not resolved again    *)
(* until the method set changes                                            *)
ResolveOnce ==
  [][\A T \in Keys : (K0(T) \in DOMAIN dict /\ reg' = reg) => (K0(T) \in DOMAIN dict' /\ dict'[K0(T)] = dict[K0(T)])]_vars

(* C01 / C07 over cache states: whatever a continuation key yields is      *)
(* applicable to T                                                         *)
ContinuationSound ==
  \A k \in AllKeys : \A o \in EvalKey(k) :
     o.kind = "run" => Applicable(W, CHOOSE x \in M : x.id = o.m, k.T)
=============================================================================
