------------------------------ MODULE MC_Entry ------------------------------
(***************************************************************************)
(* Exhaustive check of the entry-point model against the Doc binding rule  *)
(* (C03) over every set of <= MaxMeth signatures from a parameter menu and *)
(* every call shape.                                                       *)
(*   AcceptWhenPromised : a shape the documentation promises is accepted   *)
(*                        and some method is selectable for it             *)
(*   ForwardIntact      : whatever method the table can select sees exactly *)
(*                        Python's own binding of the original shape       *)
(*   NeverBadForward    : the selected handler's signature admits the      *)
(*                        forwarded call                                   *)
(* KF_zeroargs / KF_dropkw are the input signatures of the two known       *)
(* deviations of the pinned code.                                          *)
(***************************************************************************)
EXTENDS Entry, SequencesExt

CONSTANTS PosNames, KwNamesC, MaxP, MaxMeth

PosParamSet == [name : PosNames, kind : {"po", "pk"}, req : BOOLEAN]
KwParamSet  == [name : KwNamesC, kind : {"kw"}, req : BOOLEAN]

OkPosSeq(s) ==
  /\ \A i, j \in DOMAIN s : i # j => s[i].name # s[j].name
  /\ \A i, j \in DOMAIN s : i < j => (s[j].req => s[i].req)
  /\ \A i, j \in DOMAIN s : i < j => (s[j].kind = "po" => s[i].kind = "po")
PosSeqs == UNION {{s \in [1..n -> PosParamSet] : OkPosSeq(s)} : n \in 0..MaxP}
KwSeqs == {<<>>} \cup {<<p>> : p \in KwParamSet}
           \cup {<<p, q>> : p \in {x \in KwParamSet : x.name = "k"}, q \in {x \in KwParamSet : x.name = "j" /\ ~x.req}}
MethodParams == {a \o b : a \in PosSeqs, b \in KwSeqs}
MethSeq == SetToSeq(MethodParams)

VARIABLES ms, shape, phase
vars == <<ms, shape, phase>>

Ms == {[id |-> j, params |-> MethSeq[ms[j]]] : j \in DOMAIN ms}

AllNames == PosNames \cup KwNamesC
KwChoices == {<<>>} \cup {<<a>> : a \in AllNames} \cup {p \in AllNames \X AllNames : p[1] # p[2]}

Init == ms = <<>> /\ shape = [np |-> 0, kws |-> <<>>] /\ phase = "methods"
AddMethod ==
  /\ phase = "methods" /\ Len(ms) < MaxMeth
  /\ \E k \in DOMAIN MethSeq :
       /\ IF ms = <<>> THEN TRUE ELSE k > ms[Len(ms)]
       /\ ms' = Append(ms, k)
  /\ UNCHANGED <<shape, phase>>
PickShape ==
  /\ phase = "methods" /\ Len(ms) >= 1
  /\ \E n \in 0..(MaxP + 1) : \E kw \in KwChoices : shape' = [np |-> n, kws |-> kw]
  /\ phase' = "done"
  /\ UNCHANGED ms
Next == AddMethod \/ PickShape
Spec == Init /\ [][Next]_vars

Done == phase = "done" /\ ~Conflict(Ms)

(* known deviation 1: nothing to dispatch on - the entry point builds an     *)
(* empty key, which only a parameterless method answers                      *)
KF_zeroargs == ImplFwdPos(Ms, shape) = 0 /\ ImplFwdKw(Ms, shape) = {}
               /\ \E m \in Ms : m.params # <<>>
(* known deviation 2: a named optional positional given by keyword behind an *)
(* omitted optional positional is not forwarded                              *)
KF_dropkw == \E p \in 1..MaxPos(Ms) : Supplied(Ms, shape, p) /\ p > ImplFwdPos(Ms, shape)

Selectable == {m \in Ms : ImplSelectable(Ms, m, shape)}

AcceptWhenPromised ==
  (Done /\ MustAccept(Ms, shape)) =>
     ImplAccepts(Ms, shape) /\ Selectable # {}

ForwardIntact ==
  (Done /\ ImplAccepts(Ms, shape)) =>
     \A m \in Selectable :
          /\ PyAccepts(m, shape)
          /\ \A j \in DOMAIN m.params : ImplBindOf(Ms, m, shape, j) = BindOf(m, shape, j)

NeverBadForward ==
  (Done /\ ImplAccepts(Ms, shape)) => \A m \in Selectable : ImplEnterOK(Ms, m, shape)

(* fixed in the code (strictly positional when > 1 optional positional): never again *)
NoDropKw == Done /\ ImplAccepts(Ms, shape) => ~KF_dropkw
=============================================================================
