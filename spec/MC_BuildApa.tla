---------------------------- MODULE MC_BuildApa ----------------------------
(***************************************************************************)
(* Inductive invariant of Build.tla for the C19 configuration (no faults,  *)
(* no invalid method, build lock, entry point swapped in last, analysis    *)
(* published when complete), checked with Apalache:                        *)
(*   Init => IndInv                  (--init=Init    --inv=IndInv --length=0)*)
(*   IndInv /\ Next => IndInv'       (--init=IndInit --inv=IndInv --length=1)*)
(*   IndInv => Safe                  (--init=IndInit --inv=Safe   --length=0)*)
(* TLC explores Build.tla for two or three calls per thread; the inductive *)
(* argument holds for ANY number of calls per thread (todo is an arbitrary *)
(* natural number in IndInit) and any length of behaviour.                 *)
(***************************************************************************)
EXTENDS Integers, Sequences, FiniteSets, Apalache

Threads == {1, 2, 3}
NMeth == 3
BadM == 0
MaxFail == 0
SwapLast == TRUE
RestoreOnFail == TRUE
UseLock == TRUE
CallsPer == 2
Peekers == {1, 2}
AtomicAnalysis == TRUE

VARIABLES
  \* @type: Str;
  entry,
  \* @type: Bool;
  compiled,
  \* @type: Int;
  cur,
  \* @type: Int;
  gmap,
  \* @type: Int -> (Int -> Int);
  tbl,
  \* @type: Int;
  lockh,
  \* @type: Set(Int);
  regd,
  \* @type: Int -> Str;
  pc,
  \* @type: Int -> Int;
  k,
  \* @type: Int -> Seq(Int);
  res,
  \* @type: Int -> Int;
  todo,
  \* @type: Int;
  nfail,
  \* @type: Int;
  ntbl,
  \* @type: { obj: Str, gen: Str, peeked: Int -> Bool };
  an

INSTANCE Build

PCs == {"idle", "acquire", "newmap", "analyze", "reg", "swap", "setcompiled", "release", "dispatch"}
Holding == {"newmap", "analyze", "reg", "swap", "setcompiled", "release"}
Full == [m \in Meths |-> 1]
UpTo(j) == [m \in Meths |-> IF m < j THEN 1 ELSE 0]

TypeOK ==
  /\ entry \in {"boot", "gen"} /\ compiled \in BOOLEAN
  /\ ntbl \in {0, 1} /\ cur = ntbl /\ gmap \in {0, 1}
  /\ DOMAIN tbl = {j \in {1} : j <= ntbl}
  /\ \A j \in DOMAIN tbl : DOMAIN tbl[j] = Meths /\ \A m \in Meths : tbl[j][m] \in {0, 1}
  /\ lockh \in {0} \cup Threads
  /\ regd = Meths
  /\ DOMAIN pc = Threads /\ \A t \in Threads : pc[t] \in PCs
  /\ DOMAIN k = Threads /\ \A t \in Threads : k[t] \in 0..(NMeth + 1)
  /\ DOMAIN todo = Threads /\ \A t \in Threads : todo[t] >= 0
  /\ DOMAIN res = Threads
  /\ nfail = 0
  /\ an.obj \in {"none", "full"} /\ an.gen \in {"none", "full"}
  /\ DOMAIN an.peeked = Threads

IndInv ==
  /\ TypeOK
  \* the build lock: exactly the thread in a lock-holding step holds it
  /\ \A t \in Threads : pc[t] \in Holding <=> lockh = t
  \* where the single build stands
  /\ \A t \in Threads :
       /\ pc[t] = "newmap" => (ntbl = 0 /\ ~compiled /\ entry = "boot")
       /\ pc[t] = "analyze" => (ntbl = 1 /\ tbl[1] = Bag0 /\ ~compiled /\ entry = "boot")
       /\ pc[t] = "reg" => (ntbl = 1 /\ k[t] \in 1..(NMeth + 1) /\ tbl[1] = UpTo(k[t]) /\ ~compiled /\ entry = "boot" /\ an.gen = "full")
       /\ pc[t] = "swap" => (ntbl = 1 /\ tbl[1] = Full /\ ~compiled /\ entry = "boot" /\ an.gen = "full")
       /\ pc[t] = "setcompiled" => (ntbl = 1 /\ tbl[1] = Full /\ ~compiled /\ entry = "gen" /\ an.gen = "full")
       /\ pc[t] = "release" => compiled
       /\ pc[t] = "dispatch" => (entry = "gen")
  /\ entry = "gen" => (ntbl = 1 /\ tbl[1] = Full /\ an.gen = "full")
  /\ compiled => entry = "gen"
  /\ (ntbl = 1 /\ ~compiled) => \E t \in Threads : pc[t] \in {"analyze", "reg", "swap", "setcompiled"}
  /\ (ntbl = 0) => (entry = "boot" /\ ~compiled)
  \* every call that returned gave the answer it gives alone
  /\ \A t \in Threads : \A j \in DOMAIN res[t] : res[t][j] = NMeth

(* what C19 asks of the model *)
Safe ==
  /\ EachAsAlone
  /\ FinalStateCorrect
  /\ \A t \in Threads : pc[t] = "dispatch" => (an.gen = "full" /\ Answer(tbl[cur]) = Correct)

(* vacuity controls: both must be *violated* (IndInit has states in which a thread dispatches / registers) *)
NobodyDispatches == \A t \in Threads : pc[t] # "dispatch"
NobodyRegistersSecond == \A t \in Threads : ~(pc[t] = "reg" /\ k[t] = 2)
NobodyCompiledWithPeek == ~(compiled /\ \E t \in Threads : an.peeked[t] /\ todo[t] > 5)

IndInit ==
  /\ entry \in {"boot", "gen"} /\ compiled \in BOOLEAN
  /\ cur \in {0, 1} /\ gmap \in {0, 1} /\ ntbl \in {0, 1} /\ nfail = 0
  /\ lockh \in {0} \cup Threads
  /\ regd = Meths
  /\ tbl = Gen(3)
  /\ pc = Gen(3) /\ k = Gen(3) /\ todo = Gen(3) /\ res = Gen(3)
  /\ an = Gen(3)
  /\ IndInv
=============================================================================
