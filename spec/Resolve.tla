------------------------------ MODULE Resolve ------------------------------
(***************************************************************************)
(* Doc layer: the documented resolution rule (C02), applicability (C01),   *)
(* and the call_next chain (C07).  Nothing here mentions caches, levels or *)
(* tables.                                                                  *)
(*                                                                         *)
(* method: [id, prio, reg, pos : Seq(term), reqpos : Nat,                  *)
(*          kwn : Seq(STRING), kwt : Seq(term), kwreq : Seq(BOOLEAN)]      *)
(* call:   [pos : Seq(arg), kwn : Seq(STRING), kwa : Seq(arg)]             *)
(***************************************************************************)
EXTENDS Types

KwIdx(m, name) == CHOOSE i \in DOMAIN m.kwn : m.kwn[i] = name
HasKw(m, name) == \E i \in DOMAIN m.kwn : m.kwn[i] = name

(* C01: what the method's own signature accepts *)
ArityOk(m, call) == Len(call.pos) >= m.reqpos /\ Len(call.pos) <= Len(m.pos)
KwNamesOk(m, call) ==
  /\ \A j \in DOMAIN call.kwn : HasKw(m, call.kwn[j])
  /\ \A i \in DOMAIN m.kwn : m.kwreq[i] => \E j \in DOMAIN call.kwn : call.kwn[j] = m.kwn[i]
TypesOk(W, m, call) ==
  /\ \A i \in DOMAIN call.pos : i <= Len(m.pos) => Holds(W, m.pos[i], call.pos[i])
  /\ \A j \in DOMAIN call.kwn :
        HasKw(m, call.kwn[j]) => Holds(W, m.kwt[KwIdx(m, call.kwn[j])], call.kwa[j])

Applicable(W, m, call) == ArityOk(m, call) /\ KwNamesOk(m, call) /\ TypesOk(W, m, call)

(* name of the first clause of C01 a body entry falsifies, "" if none *)
AcceptsClause(W, m, call) ==
  IF ~ArityOk(m, call) THEN "accepts.arity"
  ELSE IF ~KwNamesOk(m, call) THEN "accepts.keywords"
  ELSE IF ~TypesOk(W, m, call) THEN "accepts.types"
  ELSE ""

(* signature identity: types, arity range, keyword names + requiredness *)
(* (keyword-only parameters have no order: a call cannot tell `*, k, j` from `*, j, k`)   *)
SigNP(m) == <<m.pos, m.reqpos, {<<m.kwn[j], m.kwt[j], m.kwreq[j]>> : j \in DOMAIN m.kwn}>>

(* declared type of m at each position the call supplies *)
AllSameOrSub(W, a, b, call) ==
  /\ \A i \in DOMAIN call.pos : TypeLE(W, a.pos[i], b.pos[i])
  /\ \A j \in DOMAIN call.kwn :
        TypeLE(W, a.kwt[KwIdx(a, call.kwn[j])], b.kwt[KwIdx(b, call.kwn[j])])

(* C02, literally: a beats b (both applicable to call) *)
Beats(W, a, b, call) ==
  \/ a.prio > b.prio
  \/ a.prio = b.prio /\ SigNP(a) # SigNP(b) /\ AllSameOrSub(W, a, b, call)
  \/ a.prio = b.prio /\ SigNP(a) = SigNP(b) /\ a.reg > b.reg

Winners(W, S, call) == {m \in S : \A o \in S \ {m} : Beats(W, m, o, call)}

NoMethod   == [kind |-> "nomethod"]
Ambiguous  == [kind |-> "ambiguous"]
Run(m)     == [kind |-> "run", m |-> m.id]

Outcome(W, S, call) ==
  IF S = {} THEN NoMethod
  ELSE LET Wn == Winners(W, S, call) IN
       IF Cardinality(Wn) = 1 THEN Run(CHOOSE m \in Wn : TRUE) ELSE Ambiguous

ApplicableSet(W, M, call) == {m \in M : Applicable(W, m, call)}

(***************************************************************************)
(* C07: call_next.  Walk the chain of unique winners from the top; if it   *)
(* reaches m, the next method is the outcome over what remains below m.    *)
(* Result kinds: "fresh" (m not applicable: behaves like a fresh call),    *)
(* "below" (set that remains), "unspecified" (m lies under a tied rank).   *)
(***************************************************************************)
RECURSIVE ChainBelow(_, _, _, _)
ChainBelow(W, S, m, call) ==
  LET Wn == Winners(W, S, call) IN
  IF Cardinality(Wn) # 1 THEN [kind |-> "unspecified"]
  ELSE IF m \in Wn THEN [kind |-> "below", S |-> S \ Wn]
  ELSE ChainBelow(W, S \ Wn, m, call)

NextOutcome(W, M, m, call) ==
  LET S0 == ApplicableSet(W, M, call) IN
  IF m \notin S0 THEN Outcome(W, S0, call)
  ELSE LET cb == ChainBelow(W, S0, m, call) IN
       IF cb.kind = "below" THEN Outcome(W, cb.S, call)
       ELSE [kind |-> "anyerror"]

=============================================================================
