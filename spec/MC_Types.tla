------------------------------ MODULE MC_Types ------------------------------
(* Laws of C12 on the Impl transcription of typeorder, over every ordered   *)
(* pair of the closure {classes, unions and intersections of two classes}   *)
(* of every class DAG on <= MaxUser classes.                                *)
EXTENDS TypeImpl, TLC

CONSTANTS MaxUser
VARIABLES par, a, b, phase
vars == <<par, a, b, phase>>
NCls == Len(par)
W == [anc |-> AncFromParents(par), attrs |-> [c \in 1..NCls |-> {}], n |-> NCls]
Cl(c) == [k |-> "cls", c |-> c]
Terms == {Cl(c) : c \in 1..NCls}
         \cup {[k |-> "union", args |-> <<Cl(c), Cl(d)>>] : c, d \in 2..NCls}
         \cup {[k |-> "inter", args |-> <<Cl(c), Cl(d)>>] : c, d \in 2..NCls}

Init == par = << <<>> >> /\ a = Cl(1) /\ b = Cl(1) /\ phase = "classes"
AddClass == /\ phase = "classes" /\ NCls < MaxUser + 1
            /\ \E S \in SUBSET (2..NCls) : par' = Append(par, IF S = {} THEN <<1>> ELSE SetToSortedSeq(S))
            /\ UNCHANGED <<a, b, phase>>
Pick == /\ phase = "classes" /\ NCls >= 3
        /\ \E x, y \in Terms : a' = x /\ b' = y
        /\ phase' = "done" /\ UNCHANGED par
Next == AddClass \/ Pick
Spec == Init /\ [][Next]_vars

Done == phase = "done"
Members(t) == {t.args[j] : j \in DOMAIN t.args}
Mirror == Done => ImplOrd(W, a, b) = Opp(ImplOrd(W, b, a))
ReflSame == Done => ImplOrd(W, a, a) = "SAME"
ClassesIffSubclass == (Done /\ a.k = "cls" /\ b.k = "cls") => ImplOrd(W, a, b) = ClsOrd(W, a, b)
(* "more general than each member" - or the same type when that member already *)
(* contains all the others (a degenerate union / intersection)                 *)
Degenerate(u, m) == \A x \in Members(u) :
   IF u.k = "union" THEN ImplOrd(W, x, m) \in {"LESS", "SAME"} ELSE ImplOrd(W, x, m) \in {"MORE", "SAME"}
UnionAboveMembers == (Done /\ a.k = "union" /\ b \in Members(a)) =>
   ImplOrd(W, a, b) = (IF Degenerate(a, b) THEN "SAME" ELSE "MORE")
InterBelowMembers == (Done /\ a.k = "inter" /\ b \in Members(a)) =>
   ImplOrd(W, a, b) = (IF Degenerate(a, b) THEN "SAME" ELSE "LESS")
(* member-permuted unions / intersections denote the same type *)
PermutedSame == (Done /\ a.k = b.k /\ a.k # "cls" /\ Members(a) = Members(b)) => ImplOrd(W, a, b) = "SAME"
=============================================================================
