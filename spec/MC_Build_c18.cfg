SPECIFICATION Spec
CONSTANTS
  Threads = {1}
  NMeth = 3
  BadM = 2
  MaxFail = 2
  CallsPer = 4
  SwapLast = TRUE
  RestoreOnFail = TRUE
  Peekers = {}
  AtomicAnalysis = TRUE
  UseLock = TRUE
PROPERTY AnswersCorrect
PROPERTY RecoversAfterRemoval
INVARIANT EachAsAlone
INVARIANT FinalStateCorrect
