---------------------------- MODULE Trace_Types ----------------------------
(***************************************************************************)
(* Trace judge for the pure layer (C12, C13): the harness records, from    *)
(* the real library, the full tables                                       *)
(*    order[i][j]  = typeorder(T_i, T_j)            (LESS MORE SAME NONE)  *)
(*    subtt[i][j]  = subclasscheck(T_i, T_j)                               *)
(*    clssub[i][c] = subclasscheck(class c, T_i)        (static T_i)       *)
(*    disp[i][c]   = which of {f(x: T_i), f(x: object)} runs on an         *)
(*                   instance of class c ("T", "O", "AMB", ...)            *)
(* over a universe of index terms (composite types refer to members by     *)
(* index).  The Doc layer is the laws of the statements, evaluated on the  *)
(* recorded tables, plus the documented meaning Sat of every static type.  *)
(* One initial state per row i; the verdict lists every falsified law.     *)
(***************************************************************************)
EXTENDS Naturals, Sequences, FiniteSets, TLC, Json, IOUtils

Tab == JsonDeserialize(IOEnv.VF_CASES)
T == Tab.types
O == Tab.order
S == Tab.subtt
NT == Len(T)
Par == Tab.parents
NC == Len(Par)

VARIABLES i, fin
vars == <<i, fin>>

RangeS(s) == {s[j] : j \in DOMAIN s}
Anc0 == LET F[c \in 1..NC] == {c} \cup UNION {F[p] : p \in RangeS(Par[c])} IN F
(* classes that are (virtual) subclasses of each other, e.g. two structurally identical protocols *)
Eqv == {<<Tab.equiv[j][1], Tab.equiv[j][2]>> : j \in DOMAIN Tab.equiv}
Anc == [c \in 1..NC |-> Anc0[c] \cup {e[2] : e \in {e \in Eqv : e[1] \in Anc0[c]}}
                              \cup {e[1] : e \in {e \in Eqv : e[2] \in Anc0[c]}}]
HasAttr(c, name) == \E a \in Anc[c] : name \in RangeS(Tab.attrs[a])

Opp(o) == IF o = "LESS" THEN "MORE" ELSE IF o = "MORE" THEN "LESS" ELSE o
MergeOrd(os) ==
  IF os = {"SAME"} THEN "SAME"
  ELSE IF os \subseteq {"LESS", "SAME"} THEN "LESS"
  ELSE IF os \subseteq {"MORE", "SAME"} THEN "MORE"
  ELSE "NONE"

IsCls(j) == T[j].k = "cls"
(* builtin helper classes (tuple, list, dict, Sequence) have c = 0: below object, and tuple, list *)
(* and str (class 9) below Sequence                                                              *)
ClsSub(a, b) == IF T[b].c = 0 /\ T[b].builtin = "Sequence"
                THEN (T[a].c = 0 /\ T[a].builtin \in {"tuple", "list", "Sequence"}) \/ T[a].c = 9
                ELSE IF T[a].c = 0 \/ T[b].c = 0
                THEN a = b \/ (T[b].c = 1)
                ELSE T[b].c \in Anc[T[a].c]
ClsOrder(a, b) == IF a = b \/ (ClsSub(a, b) /\ ClsSub(b, a)) THEN "SAME"
                  ELSE IF ClsSub(a, b) THEN "LESS" ELSE IF ClsSub(b, a) THEN "MORE" ELSE "NONE"

(* documented meaning of a static type on a class (C13) *)
RECURSIVE Sat(_, _)
Sat(j, c) ==
  LET t == T[j] IN
  CASE t.k = "cls"       -> t.c # 0 /\ t.c \in Anc[c]
    [] t.k = "union"     -> \E a \in RangeS(t.args) : Sat(a, c)
    [] t.k = "inter"     -> \A a \in RangeS(t.args) : Sat(a, c)
    [] t.k = "exactly"   -> c = t.c
    [] t.k = "strict"    -> t.c \in Anc[c] /\ c # t.c
    [] t.k = "hasmethod" -> HasAttr(c, t.name)
    [] t.k = "deferred"  -> t.c \in Anc[c]     \* a class of the named module that is a subclass of the named class
    [] OTHER -> FALSE

Static(j) == T[j].k \in {"cls", "union", "inter", "exactly", "strict", "hasmethod"}
RECURSIVE DeepStatic(_)
DeepStatic(j) == Static(j) /\ (T[j].k \in {"union", "inter"} => \A a \in RangeS(T[j].args) : DeepStatic(a))

Fragment(j) == T[j].k \in {"cls", "gen", "typeof"}

(*** C12 laws for the pair (i, j); "" if all hold ***)
PairLaw12(a, b) ==
  IF O[a][b] # Opp(O[b][a]) THEN "mirror"
  ELSE IF a = b /\ O[a][b] # "SAME" THEN "refl_same"
  \* every type is the same as itself, also when it is written a second time (another annotation object)
  ELSE IF a = b /\ "twin" \in DOMAIN Tab.rows[a] /\ Tab.rows[a].twin # <<"SAME", "SAME">> THEN "refl_same.written_twice"
  ELSE IF IsCls(a) /\ IsCls(b) /\ O[a][b] # ClsOrder(a, b) THEN "classes_iff_subclass"
  ELSE IF T[a].k = "union" /\ b \in RangeS(T[a].args)
          /\ O[a][b] # (IF \A x \in RangeS(T[a].args) : O[x][b] \in {"LESS", "SAME"} THEN "SAME" ELSE "MORE")
       THEN "union_above_members"
  ELSE IF T[a].k = "inter" /\ b \in RangeS(T[a].args)
          /\ O[a][b] # (IF \A x \in RangeS(T[a].args) : O[x][b] \in {"MORE", "SAME"} THEN "SAME" ELSE "LESS")
       THEN "inter_below_members"
  ELSE IF T[a].k \in {"lit", "dep", "prod"} /\ b = T[a].bound /\ O[a][b] # "LESS" THEN "dep_below_bound"
  ELSE IF T[a].k = "gen" /\ b = T[a].origin /\ O[a][b] # "LESS" THEN "generic_below_origin"
  ELSE IF T[a].k = "gen" /\ T[b].k = "gen" /\ T[a].origin = T[b].origin /\ Len(T[a].args) = Len(T[b].args)
          /\ O[a][b] # MergeOrd({O[T[a].args[q]][T[b].args[q]] : q \in DOMAIN T[a].args})
       THEN "generic_argwise"
  \* different origins: the origins' order and the argument-wise comparison together
  ELSE IF T[a].k = "gen" /\ T[b].k = "gen" /\ T[a].origin # T[b].origin /\ Len(T[a].args) = Len(T[b].args)
          /\ O[a][b] # MergeOrd({O[T[a].origin][T[b].origin]} \cup {O[T[a].args[q]][T[b].args[q]] : q \in DOMAIN T[a].args})
       THEN "generic_argwise.other_origin"
  ELSE IF T[a].k = "typeof" /\ T[b].k = "typeof" /\ O[a][b] # O[T[a].arg][T[b].arg] THEN "typeof_argwise"
  ELSE ""

(*** C13 laws ***)
PairLaw13(a, b) ==
  IF a = b /\ S[a][b] # TRUE THEN "subtype_reflexive"
  ELSE IF IsCls(a) /\ IsCls(b) /\ S[a][b] # ClsSub(a, b) THEN "subtype_equals_issubclass"
  ELSE IF T[a].k = "gen" /\ T[b].k = "gen" /\ T[a].origin = T[b].origin /\ Len(T[a].args) = Len(T[b].args)
          /\ S[a][b] # (\A q \in DOMAIN T[a].args : S[T[a].args[q]][T[b].args[q]])
       THEN "subtype_covariant"
  ELSE IF Fragment(a) /\ Fragment(b) /\ S[a][b] = TRUE
          /\ \E c \in 1..NT : Fragment(c) /\ S[b][c] = TRUE /\ S[a][c] # TRUE
       THEN "subtype_transitive"
  ELSE ""

RowSat(a) ==
  IF ~("clssub" \in DOMAIN Tab.rows[a]) THEN ""
  ELSE LET cs == Tab.rows[a].clssub  dp == Tab.rows[a].dispatch IN
       IF \E c \in 1..NC : cs[c] # Sat(a, c) THEN
            "subclasscheck_iff_sat.cls" \o ToString(CHOOSE c \in 1..NC : cs[c] # Sat(a, c))
       ELSE IF \E c \in 1..NC : dp[c] # "skip" /\ T[a] # [k |-> "cls", c |-> 1] /\
                 ((Sat(a, c) /\ dp[c] \notin {"T", "AMB"}) \/ (~Sat(a, c) /\ dp[c] # "O"))
            THEN "applicable_iff_sat.cls" \o ToString(CHOOSE c \in 1..NC : dp[c] # "skip" /\
                 ((Sat(a, c) /\ dp[c] \notin {"T", "AMB"}) \/ (~Sat(a, c) /\ dp[c] # "O")))
       \* the method alone with its parameter optional: "O" stands for the 'No method' error
       ELSE IF "dispatch_alone" \in DOMAIN Tab.rows[a] /\
               \E c \in 1..NC : LET da == Tab.rows[a].dispatch_alone IN
                     da[c] # "skip" /\ ((Sat(a, c) /\ da[c] # "T") \/ (~Sat(a, c) /\ da[c] # "O"))
            THEN "applicable_iff_sat.alone_optional.cls" \o ToString(CHOOSE c \in 1..NC :
                     LET da == Tab.rows[a].dispatch_alone IN
                     da[c] # "skip" /\ ((Sat(a, c) /\ da[c] # "T") \/ (~Sat(a, c) /\ da[c] # "O")))
       \* two deferred classes declared on one function (neither resolved when the methods were registered): each method
       \* runs for the classes that satisfy its own type ("X" = the other deferred method ran)
       ELSE IF "dispatch_both" \in DOMAIN Tab.rows[a] /\
               \E c \in 1..NC : LET db == Tab.rows[a].dispatch_both IN
                     (Sat(a, c) /\ db[c] \notin {"T", "AMB"}) \/ (~Sat(a, c) /\ db[c] = "T")
            THEN "applicable_iff_sat.among_deferred.cls" \o ToString(CHOOSE c \in 1..NC :
                     LET db == Tab.rows[a].dispatch_both IN
                     (Sat(a, c) /\ db[c] \notin {"T", "AMB"}) \/ (~Sat(a, c) /\ db[c] = "T"))
       \* the union written A | B and handed over as it is (plain, and inside type[...]): the same answers
       ELSE IF "clssub_raw" \in DOMAIN Tab.rows[a] /\
               \E c \in 1..NC : Tab.rows[a].clssub_raw[c] # <<Sat(a, c), Sat(a, c)>>
            THEN "subclasscheck_iff_sat.union_as_written.cls" \o ToString(CHOOSE c \in 1..NC : Tab.rows[a].clssub_raw[c] # <<Sat(a, c), Sat(a, c)>>)
       ELSE ""

RECURSIVE RowClauses(_, _, _)
RowClauses(a, b, acc) ==
  IF b > NT THEN acc
  ELSE LET c12 == PairLaw12(a, b)  c13 == PairLaw13(a, b)
           a1 == IF c12 = "" THEN acc ELSE acc \o (IF acc = "" THEN "" ELSE ",") \o "C12:" \o c12 \o "@" \o ToString(b) \o "#0"
           a2 == IF c13 = "" THEN a1 ELSE a1 \o (IF a1 = "" THEN "" ELSE ",") \o "C13:" \o c13 \o "@" \o ToString(b) \o "#0"
       IN RowClauses(a, b + 1, a2)

Init == i \in {r \in 1..NT : ToString(r) \in DOMAIN Tab.rowids} /\ fin = FALSE
Finish ==
  /\ ~fin
  /\ LET rs == RowSat(i)
         base == RowClauses(i, 1, "")
         all == IF rs = "" THEN base ELSE base \o (IF base = "" THEN "" ELSE ",") \o "C13:" \o rs \o "@0#0"
     IN PrintT("VERDICT|r" \o ToString(i) \o "|" \o all \o "|kf=0;drift=0")
  /\ fin' = TRUE /\ UNCHANGED i
Next == Finish
Spec == Init /\ [][Next]_vars
=============================================================================
