SPECIFICATION Spec
CONSTANTS
  MaxUser = 4
  FixedOrder = TRUE
INVARIANT ReflSame
INVARIANT ClassesIffSubclass
INVARIANT Mirror
INVARIANT UnionAboveMembers
INVARIANT InterBelowMembers
INVARIANT PermutedSame
CHECK_DEADLOCK FALSE
