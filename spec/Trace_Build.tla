---------------------------- MODULE Trace_Build ----------------------------
(***************************************************************************)
(* Trace validation of the lazy build (C18 / C19 Impl layer): every        *)
(* execution recorded from the real code - threads racing their first      *)
(* calls under the cooperative scheduler, faults injected at hook points - *)
(* must be a behaviour of Build.tla.                                       *)
(*                                                                         *)
(* Recorded events (one per line, in the order they happened; only one     *)
(* thread runs at a time under the scheduler):                             *)
(*   start   t        the thread is about to call the function             *)
(*   locked  t        hook compile.locked  (build lock held, parents locked)*)
(*   newmap  t        hook compile.newmap  (fresh table in self.map)       *)
(*   generated t      hook compile.generated (analysis + entry point code) *)
(*   registered t     hook compile.registered (one more method in the map) *)
(*   swapped t        hook compile.swapped (generated entry point in place) *)
(*   done    t        hook compile.done    (_compiled = True)              *)
(*   end     t res arg  the call returned: res = id of the method that ran *)
(*                    first, 0 no method, -1 ambiguous; arg = rank of the  *)
(*                    argument class (methods 1..arg are applicable)       *)
(*   failed  t        the call ended with the injected fault / a           *)
(*                    configuration error                                  *)
(* Steps the code does not log (lock acquisition and release, the end of   *)
(* the registration loop, the dispatch itself) are composed with the       *)
(* logged step they precede or follow (A \cdot B).                         *)
(*                                                                         *)
(* Build.tla abstracts a call by "the highest registered method wins";     *)
(* here the recorded argument class bounds the applicable methods.         *)
(* A trace that cannot be consumed to its end is reported with the index   *)
(* of the first event no behaviour of Build.tla explains: SPEC-DRIFT.      *)
(***************************************************************************)
EXTENDS Build, Json, IOUtils

Cases == JsonDeserialize(IOEnv.VF_CASES)
VARIABLES i, l
tvars == <<vars, i, l>>

Tr == Cases[i].events
Cur == Tr[l]
Is(e, t) == l <= Len(Tr) /\ Cur.ev = e /\ Cur.t = t

Lift(A) == A /\ UNCHANGED <<i, l>>
Adv == l' = l + 1 /\ UNCHANGED <<vars, i>>

(* what a dispatch over bag b returns for an argument of rank a *)
AnswerUpTo(b, a) ==
  IF \A m \in Meths : m <= a => b[m] = 0 THEN NoMeth
  ELSE LET top == CHOOSE m \in Meths : m <= a /\ b[m] > 0 /\ \A o \in Meths : (o <= a /\ b[o] > 0) => o <= m IN
       IF b[top] > 1 THEN Ambig ELSE top

ResOk == cur > 0 /\ Cur.res = AnswerUpTo(tbl[cur], Cur.arg)

TStart(t)      == (Is("start", t) /\ Lift(StartCall(t))) \cdot Adv
TLocked(t)     == (Is("locked", t) /\ Lift(Acquire(t))) \cdot (pc[t] = "newmap" /\ Adv)
TNewMap(t)     == (Is("newmap", t) /\ Lift(NewMap(t))) \cdot Adv
TGenerated(t)  == (Is("generated", t) /\ Lift(Analyze(t))) \cdot Adv
TRegistered(t) == (Is("registered", t) /\ Lift(RegisterOne(t))) \cdot Adv
TSwapped(t)    == (Is("swapped", t) /\ Lift(EndReg(t))) \cdot Lift(Swap(t)) \cdot Adv
TDone(t)       == (Is("done", t) /\ Lift(SetCompiled(t))) \cdot Adv
TEndBuilt(t)   == (Is("end", t) /\ pc[t] = "release" /\ Lift(Release(t))) \cdot (ResOk /\ Lift(Dispatch(t))) \cdot Adv
TEndWaited(t)  == (Is("end", t) /\ pc[t] = "acquire" /\ Lift(Acquire(t)))
                    \cdot (pc[t] = "release" /\ Lift(Release(t))) \cdot (ResOk /\ Lift(Dispatch(t))) \cdot Adv
TEndDirect(t)  == (Is("end", t) /\ pc[t] = "dispatch" /\ ResOk /\ Lift(Dispatch(t))) \cdot Adv
TFailed(t)     == (Is("failed", t) /\ Lift(Fail(t))) \cdot Adv
(* the invalid method: RegisterOne raises out of the build *)
TFailedBad(t)  == (Is("failed", t) /\ pc[t] = "reg" /\ k[t] = BadM /\ Lift(RegisterOne(t))) \cdot Adv

TEvent(t) ==
    \/ TStart(t) \/ TLocked(t) \/ TNewMap(t) \/ TGenerated(t) \/ TRegistered(t) \/ TSwapped(t) \/ TDone(t)
    \/ TEndBuilt(t) \/ TEndWaited(t) \/ TEndDirect(t) \/ TFailed(t) \/ TFailedBad(t)

(* Grain of atomicity: the generated entry point is put in place one source line before hook compile.swapped   *)
(* is reached.  Under line-granular scheduling another thread can run in between and already finds it.  The    *)
(* swap of the building thread b may therefore be taken silently, ahead of its logged event, when an event of  *)
(* another thread is consumed - at most once per build (pc[b] leaves "reg"); the late "swapped" event of b is  *)
(* then consumed without a step of Build.tla.                                                                  *)
EarlySwap(b)    == pc[b] = "reg" /\ k[b] > NMeth /\ (Lift(EndReg(b)) \cdot Lift(Swap(b)))
TSwappedLate(b) == Is("swapped", b) /\ pc[b] = "setcompiled" /\ entry = "gen" /\ Adv

TNext ==
  \E t \in Threads :
    \/ TEvent(t)
    \/ TSwappedLate(t)
    \/ \E b \in Threads \ {t} : l <= Len(Tr) /\ Cur.t = t /\ (EarlySwap(b) \cdot TEvent(t))

TInit == Init /\ i \in 1..Len(Cases) /\ l = 1
TSpec == TInit /\ [][TNext]_tvars

(* furthest event reached per case (registers; needs -workers 1) *)
ASSUME \A c \in 1..Len(Cases) : TLCSet(c, 1)
Track == IF l > TLCGet(i) THEN TLCSet(i, l) ELSE TRUE

Report ==
  \A c \in 1..Len(Cases) :
    PrintT("VERDICT|" \o Cases[c].id \o "|"
           \o (IF TLCGet(c) > Len(Cases[c].events) THEN ""
               ELSE "Build:not_a_behaviour@" \o ToString(TLCGet(c)) \o "#0")
           \o "|kf=0;drift=0")
=============================================================================
