SPECIFICATION Spec
CONSTANTS
  N = 3
  NSig = 1
  MaxOps = 6
  DeepLock = FALSE
  BadSig = 0
  UnlockOnFail = TRUE
  HotReload = FALSE
  MixinsUpdate = FALSE
VIEW view
INVARIANT UsedConsistent
CHECK_DEADLOCK FALSE
