------------------------------- MODULE Recode -------------------------------
(***************************************************************************)
(* C09.  Doc layer: the meaning of a method body that uses recurse /       *)
(* call_next / the function's own name, as ordinary Python with those      *)
(* names bound to ordinary callables: an *event semantics* Eval giving the *)
(* sequence of observable events (leaf evaluations, dispatches with the    *)
(* values they carry), the value and the exception, with left-to-right,    *)
(* exactly-once evaluation built in.                                       *)
(*                                                                         *)
(* Terms (JSON records, field n = node kind):                              *)
(*   T(i)            side-effecting leaf: event L<i>, value i              *)
(*   B(i)            leaf that raises: event L<i>, exception i             *)
(*   S(i)            str-valued leaf: event L<i>; a call site given it      *)
(*                   raises the library's "No method" error (exception 77) *)
(*   X               the variable bound by the enclosing comprehension /   *)
(*                   lambda / nested def                                   *)
(*   C(site,arg,kw,star,dstar)  call site: recurse "R", call_next "N",     *)
(*                   own name "S"; argument positional or *[arg]; keyword  *)
(*                   k=kw or **{"k": kw}.  Event <site><v>k<kv>.           *)
(*                   recurse / own name return v + 10 + 3 kv,           *)
(*                   call_next v + 100 + 3 kv                           *)
(*   CX(site,val)    site(x, k=(x := val)): a bare-name argument that a     *)
(*                   later argument rebinds - the name is read first        *)
(*   Add If And Or   arithmetic, conditional expression, boolean operators *)
(*   LC(elt,items,cond,gen)  list comprehension / generator expression     *)
(*                   over a list display; value = sum of the elements      *)
(*   Lam(body,arg) Def(body,arg)  immediately applied lambda / nested def  *)
(*   F(a)            int(f"{a}")        W(a)   (w := a)                     *)
(* Eval returns [ev : Seq(STRING), val : Int, err : Int] (err 0 = none).   *)
(***************************************************************************)
EXTENDS Naturals, Integers, Sequences, TLC

Ok(ev, v) == [ev |-> ev, val |-> v, err |-> 0]
IsNull(t) == t.n = "null"

RECURSIVE Eval(_, _)
RECURSIVE EvalItems(_, _, _, _)
RECURSIVE EvalLoop(_, _, _, _, _, _)

(* evaluate a sequence of item terms left to right, collecting values *)
EvalItems(items, j, x, acc) ==
  IF j > Len(items) THEN acc
  ELSE LET r == Eval(items[j], x) IN
       IF r.err # 0 THEN [ev |-> acc.ev \o r.ev, vals |-> acc.vals, err |-> r.err]
       ELSE EvalItems(items, j + 1, x, [ev |-> acc.ev \o r.ev, vals |-> Append(acc.vals, r.val), err |-> 0])

(* the loop of a comprehension over already evaluated values *)
EvalLoop(elt, cond, vals, j, ev, sum) ==
  IF j > Len(vals) THEN Ok(ev, sum)
  ELSE LET c == IF IsNull(cond) THEN Ok(<<>>, 1) ELSE Eval(cond, vals[j]) IN
       IF c.err # 0 THEN [ev |-> ev \o c.ev, val |-> 0, err |-> c.err]
       ELSE IF c.val = 0 THEN EvalLoop(elt, cond, vals, j + 1, ev \o c.ev, sum)
       ELSE LET e == Eval(elt, vals[j]) IN
            IF e.err # 0 THEN [ev |-> ev \o c.ev \o e.ev, val |-> 0, err |-> e.err]
            ELSE EvalLoop(elt, cond, vals, j + 1, ev \o c.ev \o e.ev, sum + e.val)

Eval(t, x) ==
  CASE t.n = "T" -> Ok(<<"L" \o ToString(t.i)>>, t.i)
    [] t.n = "B" -> [ev |-> <<"L" \o ToString(t.i)>>, val |-> 0, err |-> t.i]
    [] t.n = "S" -> Ok(<<"L" \o ToString(t.i)>>, 0 - 1000 - t.i)   \* a str-valued leaf: no method accepts it
    [] t.n = "X" -> Ok(<<>>, x)
    [] t.n = "C" ->
         \* kwfirst: the call site is written site(k=<kw>, x=<arg>) - Python evaluates the arguments in the order written
         LET kf == "kwfirst" \in DOMAIN t /\ t.kwfirst
             a == Eval(t.arg, x)
             k == IF IsNull(t.kw) THEN Ok(<<>>, 0) ELSE Eval(t.kw, x)
             f == IF kf THEN k ELSE a
             s == IF kf THEN a ELSE k
         IN
         IF f.err # 0 THEN f
         ELSE IF s.err # 0 THEN [ev |-> f.ev \o s.ev, val |-> 0, err |-> s.err]
              ELSE IF a.val <= 0 - 1000 THEN [ev |-> f.ev \o s.ev, val |-> 0, err |-> 77]   \* "No method" raised at the call site
              ELSE Ok(f.ev \o s.ev \o <<(IF t.site = "N" THEN "N" ELSE "R") \o ToString(a.val) \o "k" \o ToString(k.val)>>,
                      a.val + (IF t.site = "N" THEN 100 ELSE 10) + 3 * k.val)
    [] t.n = "CX" ->
         \* site(x, k=(x := <val>)) on the method's own parameter x (= 5): the positional is read first
         LET k == Eval(t.val, x) IN
         IF k.err # 0 THEN k
         ELSE Ok(k.ev \o <<(IF t.site = "N" THEN "N" ELSE "R") \o "5k" \o ToString(k.val)>>,
                 5 + (IF t.site = "N" THEN 100 ELSE 10) + 3 * k.val)
    [] t.n = "Add" ->
         LET a == Eval(t.a, x) IN
         IF a.err # 0 THEN a
         ELSE LET b == Eval(t.b, x) IN
              IF b.err # 0 THEN [ev |-> a.ev \o b.ev, val |-> 0, err |-> b.err]
              ELSE Ok(a.ev \o b.ev, a.val + b.val)
    [] t.n = "If" ->
         LET c == Eval(t.c, x) IN
         IF c.err # 0 THEN c
         ELSE LET r == IF c.val # 0 THEN Eval(t.a, x) ELSE Eval(t.b, x) IN
              [ev |-> c.ev \o r.ev, val |-> r.val, err |-> r.err]
    [] t.n = "And" ->
         LET a == Eval(t.a, x) IN
         IF a.err # 0 \/ a.val = 0 THEN a
         ELSE LET b == Eval(t.b, x) IN [ev |-> a.ev \o b.ev, val |-> b.val, err |-> b.err]
    [] t.n = "Or" ->
         LET a == Eval(t.a, x) IN
         IF a.err # 0 \/ a.val # 0 THEN a
         ELSE LET b == Eval(t.b, x) IN [ev |-> a.ev \o b.ev, val |-> b.val, err |-> b.err]
    [] t.n = "LC" ->
         LET it == EvalItems(t.items, 1, x, [ev |-> <<>>, vals |-> <<>>, err |-> 0]) IN
         IF it.err # 0 THEN [ev |-> it.ev, val |-> 0, err |-> it.err]
         ELSE EvalLoop(t.elt, t.cond, it.vals, 1, it.ev, 0)
    \* Cls: the body is a method of a class defined inside the overloaded method (class K: run = lambda self, x_: <body>)
    [] t.n \in {"Lam", "Def", "Cls"} ->
         LET a == Eval(t.arg, x) IN
         IF a.err # 0 THEN a
         ELSE LET b == Eval(t.body, a.val) IN [ev |-> a.ev \o b.ev, val |-> b.val, err |-> b.err]
    \* Sh: <a> goes through a nested def / lambda whose own *parameters* are called recurse and like the overloaded
    \* function; they are bound to the identity, so the value and the events are those of <a>
    \* Sh with form "dflt": the nested lambda captures recurse as the *default* of a parameter of the same name
    \* (lambda v_, recurse=recurse: recurse(v_))(<a>) - the default is evaluated in the method: a recurse site after all
    [] t.n = "Sh" /\ t.form = "dflt" -> Eval([n |-> "C", site |-> "R", arg |-> t.a, kw |-> [n |-> "null"]], x)
    [] t.n \in {"F", "W", "Sh"} -> Eval(t.a, x)
    [] OTHER -> [ev |-> <<"?">>, val |-> 0, err |-> 0 - 1]

(* Python forbids assignment expressions inside a comprehension iterable *)
RECURSIVE NoWalrus(_)
NoWalrus(t) ==
  CASE t.n \in {"T", "B", "S", "X", "null"} -> TRUE
    [] t.n \in {"W", "CX"} -> FALSE
    [] t.n = "C" -> NoWalrus(t.arg) /\ NoWalrus(t.kw)
    [] t.n \in {"Add", "And", "Or"} -> NoWalrus(t.a) /\ NoWalrus(t.b)
    [] t.n = "If" -> NoWalrus(t.c) /\ NoWalrus(t.a) /\ NoWalrus(t.b)
    [] t.n = "LC" -> (\A j \in DOMAIN t.items : NoWalrus(t.items[j])) /\ NoWalrus(t.elt) /\ NoWalrus(t.cond)
    [] t.n \in {"Lam", "Def", "Cls"} -> NoWalrus(t.arg)    \* a lambda / def body is its own scope
    [] t.n \in {"F", "Sh"} -> NoWalrus(t.a)
    [] OTHER -> FALSE

(* grammar membership: X only under a binder; bounded nesting *)
RECURSIVE WellFormed(_, _, _)
WellFormed(t, bound, d) ==
  /\ d >= 0
  /\ CASE t.n \in {"T", "B", "S"} -> t.i \in 0..9
       [] t.n = "X" -> bound
       [] t.n = "C" -> /\ t.site \in {"R", "N", "S"} /\ WellFormed(t.arg, bound, d - 1)
                       /\ (IsNull(t.kw) \/ WellFormed(t.kw, bound, d - 1))
       [] t.n = "CX" -> t.site \in {"R", "N", "S"} /\ WellFormed(t.val, bound, d - 1) /\ NoWalrus(t.val)
       [] t.n \in {"Add", "And", "Or"} -> WellFormed(t.a, bound, d - 1) /\ WellFormed(t.b, bound, d - 1)
       [] t.n = "If" -> WellFormed(t.c, bound, d - 1) /\ WellFormed(t.a, bound, d - 1) /\ WellFormed(t.b, bound, d - 1)
       [] t.n = "LC" -> /\ \A j \in DOMAIN t.items : WellFormed(t.items[j], bound, d - 1) /\ NoWalrus(t.items[j])
                        /\ WellFormed(t.elt, TRUE, d - 1)
                        /\ (IsNull(t.cond) \/ WellFormed(t.cond, TRUE, d - 1))
       [] t.n \in {"Lam", "Def", "Cls"} -> WellFormed(t.arg, bound, d - 1) /\ WellFormed(t.body, TRUE, d - 1)
       [] t.n \in {"F", "W", "Sh"} -> WellFormed(t.a, bound, d - 1)
       [] OTHER -> FALSE
=============================================================================
