------------------------------ MODULE MC_Table ------------------------------
(* Worlds and configurations for Table.tla; also the behaviour generator    *)
(* (history variable + JSON output) used for spec -> code replay.           *)
EXTENDS Table

C(c) == [k |-> "cls", c |-> c]
Mk(pos, prio) == [id |-> 0, prio |-> prio, reg |-> 0, pos |-> [p \in DOMAIN pos |-> C(pos[p])],
                  reqpos |-> Len(pos), kwn |-> <<>>, kwt |-> <<>>, kwreq |-> <<>>]
MkOpt(pos, req, prio) == [Mk(pos, prio) EXCEPT !.reqpos = req]
MkKw(pos, prio, kn, kc, kreq) == [Mk(pos, prio) EXCEPT !.kwn = <<kn>>, !.kwt = <<C(kc)>>, !.kwreq = <<kreq>>]
Call(pos) == [pos |-> [p \in DOMAIN pos |-> [c |-> pos[p]]], kwn |-> <<>>, kwa |-> <<>>]
CallKw(pos, kn, kc) == [Call(pos) EXCEPT !.kwn = <<kn>>, !.kwa = <<[c |-> kc]>>]

TheWorlds == <<
  \* 1: chain  object > K2 > K3, one position, priorities
  [par  |-> << <<>>, <<1>>, <<2>> >>,
   menu |-> << Mk(<<1>>, 0), Mk(<<2>>, 0), Mk(<<3>>, 0), Mk(<<2>>, 1), Mk(<<1>>, 1) >>,
   keys |-> << Call(<<3>>), Call(<<2>>), Call(<<1>>) >>],
  \* 2: diamond, two positions (ambiguities)
  [par  |-> << <<>>, <<1>>, <<1>>, <<2, 3>> >>,
   menu |-> << Mk(<<2, 1>>, 0), Mk(<<3, 1>>, 0), Mk(<<1, 1>>, 0), Mk(<<4, 4>>, 0), Mk(<<2, 2>>, 1) >>,
   keys |-> << Call(<<4, 4>>), Call(<<4, 1>>), Call(<<2, 2>>) >>],
  \* 3: mixed arities, optional positional, keyword-only
  [par  |-> << <<>>, <<1>>, <<2>> >>,
   menu |-> << Mk(<<2>>, 0), MkOpt(<<2, 1>>, 1, 0), MkKw(<<1>>, 0, "k", 2, TRUE), Mk(<<3, 3>>, 0), MkKw(<<2>>, 0, "k", 3, FALSE) >>,
   keys |-> << Call(<<3>>), Call(<<3, 3>>), CallKw(<<3>>, "k", 3) >>],
  \* 4: two unrelated roots and a join: remembered ambiguity that a later registration resolves
  [par  |-> << <<>>, <<1>>, <<1>>, <<2, 3>> >>,
   menu |-> << Mk(<<2>>, 0), Mk(<<3>>, 0), Mk(<<4>>, 0), Mk(<<1>>, 0), Mk(<<2>>, 1) >>,
   keys |-> << Call(<<4>>), Call(<<2>>), Call(<<3>>) >>]
>>

=============================================================================
