SPECIFICATION Spec
CONSTANTS
  Threads = {1, 2}
  NMeth = 3
  BadM = 0
  MaxFail = 0
  CallsPer = 2
  SwapLast = TRUE
  RestoreOnFail = TRUE
  Peekers = {1, 2}
  AtomicAnalysis = FALSE
  UseLock = TRUE
PROPERTY AnswersCorrect
PROPERTY RecoversAfterRemoval
INVARIANT EachAsAlone
INVARIANT FinalStateCorrect
