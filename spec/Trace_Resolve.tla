--------------------------- MODULE Trace_Resolve ---------------------------
(***************************************************************************)
(* Trace judge (code -> spec) for call-level observations: C01, C02, C07.  *)
(* Cases come from the harness as one JSON array (env VF_CASES).  Each     *)
(* case is an initial state; every step consumes one recorded call; the    *)
(* first clause of the Doc layer the observation falsifies is remembered   *)
(* and printed as  VERDICT|<id>|<clause>@<step>  ("" = accepted).          *)
(* Verdicts are total: the spec never deadlocks on a bad observation.      *)
(*                                                                         *)
(* step.call  : [pos, kwn, kwa]                                            *)
(* step.obs   : [kind, entered : Seq([m, call, next]), resolve : [kind,m]] *)
(*   kind \in run ambiguous nomethod rejected badforward internal raised   *)
(*   entered[j].next.has = TRUE iff body j delegated with call_next/next   *)
(* step.via   : "direct" | "recurse"                                        *)
(***************************************************************************)
EXTENDS ResolveImpl, TLC, Json, IOUtils

Cases == JsonDeserialize(IOEnv.VF_CASES)

VARIABLES i, l, bad, kf, drift, fin
vars == <<i, l, bad, kf, drift, fin>>

Case    == Cases[i]
W       == MkWorld(Case.world)
M       == Range(Case.world.methods)
MById(id) == CHOOSE m \in M : m.id = id
Props   == Range(Case.props)

ErrKinds == {"ambiguous", "nomethod"}

(* some registered method has the call's shape (count + keyword names) *)
ShapeKnown(call) == \E m \in M : ArityOk(m, call) /\ KwNamesOk(m, call)

(* does observed error kind k satisfy the Doc outcome d (an error)? *)
ErrMatches(d, k, call) ==
  \/ d.kind = k
  \/ d.kind = "nomethod" /\ k = "rejected" /\ ~ShapeKnown(call)
  \/ d.kind = "anyerror" /\ k \in {"ambiguous", "nomethod"}

(*** C01 ***)
C01Clause(st) ==
  LET E == st.obs.entered IN
  IF \E j \in DOMAIN E : AcceptsClause(W, MById(E[j].m), E[j].call) # ""
  THEN LET j == CHOOSE j \in DOMAIN E : AcceptsClause(W, MById(E[j].m), E[j].call) # ""
       IN AcceptsClause(W, MById(E[j].m), E[j].call)
  ELSE ""

(*** C02: top-level outcome, resolve(), no body on error ***)
C02Clause(st) ==
  LET call == st.call
      d    == Outcome(W, ApplicableSet(W, M, call), call)
      E    == st.obs.entered
      r    == st.obs.resolve
  IN
  IF d.kind = "run" THEN
       IF Len(E) = 0 THEN
            IF st.obs.kind = "ambiguous" THEN "winner.got_ambiguous"
            ELSE IF st.obs.kind = "nomethod" THEN "winner.got_nomethod"
            ELSE "winner.got_" \o st.obs.kind
       ELSE IF E[1].m # d.m THEN "winner.wrong_method"
       ELSE IF r.kind # "skip" /\ ~(r.kind = "run" /\ r.m = d.m) THEN "resolve_agrees"
       ELSE ""
  ELSE
       IF Len(E) # 0 THEN "no_body_on_error." \o d.kind
       ELSE IF ~ErrMatches(d, st.obs.kind, call) THEN d.kind \o ".got_" \o st.obs.kind
       ELSE IF r.kind # "skip" /\ r.kind # d.kind THEN "resolve_agrees"
       ELSE ""

(*** C07: the chain of bodies entered during one outer call ***)
(* expected outcome for entry j (j = Len+1: what must end the chain) *)
ChainExpect(st, j) ==
  LET E == st.obs.entered IN
  IF j = 1 THEN Outcome(W, ApplicableSet(W, M, st.call), st.call)
  ELSE NextOutcome(W, M, MById(E[j-1].m), E[j-1].next.call)

RECURSIVE ChainClause(_, _)
ChainClause(st, j) ==
  LET E == st.obs.entered IN
  IF j <= Len(E) THEN
     LET d == ChainExpect(st, j) IN
     IF j > 1 /\ ~E[j-1].next.has THEN "chain.entered_after_leaf"
     ELSE IF d.kind = "run" THEN
          IF E[j].m = d.m THEN ChainClause(st, j + 1) ELSE "next_is_doc_next"
     ELSE "ends_correctly.body_ran_past_" \o d.kind
  ELSE
     \* end of the chain
     IF Len(E) > 0 /\ ~E[Len(E)].next.has THEN
          IF st.obs.kind = "run" THEN "" ELSE "chain.leaf_but_" \o st.obs.kind
     ELSE LET d == ChainExpect(st, j) IN
          IF d.kind = "run" THEN "next_is_doc_next.stopped_early"
          ELSE IF ErrMatches(d, st.obs.kind, IF j = 1 THEN st.call ELSE E[j-1].next.call)
               THEN "" ELSE "ends_correctly." \o d.kind \o ".got_" \o st.obs.kind

VisitedOnce(st) ==
  LET E == st.obs.entered IN
  \* only meaningful when every delegation re-uses the same argument classes
  \A a, b \in DOMAIN E : (a # b /\ E[a].call = E[b].call) => E[a].m # E[b].m

C07Clause(st) ==
  IF ~VisitedOnce(st) THEN "visited_once" ELSE ChainClause(st, 1)

StepClause(st) ==
  LET c1 == IF "C01" \in Props THEN C01Clause(st) ELSE ""
      c2 == IF "C02" \in Props THEN C02Clause(st) ELSE ""
      c7 == IF "C07" \in Props THEN C07Clause(st) ELSE ""
  IN IF c1 # "" THEN "C01:" \o c1
     ELSE IF c2 # "" THEN "C02:" \o c2
     ELSE IF c7 # "" THEN "C07:" \o c7
     ELSE ""

(***************************************************************************)
(* Impl layer on the same observation: is what the code did one of the     *)
(* behaviours ResolveImpl allows (for some tie order)?  A Doc rejection    *)
(* that the Impl layer predicts, on an input with the KF_levels signature, *)
(* is the known finding; an observation the Impl layer does not predict is *)
(* spec drift (reported, never a verdict).                                 *)
(***************************************************************************)
KindMatches(o, k, call) ==
  \/ o.kind = k
  \/ o.kind = "nomethod" /\ k = "rejected" /\ ~ShapeKnown(call)

ImplConsistent(st) ==
  LET E == st.obs.entered IN
  /\ \E r \in RankLists(W, M, st.call) :
        LET o == ImplOutcomeOf(r) IN
        IF Len(E) = 0 THEN o.kind # "run" /\ KindMatches(o, st.obs.kind, st.call)
        ELSE o.kind = "run" /\ o.m = E[1].m
  /\ \A j \in 2..Len(E) :
        E[j-1].next.has /\
        \E r \in RankLists(W, M, E[j-1].next.call) :
           LET o == ImplNextOf(r, E[j-1].m) IN o.kind = "run" /\ o.m = E[j].m
  /\ (Len(E) > 0 /\ E[Len(E)].next.has) =>
        \E r \in RankLists(W, M, E[Len(E)].next.call) :
           LET o == ImplNextOf(r, E[Len(E)].m) IN
           o.kind # "run" /\ KindMatches(o, st.obs.kind, E[Len(E)].next.call)
  /\ (Len(E) > 0 /\ ~E[Len(E)].next.has) => st.obs.kind = "run"

KFStep(st) ==
  LET E == st.obs.entered IN
  \/ KF_levels(W, M, st.call)
  \/ \E j \in DOMAIN E : E[j].next.has /\ KF_levels(W, M, E[j].next.call)

Flag(b) == IF b THEN "1" ELSE "0"

Init == /\ i \in 1..Len(Cases)
        /\ l = 1
        /\ bad = ""
        /\ kf = TRUE
        /\ drift = FALSE
        /\ fin = FALSE

Consume ==
  /\ ~fin /\ l <= Len(Case.steps)
  /\ LET c == StepClause(Case.steps[l]) IN
       bad' = IF bad = "" /\ c # "" THEN c \o "@" \o ToString(l) ELSE bad
  /\ LET st == Case.steps[l]
          ic == ImplConsistent(st) IN
       /\ drift' = (drift \/ ~ic)
       \* a rejection is "the known finding" only if every rejected step has the
       \* input signature and behaves as the Impl layer predicts
       /\ kf' = IF StepClause(st) # "" THEN kf /\ ic /\ KFStep(st) ELSE kf
  /\ l' = l + 1
  /\ UNCHANGED <<i, fin>>

Finish ==
  /\ ~fin /\ l > Len(Case.steps)
  /\ PrintT("VERDICT|" \o Case.id \o "|" \o bad \o "|kf=" \o Flag(bad # "" /\ kf) \o ";drift=" \o Flag(drift))
  /\ fin' = TRUE
  /\ UNCHANGED <<i, l, bad, kf, drift>>

Next == Consume \/ Finish
Spec == Init /\ [][Next]_vars
=============================================================================
