--------------------------- MODULE Trace_Resolve ---------------------------
(***************************************************************************)
(* Trace judge (code -> spec) for call-level observations:                 *)
(* C01, C02, C06, C07.                                                     *)
(* Cases come from the harness as one JSON array (env VF_CASES).  Each     *)
(* case is an initial state; every step consumes one recorded call; the    *)
(* first clause of the Doc layer the observation falsifies is remembered   *)
(* and printed as  VERDICT|<id>|<clause>@<step>|kf=..;drift=..             *)
(* ("" = accepted).  Verdicts are total: the spec never deadlocks on a bad *)
(* observation.                                                            *)
(*                                                                         *)
(* step.call    : [pos, kwn, kwa]                                          *)
(* step.methods : the method set in force for this step (optional; default *)
(*                case.world.methods) - C06 contexts change it             *)
(* step.obs     : [kind, entered : Seq([m, call, next]), resolve]          *)
(*   kind \in run ambiguous nomethod rejected badforward internal raised   *)
(*   entered[j].next.has = TRUE iff body j delegated with call_next/next   *)
(***************************************************************************)
EXTENDS Dependent, ClassOvld, TLC, Json, IOUtils

Cases == JsonDeserialize(IOEnv.VF_CASES)

VARIABLES i, l, bad, kf, drift, fin
vars == <<i, l, bad, kf, drift, fin>>

Case    == Cases[i]
W       == MkWorld(Case.world)
Props   == Range(Case.props)

MOf(st) == IF "methods" \in DOMAIN st THEN Range(st.methods)
           ELSE IF "host" \in DOMAIN st THEN EffMethods(Case.world.hosts, st.host)   \* C17: Doc overload set of the class
           ELSE Range(Case.world.methods)
ById(Ms, id) == CHOOSE m \in Ms : m.id = id

(* some registered method has the call's shape (count + keyword names) *)
ShapeKnown(Ms, call) == \E m \in Ms : ArityOk(m, call) /\ KwNamesOk(m, call)

(* does observed error kind k satisfy the Doc outcome d (an error)? *)
ErrMatches(Ms, d, k, call) ==
  \/ d.kind = k
  \/ d.kind = "nomethod" /\ k = "rejected" /\ ~ShapeKnown(Ms, call)
  \/ d.kind = "anyerror" /\ k \in {"ambiguous", "nomethod"}

(*** C01 ***)
C01Clause(st) ==
  LET E == st.obs.entered  Ms == MOf(st) IN
  IF \E j \in DOMAIN E : AcceptsClause(W, ById(Ms, E[j].m), E[j].call) # ""
  THEN LET j == CHOOSE j \in DOMAIN E : AcceptsClause(W, ById(Ms, E[j].m), E[j].call) # ""
       IN AcceptsClause(W, ById(Ms, E[j].m), E[j].call)
  ELSE ""

(*** C02: top-level outcome, resolve(), no body on error ***)
C02Clause(st) ==
  LET call == st.call
      Ms   == MOf(st)
      d    == Outcome(W, ApplicableSet(W, Ms, call), call)
      E    == st.obs.entered
      r    == st.obs.resolve
  IN
  IF d.kind = "run" THEN
       IF Len(E) = 0 THEN "winner.got_" \o st.obs.kind
       ELSE IF E[1].m # d.m THEN "winner.wrong_method"
       ELSE IF r.kind # "skip" /\ ~(r.kind = "run" /\ r.m = d.m) THEN "resolve_agrees"
       ELSE ""
  ELSE
       IF Len(E) # 0 THEN "no_body_on_error." \o d.kind
       ELSE IF ~ErrMatches(Ms, d, st.obs.kind, call) THEN d.kind \o ".got_" \o st.obs.kind
       ELSE IF r.kind # "skip" /\ r.kind # d.kind THEN "resolve_agrees"
       ELSE ""

(*** C07: the chain of bodies entered during one outer call ***)
ChainExpect(st, j) ==
  LET E == st.obs.entered  Ms == MOf(st) IN
  IF j = 1 THEN Outcome(W, ApplicableSet(W, Ms, st.call), st.call)
  ELSE IF "via" \in DOMAIN E[j-1].next /\ E[j-1].next.via = "recurse"
       THEN Outcome(W, ApplicableSet(W, Ms, E[j-1].next.call), E[j-1].next.call)    \* recurse = a fresh call
  ELSE NextOutcome(W, Ms, ById(Ms, E[j-1].m), E[j-1].next.call)

RECURSIVE ChainClause(_, _)
ChainClause(st, j) ==
  LET E == st.obs.entered  Ms == MOf(st) IN
  IF j <= Len(E) THEN
     LET d == ChainExpect(st, j) IN
     IF j > 1 /\ ~E[j-1].next.has THEN "chain.entered_after_leaf"
     ELSE IF d.kind = "run" THEN
          IF E[j].m = d.m THEN ChainClause(st, j + 1) ELSE "next_is_doc_next"
     ELSE "ends_correctly.body_ran_past_" \o d.kind
  ELSE
     IF Len(E) > 0 /\ ~E[Len(E)].next.has THEN
          IF st.obs.kind = "run" THEN "" ELSE "chain.leaf_but_" \o st.obs.kind
     ELSE LET d == ChainExpect(st, j) IN
          IF d.kind = "run" THEN "next_is_doc_next.stopped_early"
          ELSE IF ErrMatches(Ms, d, st.obs.kind, IF j = 1 THEN st.call ELSE E[j-1].next.call)
               THEN "" ELSE "ends_correctly." \o d.kind \o ".got_" \o st.obs.kind

(* position of the first chain step ChainClause rejects: the index of the    *)
(* entry it expected there (Len(E) + 1: the end of the chain), 0 if none     *)
RECURSIVE ChainFailPos(_, _)
ChainFailPos(st, j) ==
  LET E == st.obs.entered IN
  IF j <= Len(E) THEN
     LET d == ChainExpect(st, j) IN
     IF j > 1 /\ ~E[j-1].next.has THEN j
     ELSE IF d.kind = "run" /\ E[j].m = d.m THEN ChainFailPos(st, j + 1) ELSE j
  ELSE IF ChainClause(st, j) = "" THEN 0 ELSE j

VisitedOnce(st) ==
  LET E == st.obs.entered IN
  \* a recurse inside the chain starts a fresh call: methods may legitimately run again
  \/ \E a \in DOMAIN E : "via" \in DOMAIN E[a].next /\ E[a].next.via = "recurse"
  \* the statement's "at most once" is about following call_next with the arguments received
  \/ \E a \in DOMAIN E : E[a].next.has /\ E[a].next.call # E[a].call
  \/ \A a, b \in DOMAIN E : (a # b /\ E[a].call = E[b].call) => E[a].m # E[b].m

C07Clause(st) ==
  IF ~VisitedOnce(st) THEN "visited_once" ELSE ChainClause(st, 1)

(* C07 over value worlds (Dependent / Literal annotations): the same clause, applicability and order  *)
(* being value-level (Holds, TypeLE).  C07VFlag names the known deviation the first rejected chain     *)
(* step falls under, if any: 2 = an earlier call_next(other values) came from a method that is a       *)
(* candidate for the new argument classes but not applicable to the values; 1 = the call being         *)
(* resolved at that step has the rank artefact signature (KF_pull_rank).                               *)
C07VClause(st) == LET c == C07Clause(st) IN IF c = "" THEN "" ELSE "value_chain." \o c
(***************************************************************************)
(* C06: step 1 is the base context; every later step is the same call in   *)
(* another context (iteration orders forced through the order hook,        *)
(* permuted registration order, extra methods that are not applicable to   *)
(* the call, another hash seed / process).  The Doc layer checks the       *)
(* premise (the applicable methods are the same - compared by signature,   *)
(* priority and relative recency, not by id) and demands the same outcome. *)
(***************************************************************************)
AppKey(Ms, m) == <<SigNP(m), m.prio,
                   Cardinality({x \in Ms : SigNP(x) = SigNP(m) /\ x.prio = m.prio /\ x.reg > m.reg})>>
AppKeys(Ms, call) == {AppKey(Ms, m) : m \in ApplicableSet(W, Ms, call)}

ObsKey(st) ==
  LET E == st.obs.entered  Ms == MOf(st) IN
  <<IF st.obs.kind = "rejected" THEN "nomethod" ELSE st.obs.kind,
    [j \in DOMAIN E |-> AppKey(Ms, ById(Ms, E[j].m))]>>

C06Clause(st) ==
  LET base == Case.steps[1] IN
  IF AppKeys(MOf(st), st.call) # AppKeys(MOf(base), base.call) \/ st.call # base.call
  THEN "premise.applicable_set_differs"
  ELSE IF ObsKey(st) # ObsKey(base) THEN "same_across_contexts." \o st.ctx
  ELSE ""

(***************************************************************************)
(* C18: probes after a failed build / resolution.  allow_config: a         *)
(* configuration error is still an acceptable answer (the fault source may *)
(* still be present); must_config: the registered set contains a method    *)
(* that cannot be built, so only a configuration error is acceptable.      *)
(* alt_methods: the registration that was interrupted may or may not have  *)
(* taken effect - either complete set is accepted.                         *)
(* C19: every thread's call and every later probe must be what the call    *)
(* returns alone; no configuration, internal or spurious error.            *)
(***************************************************************************)
PlainClause(st) ==
  LET c2 == C02Clause(st) IN IF c2 # "" THEN c2 ELSE C07Clause(st)

C18Clause(st) ==
  IF st.obs.kind = "config" THEN
       IF st.allow_config THEN "" ELSE "works_after_removal.got_config"
  ELSE IF st.must_config THEN "probe_config_or_complete.ran_with_unbuildable_method_registered"
  ELSE LET c == PlainClause(st) IN
       IF c = "" THEN ""
       ELSE IF "alt_methods" \in DOMAIN st /\ PlainClause([st EXCEPT !.methods = st.alt_methods]) = "" THEN ""
       ELSE (IF st.allow_config THEN "probe_config_or_complete." ELSE "works_after_removal.") \o c

C19Clause(st) ==
  LET c0 == PlainClause(st)
      E == st.obs.entered
      \* alone, the first body receives the arguments and keywords of this very call
      c == IF c0 = "" /\ Len(E) > 0 /\ E[1].call # st.call THEN "arguments_of_this_call" ELSE c0
  IN IF c = "" THEN "" ELSE (IF st.role = "thread" THEN "each_as_alone." ELSE "final_state_correct.") \o c

(***************************************************************************)
(* C14: the "classes" of the world are nodes of the poset of passed type   *)
(* objects: node 1 = a plain `object` annotation, node n = type[el[n]] for *)
(* an element term, or an ordinary instance class (k = "inst").  Premise:  *)
(* the node order the harness built equals the documented subtype relation *)
(* SubElem.  The verdict is then the resolution rule (C02 / C01 clauses).  *)
(***************************************************************************)
C14Premise ==
  LET el == Case.world.elements
      banc == AncFromParents(Case.world.elbase)
      IsTy(n) == el[n].k \in {"cls", "gen", "any", "metaof", "un"}
  IN \A a, b \in 2..Len(el) :
       (IsTy(a) /\ IsTy(b)) => ((b \in W.anc[a]) <=> SubElem(banc, el[a], el[b]))

C14Clause(st) ==
  IF ~C14Premise THEN "premise.subelem"
  ELSE LET c1 == C01Clause(st) IN IF c1 # "" THEN c1 ELSE C02Clause(st)

(***************************************************************************)
(* C10: value-dependent methods.  Applicability is value-level (Holds),    *)
(* the order between annotations is TypeLE (a dependent type is preferred  *)
(* over every static type comparable with its bound; equal bounds are      *)
(* unordered).  st.obs.predlog lists every (dependent type, value) the     *)
(* user's condition was asked about: the value must be an instance of the  *)
(* bound.                                                                  *)
(***************************************************************************)
(* the user's condition was asked about a value that is an instance of the bound (class-level, or - when *)
(* the bound is itself value-dependent - value-level)                                                   *)
BoundOK(t, a) == IF t.bound.k \in {"lit", "dep", "prod"} THEN Holds(W, t.bound, a) ELSE Sat(W, t.bound, a.c)
C10Clause(st) ==
  LET P == st.obs.predlog IN
  IF \E q \in DOMAIN P : ~BoundOK(P[q].t, P[q].a) THEN "bound_guard"
  ELSE LET c1 == C01Clause(st) IN
       IF c1 # "" THEN "runs_iff_holds." \o c1
       ELSE LET c2 == C02Clause(st) IN IF c2 = "" THEN "" ELSE "value_outcome." \o c2

(***************************************************************************)
(* C17: a probe f(arg) on an instance of class st.host, made after class   *)
(* st.after had been defined.  The Doc overload set is EffMethods; self    *)
(* must be the instance.  The clause name says whether the probe re-checks *)
(* an earlier class (bases_and_siblings_unchanged).                        *)
(***************************************************************************)
(* st.bykw # "": the dispatched argument was given by keyword under that    *)
(* name.  Judged (as the same call) only when every definition the class   *)
(* dispatches over calls its parameter that - the parameter names in       *)
(* effect are those of the definitions in effect, not of overridden ones.  *)
C17Clause(st) ==
  IF st.bykw # "" /\ ~(\A d \in EffDefs(Case.world.hosts, st.host).defs : d.pn = st.bykw) THEN ""
  ELSE IF st.obs.slf # "ok" THEN "self_threaded"
  ELSE LET c == PlainClause(st) IN
       IF c = "" THEN ""
       ELSE (IF st.bykw # "" THEN "keyword_call." ELSE "")
            \o (IF st.after > st.host THEN "bases_and_siblings_unchanged." ELSE "class_overload_set.") \o c

(* C03 through the generated value dispatchers (functions and methods with self): the bodies entered  *)
(* receive exactly the argument objects supplied (the harness records them by identity) and the        *)
(* instance as self; the delegation chain receives what was delegated.                                 *)
C03VClause(st) ==
  LET E == st.obs.entered IN
  IF st.obs.kind \in {"badforward", "internal"} THEN "value_dispatch.no_" \o st.obs.kind
  ELSE IF st.obs.slf # "ok" THEN "value_dispatch.self_threaded"
  ELSE IF Len(E) > 0 /\ E[1].call # st.call THEN "value_dispatch.arguments_intact"
  ELSE IF \E j \in 2..Len(E) : E[j-1].next.has /\ E[j].call # E[j-1].next.call THEN "value_dispatch.arguments_intact.delegated"
  ELSE LET c == C01Clause(st) IN IF c = "" THEN "" ELSE "value_dispatch." \o c

(***************************************************************************)
(* Beyond the listed properties (reported as EXTRA, never a verdict):       *)
(* f.display_resolution(args) announces what the call will do.              *)
(*   X2:display_first   "X will be called first" names the method the        *)
(*        documented rule selects; "No method will be called" iff the rule   *)
(*        yields no method to run; ambiguity is announced iff the rule       *)
(*        finds a tie at the top                                             *)
(*   X2:display_order   the methods numbered #1, #2, .. are the chain that   *)
(*        call_next would walk with the same arguments (unique winners from  *)
(*        the top, as far as the numbering goes)                             *)
(***************************************************************************)
RECURSIVE DocChain(_, _)
DocChain(S, call) ==
  LET Wn == Winners(W, S, call) IN
  IF Cardinality(Wn) # 1 THEN <<>>
  ELSE LET m == CHOOSE m \in Wn : TRUE IN <<m.id>> \o DocChain(S \ Wn, call)

X2Clause(st) ==
  IF ~("display" \in DOMAIN st.obs) THEN ""
  ELSE LET dp == st.obs.display
           S == ApplicableSet(W, MOf(st), st.call)
           d == Outcome(W, S, st.call)
           ch == DocChain(S, st.call)
       IN IF d.kind = "run" /\ ~(dp.kind = "run" /\ dp.first = d.m) THEN "X2:display_first.run"
          ELSE IF d.kind = "nomethod" /\ ~(dp.kind = "none" /\ ~dp.amb) THEN "X2:display_first.nomethod"
          ELSE IF d.kind = "ambiguous" /\ ~(dp.kind = "none" /\ dp.amb) THEN "X2:display_first.ambiguous"
          ELSE IF Len(dp.seq) > Len(ch) \/ \E j \in DOMAIN dp.seq : dp.seq[j] # ch[j] THEN "X2:display_order"
          ELSE ""

(* an argument that is none of the world's values reached a method or a condition (class 0 = unknown to the *)
(* harness): the value the caller passed was replaced on the way                                            *)
ForeignArg(st) ==
  \/ \E q \in DOMAIN st.obs.predlog : st.obs.predlog[q].a.c = 0
  \/ \E e \in DOMAIN st.obs.entered :
        \/ \E j \in DOMAIN st.obs.entered[e].call.pos : st.obs.entered[e].call.pos[j].c = 0
        \/ \E j \in DOMAIN st.obs.entered[e].call.kwa : st.obs.entered[e].call.kwa[j].c = 0

StepClause(st) ==
  LET c1 == IF "C01" \in Props THEN C01Clause(st) ELSE ""
      c2 == IF "C02" \in Props THEN C02Clause(st) ELSE ""
      c7 == IF "C07" \in Props THEN C07Clause(st) ELSE ""
      c6 == IF "C06" \in Props THEN C06Clause(st) ELSE ""
      c18 == IF "C18" \in Props THEN C18Clause(st) ELSE ""
      c19 == IF "C19" \in Props THEN C19Clause(st) ELSE ""
      c14 == IF "C14" \in Props THEN C14Clause(st) ELSE ""
      c17 == IF "C17" \in Props THEN C17Clause(st) ELSE ""
      c7v == IF "C07V" \in Props THEN C07VClause(st) ELSE ""
      c3v == IF "C03V" \in Props THEN C03VClause(st) ELSE ""
      \* the recursion that follows a change of the method set made by the running method: a call over the set after the change
      c5n == IF "C05N" \in Props THEN PlainClause(st) ELSE ""
      c8n == IF "C08N" \in Props THEN PlainClause(st) ELSE ""
      c16n == IF "C16N" \in Props THEN PlainClause(st) ELSE ""
      c10 == IF ("C10" \in Props \/ "C10G" \in Props) /\ ForeignArg(st) THEN "arguments_intact"
             ELSE IF "C10" \in Props THEN C10Clause(st)
             ELSE IF "C10G" \in Props THEN
                  (IF \E q \in DOMAIN st.obs.predlog : ~BoundOK(st.obs.predlog[q].t, st.obs.predlog[q].a)
                   THEN "bound_guard"
                   ELSE LET c == C01Clause(st) IN IF c = "" THEN "" ELSE "runs_iff_holds." \o c)
             ELSE ""
  IN IF c18 # "" THEN "C18:" \o c18
     ELSE IF c19 # "" THEN "C19:" \o c19
     ELSE IF c14 # "" THEN "C14:" \o c14
     ELSE IF c10 # "" THEN "C10:" \o c10
     ELSE IF c17 # "" THEN "C17:" \o c17
     ELSE IF c7v # "" THEN "C07:" \o c7v
     ELSE IF c3v # "" THEN "C03:" \o c3v
     ELSE IF c5n # "" THEN "C05:change_during_call." \o c5n
     ELSE IF c8n # "" THEN "C08:recursion_after_change." \o c8n
     ELSE IF c16n # "" THEN "C16:change_reaches_every_linked_child." \o c16n
     ELSE IF c1 # "" THEN "C01:" \o c1
     ELSE IF c2 # "" THEN "C02:" \o c2
     ELSE IF c7 # "" THEN "C07:" \o c7
     ELSE IF c6 # "" THEN "C06:" \o c6
     ELSE ""

(***************************************************************************)
(* Impl layer on the same observation: is what the code did one of the     *)
(* behaviours ResolveImpl allows (for some tie order)?  A Doc rejection    *)
(* that the Impl layer predicts, on an input with the KF_levels signature, *)
(* is the known finding; an observation the Impl layer does not predict is *)
(* spec drift (reported, never a verdict).  Only meaningful for class      *)
(* terms (ImplOK = FALSE otherwise: no drift report, no known finding).    *)
(***************************************************************************)
ClsOnly(Ms) == \A m \in Ms : (\A p \in DOMAIN m.pos : m.pos[p].k = "cls")
                             /\ (\A p \in DOMAIN m.kwt : m.kwt[p].k = "cls")

DepTermOK(t) == t.k = "cls" \/ (t.k \in {"dep", "lit"} /\ t.bound.k = "cls")
DepOnly(Ms) == \A m \in Ms : (\A p \in DOMAIN m.pos : DepTermOK(m.pos[p]))
                             /\ (\A p \in DOMAIN m.kwt : DepTermOK(m.kwt[p]))

KindMatches(Ms, o, k, call) ==
  \/ o.kind = k
  \/ o.kind = "nomethod" /\ k = "rejected" /\ ~ShapeKnown(Ms, call)

ImplConsistent(st) ==
  LET E == st.obs.entered  Ms == MOf(st) IN
  /\ \E r \in RankLists(W, Ms, st.call) :
        LET o == ImplOutcomeOf(r) IN
        IF Len(E) = 0 THEN o.kind # "run" /\ KindMatches(Ms, o, st.obs.kind, st.call)
        ELSE o.kind = "run" /\ o.m = E[1].m
  /\ \A j \in 2..Len(E) :
        E[j-1].next.has /\
        \E r \in RankLists(W, Ms, E[j-1].next.call) :
           LET o == ImplNextOf(r, E[j-1].m) IN o.kind = "run" /\ o.m = E[j].m
  /\ (Len(E) > 0 /\ E[Len(E)].next.has) =>
        \E r \in RankLists(W, Ms, E[Len(E)].next.call) :
           LET o == ImplNextOf(r, E[Len(E)].m) IN
           o.kind # "run" /\ KindMatches(Ms, o, st.obs.kind, E[Len(E)].next.call)
  /\ (Len(E) > 0 /\ ~E[Len(E)].next.has) => st.obs.kind = "run"

(* the same for value worlds (Dependent.tla): rank wrappers, strategies, fall-through *)
ImplValueConsistent(st) ==
  LET E == st.obs.entered  Ms == MOf(st) IN
  /\ \E r \in RankLists(W, Ms, st.call) :
        LET o == ImplValueOutcomeOf(Ms, r, st.call) IN
        IF Len(E) = 0 THEN o.kind # "run" /\ KindMatches(Ms, o, st.obs.kind, st.call)
        ELSE o.kind = "run" /\ o.m = E[1].m
  /\ \A j \in 2..Len(E) :
        E[j-1].next.has /\
        \E r \in RankLists(W, Ms, E[j-1].next.call) :
           LET o == ImplValueNextOf(Ms, r, E[j-1].m, E[j-1].next.call) IN o.kind = "run" /\ o.m = E[j].m
  /\ (Len(E) > 0 /\ E[Len(E)].next.has) =>
        \E r \in RankLists(W, Ms, E[Len(E)].next.call) :
           LET o == ImplValueNextOf(Ms, r, E[Len(E)].m, E[Len(E)].next.call) IN
           o.kind # "run" /\ KindMatches(Ms, o, st.obs.kind, E[Len(E)].next.call)
  /\ (Len(E) > 0 /\ ~E[Len(E)].next.has) => st.obs.kind = "run"

C07VFlag(st) ==
  LET E == st.obs.entered  Ms == MOf(st)
      p == IF ~VisitedOnce(st) THEN Len(E) + 1 ELSE ChainFailPos(st, 1)
      callp == IF p <= 1 THEN st.call ELSE E[p-1].next.call
  IN IF p = 0 \/ ~DepOnly(MOf(st)) \/ ~ImplValueConsistent(st) THEN "0"
     ELSE IF \E j \in 1..(p-1) : j <= Len(E) /\ E[j].next.has /\ E[j].next.call # E[j].call
                                  /\ KF_next_other_value(W, Ms, ById(Ms, E[j].m), E[j].next.call) THEN "2"
     ELSE IF KF_pull_rank(W, Ms, callp) THEN "1"
     ELSE "0"

KFStep(st) ==
  LET E == st.obs.entered  Ms == MOf(st) IN
  \/ KF_levels(W, Ms, st.call)
  \/ \E j \in DOMAIN E : E[j].next.has /\ KF_levels(W, Ms, E[j].next.call)

Flag(b) == IF b THEN "1" ELSE "0"

Init == /\ i \in 1..Len(Cases)
        /\ l = 1
        /\ bad = ""
        /\ kf = FALSE
        /\ drift = FALSE
        /\ fin = FALSE

(* bad accumulates every rejected step as  clause@step#k  (k = 1: the step's *)
(* input has the known-finding signature), separated by ","; for C06 the    *)
(* signature may hold in any context of the case (kf variable).             *)
Consume ==
  /\ ~fin /\ l <= Len(Case.steps)
  /\ LET st == Case.steps[l]
         c  == StepClause(st)
         co == ClsOnly(MOf(st))
         \* value worlds under the context sweep (C06): the Impl layer of value dispatch must predict every context
         ic == IF co THEN ImplConsistent(st)
               ELSE IF "C06" \in Props /\ c # "" /\ DepOnly(MOf(st))
                    THEN ImplValueConsistent(st) /\ ImplValueConsistent(Case.steps[1])   \* the rejected context and the base
                    ELSE TRUE
         \* outside class-only worlds the signature alone decides (no Impl prediction available);
         \* it needs at least two supplied positions there (the cross-position form of the artefact)
         \* the level artefact is repaired; the only signature left is the rank artefact of dependent methods (C10)
         \* ... and only when the code did exactly what the Impl layer of value dispatch predicts
         ks == \/ "C10" \in Props /\ DepOnly(MOf(st)) /\ KF_pull_rank(W, MOf(st), st.call) /\ (c = "" \/ (~ForeignArg(st) /\ ImplValueConsistent(st)))
               \/ "C06" \in Props /\ ~co /\ DepOnly(MOf(st)) /\ KF_pull_rank(W, MOf(st), st.call)
     IN
       /\ bad' = LET b1 == IF c # ""
                          THEN bad \o (IF bad = "" THEN "" ELSE ",") \o c \o "@" \o ToString(l) \o "#"
                                   \o (IF "C07V" \in Props THEN C07VFlag(st) ELSE Flag(ks /\ ic))
                          ELSE bad
                     x2 == X2Clause(st)
                 IN IF x2 = "" THEN b1 ELSE b1 \o (IF b1 = "" THEN "" ELSE ",") \o x2 \o "@" \o ToString(l) \o "#0"
       /\ drift' = (drift \/ ~ic)
       /\ kf' = (kf \/ ks)
  /\ l' = l + 1
  /\ UNCHANGED <<i, fin>>

Finish ==
  /\ ~fin /\ l > Len(Case.steps)
  /\ PrintT("VERDICT|" \o Case.id \o "|" \o bad \o "|kf=" \o Flag(kf /\ ~drift)
            \o ";drift=" \o Flag(drift))
  /\ fin' = TRUE
  /\ UNCHANGED <<i, l, bad, kf, drift>>

Next == Consume \/ Finish
Spec == Init /\ [][Next]_vars
=============================================================================
