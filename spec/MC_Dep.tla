------------------------------- MODULE MC_Dep -------------------------------
(* Impl value-level outcome (Dependent.tla) against the Doc outcome over      *)
(* every set of <= MaxMeth one-position methods from a menu of static,        *)
(* Dependent and Literal annotations and every value.                         *)
EXTENDS Dependent, TLC, Json

CONSTANTS MaxMeth, Rich
VARIABLES ms, val, phase
vars == <<ms, val, phase>>

(* classes: 1 object, 2 I, 3 J (unrelated), 4 I2 < I *)
Par == << <<>>, <<1>>, <<1>>, <<2>> >>
W == [anc |-> AncFromParents(Par), attrs |-> [c \in 1..4 |-> {}], n |-> 4]
C(c) == [k |-> "cls", c |-> c]
IV(n) == [t |-> "int", v |-> n]
Values == << [c |-> 2, name |-> "v1", v |-> IV(1)], [c |-> 2, name |-> "v2", v |-> IV(2)],
             [c |-> 4, name |-> "w3", v |-> IV(3)], [c |-> 3, name |-> "j1", v |-> [t |-> "obj", v |-> 1]] >>
Dep(b, h) == [k |-> "dep", bound |-> C(b), holds |-> h]
Lit(vs) == [k |-> "lit", bound |-> C(2), vals |-> vs]
TypeMenu == IF Rich
  THEN << C(1), C(2), C(4), Dep(2, <<"v1">>), Dep(2, <<"v1", "v2">>), Dep(2, <<>>), Dep(1, <<"v1", "j1">>), Dep(4, <<"w3">>),
          Lit(<<IV(1)>>), Lit(<<IV(2)>>), Lit(<<IV(1), IV(2)>>), Lit(<<IV(2), IV(3)>>) >>
  ELSE << C(1), C(2), Dep(2, <<"v1">>), Dep(2, <<"v1", "v2">>), Dep(1, <<"v1", "j1">>),
          Lit(<<IV(1)>>), Lit(<<IV(1), IV(2)>>), Lit(<<IV(2), IV(3)>>) >>
Prios == <<0, 1>>
NCodes == Len(TypeMenu) * 2
Decode(k, j) == [id |-> j, prio |-> Prios[(k % 2) + 1], reg |-> j, pos |-> <<TypeMenu[(k \div 2) + 1]>>,
                 reqpos |-> 1, kwn |-> <<>>, kwt |-> <<>>, kwreq |-> <<>>]
M == {Decode(ms[j], j) : j \in DOMAIN ms}
Call == [pos |-> <<Values[val]>>, kwn |-> <<>>, kwa |-> <<>>]

Init == ms = <<>> /\ val = 1 /\ phase = "methods"
AddMethod == /\ phase = "methods" /\ Len(ms) < MaxMeth
             /\ \E k \in 0..(NCodes - 1) : (IF ms = <<>> THEN TRUE ELSE k > ms[Len(ms)]) /\ ms' = Append(ms, k)
             /\ UNCHANGED <<val, phase>>
Pick == /\ phase = "methods" /\ Len(ms) >= 1
        /\ \E v \in DOMAIN Values : val' = v
        /\ phase' = "done" /\ UNCHANGED ms
Next == AddMethod \/ Pick
Spec == Init /\ [][Next]_vars

Done == phase = "done"
DocOut == Outcome(W, ApplicableSet(W, M, Call), Call)
ImplOuts == ImplValueOutcomes(W, M, Call)
KF == KF_pull_rank(W, M, Call)

(* C01: whatever runs is applicable at value level *)
EnterSoundV == Done => \A o \in ImplOuts : o.kind = "run" => Applicable(W, CHOOSE m \in M : m.id = o.m, Call)
(* C10: the value-level outcome is the documented one, outside the known signatures *)
ValueAgree == Done => (KF \/ \A o \in ImplOuts : o = DocOut)
(* C06 *)
DeterministicV == Done => Cardinality(ImplOuts) = 1
Disagree == Done /\ \E o \in ImplOuts : o # DocOut
NoDisagree == ~Disagree
=============================================================================
