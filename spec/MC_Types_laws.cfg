SPECIFICATION Spec
CONSTANTS
  MaxUser = 3
  FixedOrder = TRUE
INVARIANT Mirror
CHECK_DEADLOCK FALSE
