-------------------------------- MODULE Ovld --------------------------------
(***************************************************************************)
(* The graph of overloaded functions as a state machine (C16, C08, C05).   *)
(*                                                                         *)
(* Impl state, one entry per node n \in 1..N (a node exists once created): *)
(*   mix[n]      its mixins (parents), in order                            *)
(*   lb[n]       created with linkback: it is listed in each parent's      *)
(*               `children` and receives their updates                     *)
(*   own[n]      its own table  <<signature id, rank>> -> method id;       *)
(*               rank 0 = current, -1, -2 .. = pushed down by a            *)
(*               re-registration of the same signature                     *)
(*   locked[n], compiled[n]                                                *)
(*   built[n]    the overlay its dispatch table was last built from        *)
(*                                                                         *)
(* Doc: Eff(n) = overlay, in mixin order and then own[n], of Eff(parent);  *)
(* a node that has been put to use must dispatch over Eff(n) computed from *)
(* the *current* tables of everything it derives from - a modification     *)
(* that would break this must be refused (UsedConsistent).                 *)
(*                                                                         *)
(* DeepLock / MixinsUpdate select the repaired behaviour (TRUE) or the one *)
(* of the pinned tree (FALSE: only direct non-linked parents are locked;   *)
(* add_mixins does not rebuild).                                           *)
(***************************************************************************)
EXTENDS Naturals, Integers, Sequences, FiniteSets, TLC

CONSTANTS N, NSig, MaxOps, DeepLock, MixinsUpdate,
          BadSig,        \* a signature whose method cannot be built (0: none): every build of an overlay holding it fails
          UnlockOnFail,  \* TRUE: a failed build gives back the locks it put on its parents (the repaired code)
          HotReload      \* TRUE: methods of nodes in use are also replaced through their Conformer (X5, beyond the listed properties)

VARIABLES exists, mix, lb, own, locked, compiled, built, nm, nops, last,
          used           \* history: the node has been built successfully at some time (came into use)
vars == <<exists, mix, lb, own, locked, compiled, built, nm, nops, last, used>>
view == <<exists, mix, lb, own, locked, compiled, built, used>>

Nodes == 1..N
RangeS(s) == {s[i] : i \in DOMAIN s}
Merge(f, g) == [k \in DOMAIN f \cup DOMAIN g |-> IF k \in DOMAIN g THEN g[k] ELSE f[k]]
Empty == <<>>
(* overlay of one layer of methods over another: "its own replacing a parent's method of identical signature" -  *)
(* whatever the lower layer has under a signature (its whole chain of re-registrations) is replaced by what the  *)
(* upper layer has under it                                                                                     *)
Overlay(f, g) ==
  LET sg == {k[1] : k \in DOMAIN g}
      keep == {k \in DOMAIN f : k[1] \notin sg}
  IN [k \in keep \cup DOMAIN g |-> IF k \in DOMAIN g THEN g[k] ELSE f[k]]

(* parents[n] < n : acyclic by construction *)
RECURSIVE EffOf(_, _, _)
EffOf(mx, ow, n) ==
  LET F[j \in 0..Len(mx[n])] ==
        IF j = 0 THEN Empty ELSE Overlay(F[j-1], EffOf(mx, ow, mx[n][j]))
  IN Overlay(F[Len(mx[n])], ow[n])
Eff(n) == EffOf(mix, own, n)

RECURSIVE AncOf(_, _)
AncOf(mx, n) == RangeS(mx[n]) \cup UNION {AncOf(mx, p) : p \in RangeS(mx[n])}
Anc(n) == AncOf(mix, n)


Init ==
  /\ exists = [n \in Nodes |-> FALSE]
  /\ mix = [n \in Nodes |-> <<>>]
  /\ lb = [n \in Nodes |-> FALSE]
  /\ own = [n \in Nodes |-> Empty]
  /\ locked = [n \in Nodes |-> FALSE]
  /\ compiled = [n \in Nodes |-> FALSE]
  /\ built = [n \in Nodes |-> Empty]
  /\ used = [n \in Nodes |-> FALSE]
  /\ nm = 0 /\ nops = 0
  /\ last = [op |-> "init"]

(***************************************************************************)
(* compile(): lock parents, rebuild the table from the current overlay     *)
(***************************************************************************)
IsChild(mx, c, p) == exists[c] /\ lb[c] /\ p \in RangeS(mx[c])

RECURSIVE LockUp(_, _, _)      \* lock p and everything above it
LockUp(mx, lk, p) ==
  LET l1 == [lk EXCEPT ![p] = TRUE]
      G[j \in 0..Len(mx[p])] == IF j = 0 THEN l1 ELSE LockUp(mx, G[j-1], mx[p][j])
  IN G[Len(mx[p])]

RECURSIVE LockParents(_, _, _) \* what compile() of n locks
LockParents(mx, lk, n) ==
  LET G[j \in 0..Len(mx[n])] ==
        IF j = 0 THEN lk
        ELSE LET p == mx[n][j] IN
             IF IsChild(mx, n, p)
             THEN (IF DeepLock THEN LockParents(mx, G[j-1], p) ELSE G[j-1])
             ELSE (IF DeepLock THEN LockUp(mx, G[j-1], p) ELSE [G[j-1] EXCEPT ![p] = TRUE])
  IN G[Len(mx[n])]

(* nodes recompiled by n._update(): n if compiled, then linked children, recursively *)
RECURSIVE UpdSet(_, _)
UpdSet(mx, n) == (IF compiled[n] THEN {n} ELSE {})
                 \cup UNION {UpdSet(mx, c) : c \in {c \in Nodes : IsChild(mx, c, n)}}

RECURSIVE LockAll(_, _, _)
LockAll(mx, lk, S) == IF S = {} THEN lk
                      ELSE LET n == CHOOSE n \in S : TRUE IN LockAll(mx, LockParents(mx, lk, n), S \ {n})

Create(n, ps, l) ==
  /\ ~exists[n] /\ \A k \in 1..(n-1) : exists[k]
  /\ \A j \in DOMAIN ps : exists[ps[j]] /\ ps[j] < n
  /\ exists' = [exists EXCEPT ![n] = TRUE]
  /\ mix' = [mix EXCEPT ![n] = ps]
  /\ lb' = [lb EXCEPT ![n] = l]
  /\ last' = [op |-> "create", n |-> n, mixins |-> ps, linkback |-> l, out |-> "ok"]
  /\ UNCHANGED <<own, locked, compiled, built, nm, used>>

(* an overlay that holds the unbuildable signature cannot be built *)
Buildable(e) == \A kk \in DOMAIN e : kk[1] # BadSig

(* _update(): every node of S is rebuilt from the new overlay; one that cannot be built goes back to its unbuilt     *)
(* state (it reports the problem again when it is called) while the others are still rebuilt                         *)
Rebuilt(mx, ow, S) == {kk \in S : Buildable(EffOf(mx, ow, kk))}

AddMixins(n, p) ==
  /\ exists[n] /\ exists[p] /\ p < n /\ p \notin RangeS(mix[n])
  /\ IF locked[n]
     THEN /\ last' = [op |-> "add_mixins", n |-> n, mixins |-> <<p>>, out |-> "refused"]
          /\ UNCHANGED <<exists, mix, lb, own, locked, compiled, built, nm, used>>
     ELSE /\ mix' = [mix EXCEPT ![n] = Append(@, p)]
          /\ IF MixinsUpdate
             THEN LET S == UpdSet(mix', n)  R == Rebuilt(mix', own, S) IN
                  /\ built' = [k \in Nodes |-> IF k \in R THEN EffOf(mix', own, k) ELSE built[k]]
                  /\ compiled' = [k \in Nodes |-> IF k \in S \ R THEN FALSE ELSE compiled[k]]
                  /\ locked' = LockAll(mix', locked, R)
                  /\ last' = [op |-> "add_mixins", n |-> n, mixins |-> <<p>>, out |-> IF S = R THEN "ok" ELSE "config"]
             ELSE /\ UNCHANGED <<built, locked, compiled>>
                  /\ last' = [op |-> "add_mixins", n |-> n, mixins |-> <<p>>, out |-> "ok"]
          /\ UNCHANGED <<exists, lb, own, nm, used>>

(* own-table update of register: push down the chain of the same signature *)
RECURSIVE PushDown(_, _, _, _)
PushDown(t, s, r, m) ==
  IF <<s, r>> \in DOMAIN t
  THEN Merge(PushDown(t, s, r - 1, t[<<s, r>>]), [k \in {<<s, r>>} |-> m])
  ELSE Merge(t, [k \in {<<s, r>>} |-> m])

Modify(n, newown, rec) ==
  IF locked[n]
  THEN /\ last' = [rec EXCEPT !.out = "refused"]
       /\ UNCHANGED <<exists, mix, lb, own, locked, compiled, built, nm, used>>
  ELSE /\ own' = [own EXCEPT ![n] = newown]
       /\ LET S == UpdSet(mix, n)  R == Rebuilt(mix, own', S) IN
          /\ built' = [k \in Nodes |-> IF k \in R THEN EffOf(mix, own', k) ELSE built[k]]
          /\ compiled' = [k \in Nodes |-> IF k \in S \ R THEN FALSE ELSE compiled[k]]
          /\ locked' = LockAll(mix, locked, R)
          \* the change itself stays (the method is registered / gone); the error of the failing rebuilds is reported
          /\ last' = IF S = R THEN rec ELSE [rec EXCEPT !.out = "config"]
       /\ UNCHANGED <<exists, mix, lb, used>>

Register(n, s) ==
  /\ exists[n]
  /\ nm' = IF locked[n] THEN nm ELSE nm + 1
  /\ Modify(n, PushDown(own[n], s, 0, nm + 1),
            [op |-> "register", n |-> n, m |-> nm + 1, sid |-> s, out |-> "ok"])

(* unregister: drop m, then close the gap it leaves in its signature's chain  *)
(* (ranks of a signature are always 0, -1, -2 .. without holes)               *)
DropClose(t, m) ==
  LET kept == {k \in DOMAIN t : t[k] # m}
      NewK(k) == <<k[1], 0 - Cardinality({k2 \in kept : k2[1] = k[1] /\ k2[2] > k[2]})>>
  IN [kk \in {NewK(k) : k \in kept} |-> t[CHOOSE k \in kept : NewK(k) = kk]]

Unregister(n, m) ==
  /\ exists[n] /\ \E k \in DOMAIN own[n] : own[n][k] = m
  /\ nm' = nm
  /\ Modify(n, DropClose(own[n], m),
            [op |-> "unregister", n |-> n, m |-> m, out |-> "ok"])

(* hot reload (X5): Conformer.__conform__ of a method the node registered itself - unregister(old), register(new)  *)
(* in one call. A conformer exists only once the node has been built (it hangs on the handlers of the table). The     *)
(* code takes two steps, each followed by the rebuild of everything that receives updates; they are one step here     *)
(* because the first cannot fail once it is admitted (dropping a method never makes an overlay unbuildable) and the   *)
(* rebuilds are functions of the tables alone - the replay compares flags and outcomes after the whole call.          *)
(* A refusal (locked node) comes from the unregistration: nothing has changed. A failing rebuild comes from the       *)
(* registration of the new version: the old one is gone, the new one registered, the error reported.                  *)
Conform(n, m, s) ==
  /\ HotReload
  /\ exists[n] /\ compiled[n] /\ \E k \in DOMAIN own[n] : own[n][k] = m
  /\ nm' = IF locked[n] THEN nm ELSE nm + 1
  /\ Modify(n, PushDown(DropClose(own[n], m), s, 0, nm + 1),
            [op |-> "conform", n |-> n, old |-> m, m |-> nm + 1, sid |-> s, out |-> "ok"])

(* first use (or any use): ensure compiled *)
Use(n) ==
  /\ exists[n] /\ Eff(n) # Empty
  /\ IF compiled[n]
     THEN /\ UNCHANGED <<compiled, built, locked, used>>
          /\ last' = [op |-> "use", n |-> n, out |-> "ok"]
     ELSE IF Buildable(Eff(n))
     THEN /\ compiled' = [compiled EXCEPT ![n] = TRUE]
          /\ built' = [built EXCEPT ![n] = Eff(n)]
          /\ locked' = LockParents(mix, locked, n)
          /\ used' = [used EXCEPT ![n] = TRUE]
          /\ last' = [op |-> "use", n |-> n, out |-> "ok"]
     ELSE \* the build fails: a configuration error; the node did not come into use
          /\ locked' = IF UnlockOnFail THEN locked ELSE LockParents(mix, locked, n)
          /\ UNCHANGED <<compiled, built, used>>
          /\ last' = [op |-> "use", n |-> n, out |-> "config"]
  /\ UNCHANGED <<exists, mix, lb, own, nm>>

Step ==
  \/ \E n \in Nodes : \E l \in BOOLEAN :
       \/ Create(n, <<>>, l)
       \/ \E p \in 1..(n-1) : Create(n, <<p>>, l)
       \/ \E p, q \in 1..(n-1) : p # q /\ Create(n, <<p, q>>, l)
  \/ \E n, p \in Nodes : AddMixins(n, p)
  \/ \E n \in Nodes : \E s \in 1..NSig : Register(n, s)
  \/ \E n \in Nodes : \E m \in 1..nm : Unregister(n, m)
  \/ \E n \in Nodes : \E m \in 1..nm : \E s \in 1..NSig : Conform(n, m, s)
  \/ \E n \in Nodes : Use(n)

Next == nops < MaxOps /\ Step /\ nops' = nops + 1
Spec == Init /\ [][Next]_vars

-----------------------------------------------------------------------------
(* C16 RefusedOrVisible + EffectiveIsOverlay: a node in use dispatches over *)
(* the current overlay of everything it derives from                        *)
UsedConsistent == \A n \in Nodes : compiled[n] => built[n] = Eff(n)

(* C16 ParentsUntouched: a modification of n changes Eff(k) only for k that *)
(* derive from n                                                            *)
ParentsUntouched ==
  [][\A n, k \in Nodes :
       (own'[n] # own[n] /\ k # n /\ n \notin AncOf(mix', k)) => EffOf(mix', own', k) = Eff(k)]_vars

(* a refusal has a reason: some node deriving from n is in use *)
RefusalJustified ==
  (last.op \in {"register", "unregister", "add_mixins"} /\ last.out = "refused") =>
     \E k \in Nodes : used[k] /\ last.n \in Anc(k)

(* C18 at the level of the graph: a lock has a reason - some node deriving from p did come into use.  In particular  *)
(* a build that failed locks nothing, so the offending method can still be removed from the parent it sits on.       *)
LockJustified == \A p \in Nodes : locked[p] => \E k \in Nodes : used[k] /\ p \in Anc(k)

(* a node reported as built dispatches over an overlay that can be built *)
BuiltIsBuildable == \A n \in Nodes : compiled[n] => Buildable(built[n])
=============================================================================
