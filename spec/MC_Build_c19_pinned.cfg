SPECIFICATION Spec
CONSTANTS
  Threads = {1, 2}
  NMeth = 3
  BadM = 0
  MaxFail = 0
  CallsPer = 1
  SwapLast = FALSE
  RestoreOnFail = FALSE
  UseLock = FALSE
PROPERTY AnswersCorrect
PROPERTY RecoversAfterRemoval
INVARIANT EachAsAlone
INVARIANT FinalStateCorrect
