SPECIFICATION CSpec
CONSTANTS
  N = 3
  NSig = 1
  MaxOps = 8
  DeepLock = TRUE
  BadSig = 0
  UnlockOnFail = TRUE
  HotReload = FALSE
  MixinsUpdate = TRUE
  GenDepth = 8
CONSTRAINT Emit
CHECK_DEADLOCK FALSE
