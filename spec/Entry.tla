------------------------------- MODULE Entry -------------------------------
(***************************************************************************)
(* C03.  Doc layer: how a call *shape* binds to a method's own Python      *)
(* signature (PyAccepts / Bind) and which shapes the documentation         *)
(* promises to accept (MustAccept).                                        *)
(* Impl layer: ArgumentAnalyzer.add/compile (classification of positions   *)
(* into strictly-positional / named, required / optional; keyword-only     *)
(* names) and generate_dispatch (the generated entry point's signature,    *)
(* its early-exit branches for omitted optional positionals, the           *)
(* forwarded call).                                                        *)
(*                                                                         *)
(* method : [id, params : Seq([name, kind, req])]  kind \in {"po","pk","kw"}*)
(*          positional params first (po then pk), required before optional *)
(* shape  : [np : Nat, kws : Seq(STRING)]  (np positionals, keyword names) *)
(***************************************************************************)
EXTENDS Naturals, Sequences, FiniteSets, TLC

RangeE(s) == {s[i] : i \in DOMAIN s}

PosParams(m) == SelectSeq(m.params, LAMBDA p : p.kind # "kw")
KwParams(m)  == SelectSeq(m.params, LAMBDA p : p.kind = "kw")
NPos(m)   == Len(PosParams(m))
ReqPos(m) == Cardinality({j \in 1..NPos(m) : PosParams(m)[j].req})
KwNames(m)  == {p.name : p \in RangeE(KwParams(m))}
ReqKw(m)    == {p.name : p \in {q \in RangeE(KwParams(m)) : q.req}}
PkIndex(m, name) == CHOOSE j \in 1..NPos(m) : PosParams(m)[j].kind = "pk" /\ PosParams(m)[j].name = name
IsPk(m, name) == \E j \in 1..NPos(m) : PosParams(m)[j].kind = "pk" /\ PosParams(m)[j].name = name

KwSet(sh) == RangeE(sh.kws)

(* Python's own binding of the shape to m's signature *)
PyAccepts(m, sh) ==
  /\ sh.np <= NPos(m)
  /\ \A k \in KwSet(sh) : \/ k \in KwNames(m)
                          \/ IsPk(m, k) /\ PkIndex(m, k) > sh.np
  /\ \A j \in 1..NPos(m) : PosParams(m)[j].req =>
        \/ j <= sh.np
        \/ PosParams(m)[j].kind = "pk" /\ PosParams(m)[j].name \in KwSet(sh)
  /\ ReqKw(m) \subseteq KwSet(sh)

(* what each parameter of m must receive: "arg:<i>", "kw:<name>" or "dflt"  *)
BindOf(m, sh, j) ==
  LET p == m.params[j] IN
  IF p.kind = "kw" THEN (IF p.name \in KwSet(sh) THEN "kw:" \o p.name ELSE "dflt")
  ELSE LET q == CHOOSE q \in 1..NPos(m) : PosParams(m)[q] = p IN
       IF q <= sh.np THEN "arg:" \o ToString(q)
       ELSE IF p.kind = "pk" /\ p.name \in KwSet(sh) THEN "kw:" \o p.name
       ELSE "dflt"

(***************************************************************************)
(* MustAccept - the conservative reading of docs/usage.md                  *)
(*  (A) positionals by position, keywords only for keyword-only names      *)
(*  (B) positionals by name: only when every position carries one and the  *)
(*      same name in every method that has it, and the spread between the  *)
(*      smallest required count and the largest positional count is <= 1   *)
(***************************************************************************)
UniformNames(Ms) ==
  \A a, b \in Ms : \A j \in 1..NPos(a) :
     /\ PosParams(a)[j].kind = "pk"
     /\ j <= NPos(b) => PosParams(b)[j].kind = "pk" /\ PosParams(b)[j].name = PosParams(a)[j].name

MinV(S) == CHOOSE x \in S : \A y \in S : x <= y
MaxV(S) == CHOOSE x \in S : \A y \in S : x >= y
Spread(Ms) == MaxV({NPos(m) : m \in Ms}) - MinV({ReqPos(m) : m \in Ms})

AcceptsA(m, sh) ==
  /\ ReqPos(m) <= sh.np /\ sh.np <= NPos(m)
  /\ KwSet(sh) \subseteq KwNames(m)
  /\ ReqKw(m) \subseteq KwSet(sh)

MustAccept(Ms, sh) ==
  \/ \E m \in Ms : AcceptsA(m, sh)
  \/ UniformNames(Ms) /\ Spread(Ms) <= 1 /\ \E m \in Ms : PyAccepts(m, sh)

(***************************************************************************)
(* Impl: ArgumentAnalyzer.compile                                          *)
(***************************************************************************)
MaxPos(Ms) == MaxV({NPos(m) : m \in Ms} \cup {0})
NamesAt(Ms, p) == {IF PosParams(m)[p].kind = "pk" THEN PosParams(m)[p].name ELSE "<none>" :
                     m \in {x \in Ms : NPos(x) >= p}}
Named(Ms, p) == Cardinality(NamesAt(Ms, p)) = 1 /\ "<none>" \notin NamesAt(Ms, p)
(* the named suffix: positions p such that every position >= p is named *)
IsNamedPos(Ms, p) == \A q \in p..MaxPos(Ms) : Named(Ms, q)
ReqEverywhere(Ms, p) == \A m \in Ms : NPos(m) >= p /\ PosParams(m)[p].req
AllKw(Ms) == UNION {KwNames(m) : m \in Ms}
KwReqEverywhere(Ms, k) == \A m \in Ms : k \in ReqKw(m)
NameOfPos(Ms, p) == CHOOSE n \in NamesAt(Ms, p) : TRUE

(* the analyser refuses: one name at two positions / positional and keyword *)
Conflict(Ms) ==
  \/ \E a, b \in Ms : \E i \in 1..NPos(a), j \in 1..NPos(b) :
        i # j /\ PosParams(a)[i].kind = "pk" /\ PosParams(b)[j].kind = "pk"
        /\ PosParams(a)[i].name = PosParams(b)[j].name
  \/ \E a, b \in Ms : \E i \in 1..NPos(a) :
        PosParams(a)[i].kind = "pk" /\ PosParams(a)[i].name \in KwNames(b)

OptionalPos(Ms) == {p \in 1..MaxPos(Ms) : ~ReqEverywhere(Ms, p)}
(* named positions can be passed by keyword only if at most one positional  *)
(* (strict or named) is optional - otherwise everything is positional-only  *)
ByKeywordOK(Ms, p) == IsNamedPos(Ms, p) /\ Cardinality(OptionalPos(Ms)) <= 1

(* Python binding of the shape against the generated entry point *)
ImplAccepts(Ms, sh) ==
  /\ sh.np <= MaxPos(Ms)
  /\ \A k \in KwSet(sh) :
        \/ k \in AllKw(Ms)
        \/ \E p \in 1..MaxPos(Ms) : ByKeywordOK(Ms, p) /\ NameOfPos(Ms, p) = k /\ p > sh.np
  /\ \A p \in 1..MaxPos(Ms) : ReqEverywhere(Ms, p) =>
        \/ p <= sh.np
        \/ ByKeywordOK(Ms, p) /\ NameOfPos(Ms, p) \in KwSet(sh)
  /\ \A k \in AllKw(Ms) : KwReqEverywhere(Ms, k) => k \in KwSet(sh)

(* position p holds a value after binding (else the MISSING placeholder) *)
Supplied(Ms, sh, p) ==
  \/ p <= sh.np
  \/ ByKeywordOK(Ms, p) /\ NameOfPos(Ms, p) \in KwSet(sh)

(* number of positionals forwarded: up to the first optional that is MISSING *)
FirstMissing(Ms, sh) ==
  LET opt == {p \in 1..MaxPos(Ms) : ~ReqEverywhere(Ms, p) /\ ~Supplied(Ms, sh, p)} IN
  IF opt = {} THEN MaxPos(Ms) + 1 ELSE MinV(opt)
ImplFwdPos(Ms, sh) == FirstMissing(Ms, sh) - 1
(* keywords forwarded: the keyword-only names that were given *)
ImplFwdKw(Ms, sh) == KwSet(sh) \cap AllKw(Ms)

(* the handler then binds Python-style: forwarded positionals by position,  *)
(* forwarded keywords by name                                               *)
ImplShape(Ms, sh) == [np |-> ImplFwdPos(Ms, sh), kwset |-> ImplFwdKw(Ms, sh)]

(* a positional forwarded at slot q came from: position q of the call, or   *)
(* the keyword naming position q                                            *)
ImplSource(Ms, sh, q) == IF q <= sh.np THEN "arg:" \o ToString(q) ELSE "kw:" \o NameOfPos(Ms, q)

ImplBindOf(Ms, m, sh, j) ==
  LET p == m.params[j] IN
  IF p.kind = "kw" THEN (IF p.name \in ImplFwdKw(Ms, sh) THEN "kw:" \o p.name ELSE "dflt")
  ELSE LET q == CHOOSE q \in 1..NPos(m) : PosParams(m)[q] = p IN
       IF q <= ImplFwdPos(Ms, sh) THEN ImplSource(Ms, sh, q) ELSE "dflt"

(* the handler's own signature admits the forwarded call *)
ImplEnterOK(Ms, m, sh) ==
  /\ ImplFwdPos(Ms, sh) <= NPos(m)
  /\ ReqPos(m) <= ImplFwdPos(Ms, sh)
  /\ ImplFwdKw(Ms, sh) \subseteq KwNames(m)
  /\ ReqKw(m) \subseteq ImplFwdKw(Ms, sh)

(* candidates the table can select for the key the entry point builds *)
ImplSelectable(Ms, m, sh) == ImplEnterOK(Ms, m, sh)

(***************************************************************************)
(* Beyond the listed properties: what inspect.signature(f) reports          *)
(* (LazySignature over the analyser).  Positional part, in the order the   *)
(* code emits it: unnamed required, unnamed optional, named required,      *)
(* named optional; then the keyword-only names (as sets).                  *)
(***************************************************************************)
SeqOfSet(S) ==   \* positions in increasing order
  LET RECURSIVE Go(_)
      Go(T) == IF T = {} THEN <<>> ELSE LET x == MinV(T) IN <<x>> \o Go(T \ {x})
  IN Go(S)
SigPositional(Ms) ==
  LET P == 1..MaxPos(Ms)
      grp(named, req) == SeqOfSet({p \in P : IsNamedPos(Ms, p) = named /\ ReqEverywhere(Ms, p) = req})
      rec(p) == [name |-> IF IsNamedPos(Ms, p) THEN NameOfPos(Ms, p) ELSE "ARG" \o ToString(p),
                 kind |-> IF IsNamedPos(Ms, p) THEN "pk" ELSE "po", req |-> ReqEverywhere(Ms, p)]
      all == grp(FALSE, TRUE) \o grp(FALSE, FALSE) \o grp(TRUE, TRUE) \o grp(TRUE, FALSE)
  IN [j \in DOMAIN all |-> rec(all[j])]
SigKwReq(Ms) == {k \in AllKw(Ms) : KwReqEverywhere(Ms, k)}
SigKwOpt(Ms) == {k \in AllKw(Ms) : ~KwReqEverywhere(Ms, k)}
=============================================================================
