------------------------------- MODULE Types -------------------------------
(***************************************************************************)
(* Doc layer: the documented meaning of ovld's types.                      *)
(*                                                                         *)
(* A *world* W is a record                                                 *)
(*    W.anc   : [1..n -> SUBSET 1..n]  reflexive-transitive ancestors      *)
(*              (class 1 is `object`; virtual ABC/protocol parents are     *)
(*              ordinary entries of the parent lists)                      *)
(*    W.attrs : [1..n -> SUBSET STRING] method names a class body defines  *)
(* An *argument* is a record [c |-> class id] optionally with a value      *)
(* field `v` (see ValEq) - what a call supplies at one position.           *)
(* A *type term* is a record with a kind field `k`:                        *)
(*    cls(c) any union(args) inter(args) exactly(c) strict(c)              *)
(*    hasmethod(name) check(members)     -- static, decided on the class   *)
(*    lit(vals) dep(bound, holds) prod(args) seqof(arg) collof(arg)        *)
(*    mapof(kt,vt) startswith(p) endswith(p) haskey(keys)                  *)
(*                                       -- value-dependent                *)
(*    typeof(t)  gen(origin, args)       -- types passed as arguments      *)
(* Sat(W,t,c) is "class c satisfies t" (C13), Holds(W,t,a) is "the value   *)
(* supplied as argument a is an instance of t" (C01, C10, C11).            *)
(***************************************************************************)
EXTENDS Naturals, Integers, Sequences, FiniteSets

Range(s) == {s[i] : i \in DOMAIN s}

RECURSIVE SetToSortedSeq(_)
SetToSortedSeq(S) ==
  IF S = {} THEN <<>>
  ELSE LET x == CHOOSE x \in S : \A y \in S : x <= y
       IN <<x>> \o SetToSortedSeq(S \ {x})

(* ancestors from parent lists; parents[c] \subseteq 1..c-1 *)
AncFromParents(par) ==
  LET F[c \in 1..Len(par)] == {c} \cup UNION {F[p] : p \in Range(par[c])}
  IN  [c \in 1..Len(par) |-> F[c]]

MkWorld(jw) ==
  [ anc   |-> AncFromParents(jw.parents),
    attrs |-> [c \in 1..Len(jw.parents) |->
                 IF "attrs" \in DOMAIN jw THEN Range(jw.attrs[c]) ELSE {}],
    n     |-> Len(jw.parents) ]

IsSub(W, c, d) == d \in W.anc[c]

HasAttr(W, c, name) == \E a \in W.anc[c] : name \in W.attrs[a]

(***************************************************************************)
(* Values.  t \in {"int","str","bool","none","tuple","list","dict","obj"}. *)
(* ints carry v \in Int, strings a sequence of character codes, tuples and *)
(* lists a sequence of [c, v] arguments, dicts two parallel sequences.     *)
(* Equality is structural; bool and int compare numerically (True == 1),   *)
(* floats in the corpus are never integral.                                *)
(***************************************************************************)
RECURSIVE ValEq(_, _)
ValEq(a, b) ==
  IF a.t \in {"int", "bool"} /\ b.t \in {"int", "bool"} THEN a.v = b.v   \* True == 1 in Python
  ELSE /\ a.t = b.t
       /\ CASE a.t \in {"str", "obj", "float", "none"} -> a.v = b.v
            [] a.t \in {"tuple", "list"} ->
                 /\ Len(a.v) = Len(b.v)
                 /\ \A j \in DOMAIN a.v : ValEq(a.v[j].v, b.v[j].v)
            [] OTHER -> FALSE

IsPrefixSeq(p, s) == Len(p) <= Len(s) /\ \A j \in DOMAIN p : s[j] = p[j]
IsSuffixSeq(p, s) == Len(p) <= Len(s) /\
                     \A j \in DOMAIN p : s[Len(s) - Len(p) + j] = p[j]

(***************************************************************************)
(* Sat: type-level meaning (C13).                                          *)
(***************************************************************************)
RECURSIVE Sat(_, _, _)
Sat(W, t, c) ==
  CASE t.k = "cls"       -> IsSub(W, c, t.c)
    [] t.k = "any"       -> TRUE
    [] t.k = "union"     -> \E j \in DOMAIN t.args : Sat(W, t.args[j], c)
    [] t.k = "inter"     -> \A j \in DOMAIN t.args : Sat(W, t.args[j], c)
    [] t.k = "exactly"   -> c = t.c
    [] t.k = "strict"    -> IsSub(W, c, t.c) /\ c # t.c
    [] t.k = "hasmethod" -> HasAttr(W, c, t.name)
    [] t.k = "check"     -> c \in Range(t.members)
    [] OTHER             -> FALSE

(***************************************************************************)
(* Holds: value-level meaning (C01, C10, C11).  Static kinds look at the   *)
(* class only.  An argument is [c, name, v] with v a value term:           *)
(*   [t |-> "int"|"bool"|"obj", v |-> n]   [t |-> "str", v |-> Seq(code)]  *)
(*   [t |-> "none"]   [t |-> "tuple"|"list", v |-> Seq(argument)]          *)
(*   [t |-> "dict", ks |-> Seq(value term), vs |-> Seq(argument)]          *)
(* lit        : equal to one of the values                                 *)
(* dep        : instance of the bound and the user condition holds (the    *)
(*              condition is given extensionally: names of the values)     *)
(* prod       : a tuple of that length whose elements hold element-wise    *)
(* seqof / collof : shallow - bound, and the first element (if any) holds  *)
(* mapof      : shallow - bound, first key and its value hold              *)
(* startswith / endswith / haskey : as named, bound str / str / Mapping    *)
(***************************************************************************)
FirstChar(a) == [c |-> a.c, name |-> "", v |-> [t |-> "str", v |-> <<a.v.v[1]>>]]

RECURSIVE Holds(_, _, _)
Holds(W, t, a) ==
  CASE t.k \in {"cls", "any", "exactly", "strict", "hasmethod", "check"} ->
          Sat(W, t, a.c)
    [] t.k = "union"  -> \E j \in DOMAIN t.args : Holds(W, t.args[j], a)
    [] t.k = "inter"  -> \A j \in DOMAIN t.args : Holds(W, t.args[j], a)
    \* Literal: an instance of the literal's bound (the classes of its values) equal to one of them:
    \* Literal[1] admits True (a bool is an int), Literal[True] does not admit 1
    [] t.k = "lit"    -> Sat(W, t.bound, a.c) /\ \E j \in DOMAIN t.vals : ValEq(t.vals[j], a.v)
    \* the bound may itself be value-dependent (Dependent[Literal[1, 2], p], Dependent[tuple[int, int], p])
    [] t.k = "dep"    -> (IF t.bound.k \in {"lit", "dep", "prod"} THEN Holds(W, t.bound, a) ELSE Sat(W, t.bound, a.c))
                         /\ a.name \in Range(t.holds)
    [] t.k = "prod"   -> /\ Sat(W, t.bound, a.c) /\ a.v.t = "tuple"
                         /\ Len(a.v.v) = Len(t.args)
                         /\ \A j \in DOMAIN t.args : Holds(W, t.args[j], a.v.v[j])
    [] t.k \in {"seqof", "collof"} ->
                         /\ Sat(W, t.bound, a.c)
                         /\ IF a.v.t = "str" THEN (Len(a.v.v) > 0 => Holds(W, t.arg, FirstChar(a)))
                            ELSE IF a.v.t = "dict" THEN (Len(a.v.ks) > 0 => Holds(W, t.arg, a.v.karg[1]))
                            ELSE (Len(a.v.v) > 0 => Holds(W, t.arg, a.v.v[1]))
    [] t.k = "mapof"  -> /\ Sat(W, t.bound, a.c) /\ a.v.t = "dict"
                         /\ (Len(a.v.ks) > 0 => (Holds(W, t.kt, a.v.karg[1]) /\ Holds(W, t.vt, a.v.vs[1])))
    [] t.k = "startswith" -> Sat(W, t.bound, a.c) /\ a.v.t = "str" /\ IsPrefixSeq(t.p, a.v.v)
    [] t.k = "endswith"   -> Sat(W, t.bound, a.c) /\ a.v.t = "str" /\ IsSuffixSeq(t.p, a.v.v)
    [] t.k = "haskey"     -> /\ Sat(W, t.bound, a.c) /\ a.v.t = "dict"
                             /\ \A q \in DOMAIN t.keys : \E j \in DOMAIN a.v.ks : ValEq(t.keys[q], a.v.ks[j])
    \* Callable[[A1, .., An], R] (docs/types.md): a function value [t |-> "fn", pos, req, kwreq, ret] that can be called
    \* with n positional arguments (no required keyword-only parameter), whose parameter types admit the Ai
    \* (contravariant) and whose return annotation is below R
    [] t.k = "callable"   -> /\ a.v.t = "fn"
                             /\ Len(t.args) >= a.v.req /\ Len(t.args) <= Len(a.v.pos) /\ ~a.v.kwreq
                             /\ \A j \in DOMAIN t.args : IsSub(W, t.args[j].c, a.v.pos[j])
                             /\ IsSub(W, a.v.ret, t.ret.c)
    [] OTHER -> FALSE

(***************************************************************************)
(* C14: subtype relation between *type objects passed as arguments*.       *)
(* Element terms: [k |-> "cls", c] (c in the base class poset banc),       *)
(* [k |-> "gen", o, args : Seq(element)] (parametrised generic, origin o), *)
(* [k |-> "any"] (typing.Any counts as object = class 1).                  *)
(* A class is a subtype of its superclasses; a parametrised generic is a   *)
(* subtype of every superclass of its origin, and of a generic with a      *)
(* same-or-super origin and argument-wise super types.                     *)
(***************************************************************************)
RECURSIVE SubElem(_, _, _)
SubElem(banc, x, y) ==
  \* [k |-> "un", args]: a union written inside type[...] (type[A | C]) - below what all its members are below,
  \* above what is below one of its members
  IF x.k = "un" THEN \A j \in DOMAIN x.args : SubElem(banc, x.args[j], y)
  ELSE IF y.k = "un" THEN \E j \in DOMAIN y.args : SubElem(banc, x, y.args[j])
  ELSE IF y.k = "any" THEN SubElem(banc, x, [k |-> "cls", c |-> 1])
  ELSE IF x.k = "any" THEN SubElem(banc, [k |-> "cls", c |-> 1], y)
  \* [k |-> "metaof", cs] : a metaclass used as an annotation; the classes cs are its instances.  It is
  \* below object only, and a passed class satisfies it iff it is one of its instances
  \* (via = "base": not the metaclass itself but an ordinary class the metaclass inherits from - an ABC, a
  \* protocol-like mixin; the classes cs are its instances just the same, and the metaclass is below it)
  \* (a metaclass is below type[object], the class of all classes; its ordinary base class is not: it also has
  \* instances that are no classes at all)
  ELSE IF x.k = "metaof" THEN (y.k = "cls" /\ y.c = 1 /\ "via" \notin DOMAIN x) \/ x = y
                              \/ (y.k = "metaof" /\ y.m = x.m /\ "via" \in DOMAIN y /\ "via" \notin DOMAIN x)
  ELSE IF y.k = "metaof" THEN x.k = "cls" /\ x.c \in {y.cs[j] : j \in DOMAIN y.cs}
  ELSE IF x.k = "cls" /\ y.k = "cls" THEN y.c \in banc[x.c]
  ELSE IF x.k = "gen" /\ y.k = "cls" THEN y.c \in banc[x.o]
  ELSE IF x.k = "gen" /\ y.k = "gen" THEN
       /\ y.o \in banc[x.o] /\ Len(x.args) = Len(y.args)
       /\ \A j \in DOMAIN x.args : SubElem(banc, x.args[j], y.args[j])
  ELSE FALSE

(***************************************************************************)
(* Declared order between annotation terms, as the statements use it.      *)
(* Classes: same-or-subclass (C02).  Value-dependent types (C10 and        *)
(* docs/dependent.md): a dependent type is more specific than every static *)
(* type comparable with its bound; two dependent types compare like their  *)
(* bounds; with equal bounds they are unordered (unless identical).        *)
(***************************************************************************)
SameOrSubCls(W, ta, tb) == ta.k = "cls" /\ tb.k = "cls" /\ IsSub(W, ta.c, tb.c)

IsDepT(t) == t.k \in {"dep", "lit", "prod", "seqof", "collof", "mapof", "startswith", "endswith", "haskey"}
(* bounds: a class or a union of classes (int | str) *)
IsStBound(b) == b.k = "cls" \/ (b.k = "union" /\ \A j \in DOMAIN b.args : b.args[j].k = "cls")
StMembers(b) == IF b.k = "cls" THEN {b.c} ELSE {b.args[j].c : j \in DOMAIN b.args}
StLE(W, x, y) == \A mx \in StMembers(x) : \E my \in StMembers(y) : IsSub(W, mx, my)
TypeLE(W, ta, tb) ==
  IF ta.k = "cls" /\ tb.k = "cls" THEN IsSub(W, ta.c, tb.c)
  ELSE IF IsDepT(ta) /\ tb.k = "cls" THEN
       IsStBound(ta.bound) /\ (StLE(W, tb, ta.bound) \/ StLE(W, ta.bound, tb))
  ELSE IF IsDepT(ta) /\ IsDepT(tb) THEN
       \/ ta = tb
       \/ IsStBound(ta.bound) /\ IsStBound(tb.bound) /\ StLE(W, ta.bound, tb.bound) /\ ~StLE(W, tb.bound, ta.bound)
  ELSE ta = tb
=============================================================================
