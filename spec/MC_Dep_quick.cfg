SPECIFICATION Spec
CONSTANTS
  MaxMeth = 3
  Rich = FALSE
INVARIANT EnterSoundV
INVARIANT ValueAgree
INVARIANT DeterministicV
CHECK_DEADLOCK FALSE
