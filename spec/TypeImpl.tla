------------------------------ MODULE TypeImpl ------------------------------
(***************************************************************************)
(* Impl layer: mro.typeorder with the __type_order__ protocol as the       *)
(* classes, Union and Intersection of types.py implement it.               *)
(* Terms: [k |-> "cls", c], [k |-> "union", args : Seq(term)],             *)
(*        [k |-> "inter", args : Seq(term)]                                *)
(* Equality is structural on the argument *sequence* (Union.__eq__         *)
(* compares __args__ tuples): member-permuted unions are different types.  *)
(* FixedOrder selects the repaired Union / Intersection comparison (set    *)
(* semantics) or the pinned one (first comparable member decides).         *)
(***************************************************************************)
EXTENDS Types

CONSTANT FixedOrder

Opp(o) == IF o = "LESS" THEN "MORE" ELSE IF o = "MORE" THEN "LESS" ELSE o

ClsOrd(W, a, b) ==
  IF a.c = b.c THEN "SAME" ELSE IF IsSub(W, a.c, b.c) THEN "LESS"
  ELSE IF IsSub(W, b.c, a.c) THEN "MORE" ELSE "NONE"

RECURSIVE ImplOrd(_, _, _)
(* pinned Union.__type_order__ / Intersection.__type_order__ *)
HookPinned(W, u, other) ==
  LET cmp == {ImplOrd(W, u.args[j], other) : j \in DOMAIN u.args} \ {"NONE"} IN
  IF cmp = {} THEN "NONE"
  ELSE IF u.k = "union" THEN (IF "MORE" \in cmp \/ "SAME" \in cmp THEN "MORE" ELSE "LESS")
  ELSE (IF "LESS" \in cmp \/ "SAME" \in cmp THEN "LESS" ELSE "MORE")

(* repaired (_is_subtype_of / _composite_order in types.py): decompose a   *)
(* union on the left and an intersection on the right into all members,    *)
(* then a union on the right and an intersection on the left into some     *)
(* member; the order is derived from the two containment tests             *)
RECURSIVE LE(_, _, _)
LE(W, a, b) ==
  IF a.k = "union" THEN \A j \in DOMAIN a.args : LE(W, a.args[j], b)
  ELSE IF b.k = "inter" THEN \A j \in DOMAIN b.args : LE(W, a, b.args[j])
  ELSE IF b.k = "union" /\ \E j \in DOMAIN b.args : LE(W, a, b.args[j]) THEN TRUE
  ELSE IF a.k = "inter" THEN \E j \in DOMAIN a.args : LE(W, a.args[j], b)
  ELSE IF b.k = "union" THEN FALSE
  ELSE ImplOrd(W, a, b) \in {"LESS", "SAME"}
HookFixed(W, u, other) ==
  LET below == LE(W, u, other)  above == LE(W, other, u) IN
  IF above /\ below THEN "SAME" ELSE IF above THEN "MORE" ELSE IF below THEN "LESS" ELSE "NONE"

Hook(W, u, other) == IF FixedOrder THEN HookFixed(W, u, other) ELSE HookPinned(W, u, other)

SameType(a, b) ==
  IF FixedOrder /\ a.k = b.k /\ a.k \in {"union", "inter"}
  THEN {a.args[j] : j \in DOMAIN a.args} = {b.args[j] : j \in DOMAIN b.args}
  ELSE a = b

ImplOrd(W, a, b) ==
  IF SameType(a, b) THEN "SAME"
  ELSE IF a.k \in {"union", "inter"} THEN Hook(W, a, b)
  ELSE IF b.k \in {"union", "inter"} THEN Opp(Hook(W, b, a))
  ELSE ClsOrd(W, a, b)
=============================================================================
