--------------------------- MODULE Trace_Recode ---------------------------
(***************************************************************************)
(* C09 judge.  case: [id, prog (term), wrapper, reg, unreg]                *)
(* reg / unreg : [ev : Seq(STRING), val, err, built : "ok" | error text,   *)
(*               tb : "ok" | "bad" | "none"]  - the recorded run of the    *)
(* program registered on a real overloaded function, and of the very same  *)
(* source executed unregistered with recurse / call_next bound to ordinary *)
(* callables.  Three-way comparison with Eval:                             *)
(*   premise.*                    the term is not in the grammar / the     *)
(*                                unregistered run disagrees with Eval     *)
(*                                (machinery error, not a verdict)         *)
(*   placement_accepted           the library refused a valid placement    *)
(*   events / value / exception   the registered run differs              *)
(*   traceback_intact             file / line of the raising leaf          *)
(***************************************************************************)
EXTENDS Recode, Json, IOUtils

Cases == JsonDeserialize(IOEnv.VF_CASES)
VARIABLES i, fin
vars == <<i, fin>>
Case == Cases[i]

Verdict ==
  LET e == Eval(Case.prog, 0)  u == Case.unreg  r == Case.reg IN
  IF ~WellFormed(Case.prog, FALSE, 6) THEN "premise.not_in_grammar"
  ELSE IF u.built # "ok" \/ u.ev # e.ev \/ u.err # e.err \/ (e.err = 0 /\ u.val # e.val + Case.offset)
       THEN "premise.unregistered_run_disagrees_with_Eval"
  ELSE IF r.built # "ok" THEN "C09:placement_accepted"
  ELSE IF r.ev # e.ev THEN "C09:events_exactly_once_left_to_right"
  ELSE IF r.err # e.err THEN "C09:exception_intact"
  ELSE IF e.err = 0 /\ r.val # e.val + Case.offset THEN "C09:result_intact"
  ELSE IF e.err # 0 /\ r.tb = "bad" THEN "C09:traceback_intact"
  ELSE ""

Init == i \in 1..Len(Cases) /\ fin = FALSE
Next == /\ ~fin /\ fin' = TRUE /\ UNCHANGED i
        /\ PrintT("VERDICT|" \o Case.id \o "|" \o (IF Verdict = "" THEN "" ELSE Verdict \o "@1#0") \o "|kf=0;drift=0")
Spec == Init /\ [][Next]_vars
=============================================================================
