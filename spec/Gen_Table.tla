------------------------------ MODULE Gen_Table ------------------------------
(* Behaviour generator for spec -> code replay: Table.tla with a history   *)
(* variable; every behaviour of length GenDepth is printed as JSON.        *)
EXTENDS MC_Table, Json

(* generator: history of observations with the projected abstract state *)
VARIABLE hist
KeyJ(k) == [m |-> k.m, pos |-> [p \in DOMAIN k.T.pos |-> k.T.pos[p].c], kwn |-> k.T.kwn,
            kwa |-> [p \in DOMAIN k.T.kwa |-> k.T.kwa[p].c]]
Proj == [dict |-> {KeyJ(k) : k \in DOMAIN dict},
         errs |-> {KeyJ(k) : k \in errs},
         tmc  |-> {<<k[1], k[2]>> : k \in DOMAIN tmc}]
ObsJ == IF last.op = "register" THEN [op |-> "register", mi |-> last.mi]
        ELSE [op |-> "get", key |-> KeyJ(last.key), hit |-> last.hit, res |-> last.res]
GInit == Init /\ hist = <<>>
GNext == Next /\ hist' = Append(hist, [obs |-> ObsJ', proj |-> Proj'])
GSpec == GInit /\ [][GNext]_<<vars, hist>>

CONSTANT GenDepth
Emit == IF Len(hist) >= GenDepth
        THEN PrintT("BEHAVIOUR|" \o ToJson([wid |-> wid, steps |-> hist])) /\ FALSE
        ELSE TRUE

ASSUME PrintT("WORLDS|" \o ToJson(TheWorlds))
=============================================================================
