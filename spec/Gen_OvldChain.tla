--------------------------- MODULE Gen_OvldChain ---------------------------
(* Directed behaviour generator for specification -> code replay of Ovld.tla: every history (exhaustively, breadth-first,   *)
(* not sampled) over a chain 1 <- 2 <- .. <- N of functions - each link with or without linkback - that creates the chain   *)
(* and then takes GenDepth - N further steps (register / unregister / use anywhere). Emitted are the histories whose last   *)
(* step modifies a node that some function in use derives from *indirectly* (through an intermediate function): what the    *)
(* statement of C16 says about "every function it derives from (directly or through intermediate variants)" - refused, or,   *)
(* along linkback links only, visible in the child. Random simulation (Gen_Ovld) reaches such a history only by luck.        *)
EXTENDS Ovld, Json

VARIABLE hist
CONSTANT GenDepth

Proj == [locked |-> [n \in Nodes |-> locked[n]], compiled |-> [n \in Nodes |-> compiled[n]]]

ChainStep ==
  \/ \E n \in Nodes : \E l \in BOOLEAN :
       /\ nops = n - 1 /\ (n = 1 => l = FALSE)
       /\ Create(n, IF n = 1 THEN <<>> ELSE <<n - 1>>, l)
  \/ /\ nops >= N
     /\ \/ \E n \in Nodes : \E s \in 1..NSig : Register(n, s)
        \/ \E n \in Nodes : \E m \in 1..nm : Unregister(n, m)
        \/ \E n \in Nodes : Use(n)

CInit == Init /\ hist = <<>>
CNext == nops < MaxOps /\ ChainStep /\ nops' = nops + 1 /\ hist' = Append(hist, [obs |-> last', proj |-> Proj'])
CSpec == CInit /\ [][CNext]_<<vars, hist>>

Indirect == /\ last.op \in {"register", "unregister"}
            /\ \E k \in Nodes : used[k] /\ last.n \in Anc(k) /\ last.n \notin RangeS(mix[k])

Emit == IF Len(hist) >= GenDepth
        THEN (IF Indirect THEN PrintT("BEHAVIOUR|" \o ToJson([steps |-> hist])) ELSE TRUE) /\ FALSE
        ELSE TRUE
=============================================================================
