SPECIFICATION Spec
CONSTANTS
  Threads = {1, 2, 3}
  NMeth = 3
  BadM = 0
  MaxFail = 0
  CallsPer = 3
  SwapLast = TRUE
  RestoreOnFail = TRUE
  Peekers = {}
  AtomicAnalysis = TRUE
  UseLock = TRUE
PROPERTY AnswersCorrect
PROPERTY RecoversAfterRemoval
INVARIANT EachAsAlone
INVARIANT FinalStateCorrect
