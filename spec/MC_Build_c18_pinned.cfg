SPECIFICATION Spec
CONSTANTS
  Threads = {1}
  NMeth = 3
  BadM = 2
  MaxFail = 1
  CallsPer = 3
  SwapLast = FALSE
  RestoreOnFail = FALSE
  Peekers = {}
  AtomicAnalysis = TRUE
  UseLock = FALSE
PROPERTY AnswersCorrect
PROPERTY RecoversAfterRemoval
INVARIANT EachAsAlone
INVARIANT FinalStateCorrect
