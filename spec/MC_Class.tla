------------------------------ MODULE MC_Class ------------------------------
(* Doc-level invariants of ClassOvld.EffMethods over every hierarchy of the  *)
(* bound, built class by class: defining a class never changes the overload  *)
(* set of an earlier class (BasesAndSiblingsUnchanged), an extend_super body *)
(* sees every base's methods that it does not override, a body's own         *)
(* definitions are always part of its class's set.                           *)
EXTENDS ClassOvld, TLC
CONSTANTS MaxHosts, NTypes
VARIABLES hosts, prev
vars == <<hosts, prev>>

Defs(n, marked) == {<<>>} \cup
  {<<[id |-> n * 10 + 1, t |-> a, marked |-> marked]>> : a \in 1..NTypes} \cup
  {<<[id |-> n * 10 + 1, t |-> a, marked |-> marked], [id |-> n * 10 + 2, t |-> b, marked |-> FALSE]>> :
      a \in 1..NTypes, b \in 1..NTypes}
OkBody(b) == \A i, j \in DOMAIN b : i # j => b[i].t # b[j].t

Init == hosts = <<>> /\ prev = <<>>
AddHost ==
  /\ Len(hosts) < MaxHosts
  /\ \E bs \in {<<>>} \cup {<<b>> : b \in 1..Len(hosts)} \cup {<<b, c>> : b, c \in 1..Len(hosts)} :
     \E mk \in BOOLEAN : \E body \in Defs(Len(hosts) + 1, mk) :
       /\ OkBody(body)
       /\ (body = <<>> => Len(bs) = 1)
       /\ (Len(bs) = 2 => bs[1] > bs[2])
       /\ hosts' = Append(hosts, [bases |-> bs, mc |-> TRUE, body |-> body])
       /\ prev' = [h \in 1..Len(hosts) |-> EffMethods(hosts, h)]
Next == AddHost
Spec == Init /\ [][Next]_vars

BasesAndSiblingsUnchanged == \A h \in DOMAIN prev : EffMethods(hosts, h) = prev[h]
OwnAlwaysIn ==
  \A h \in DOMAIN hosts : \A j \in DOMAIN hosts[h].body :
     \E m \in EffMethods(hosts, h) : m.id = hosts[h].body[j].id
ExtendSuperSeesAllBases ==
  \A h \in DOMAIN hosts :
     (\E j \in DOMAIN hosts[h].body : hosts[h].body[j].marked) =>
        \A b \in RangeC(hosts[h].bases) : \A d \in EffDefs(hosts, b).defs :
           \/ \E j \in DOMAIN hosts[h].body : hosts[h].body[j].t = d.t
           \/ \E x \in EffMethods(hosts, h) : x.id = d.id
=============================================================================
