---------------------------- MODULE Trace_Value ----------------------------
(***************************************************************************)
(* C11: Literal and the built-in value types match exactly their           *)
(* documented values.  For one type T (a term) and every corpus value the  *)
(* harness records: isinstance(v, T); the generated checking expression    *)
(* evaluated directly; and which method runs for {f(x: T), f(x: object)}   *)
(* embedded in several companion method sets that steer the generated      *)
(* dispatcher onto its different strategies.                               *)
(* Clauses: dispatch_iff_isinstance (the statement's own oracle),          *)
(* path_independent, emitted_iff_isinstance, and - where the Doc layer has *)
(* a meaning for T (Holds) - literal_iff_equal / holds_iff_isinstance.     *)
(***************************************************************************)
EXTENDS Types, TLC, Json, IOUtils

Cases == JsonDeserialize(IOEnv.VF_CASES)
VARIABLES i, l, bad, fin
vars == <<i, l, bad, fin>>
Case == Cases[i]
W == MkWorld(Case.world)

RECURSIVE DocKnown(_)
DocKnown(t) ==
  CASE t.k \in {"cls", "lit", "startswith", "endswith", "haskey", "exactly", "callable"} -> TRUE
    [] t.k \in {"union", "inter", "prod"} -> \A j \in DOMAIN t.args : DocKnown(t.args[j])
    [] t.k \in {"seqof", "collof"} -> DocKnown(t.arg)
    [] t.k = "mapof" -> DocKnown(t.kt) /\ DocKnown(t.vt)
    [] OTHER -> FALSE

StepClause(st) ==
  LET t == Case.t  ran == [q \in DOMAIN st.disp |-> st.disp[q] = "T"] IN
  IF \E q \in DOMAIN st.disp : ran[q] # st.isinst
  THEN "dispatch_iff_isinstance." \o Case.companions[CHOOSE q \in DOMAIN st.disp : ran[q] # st.isinst]
       \o ".got_" \o st.disp[CHOOSE q \in DOMAIN st.disp : ran[q] # st.isinst]
  ELSE IF \E q, r \in DOMAIN st.disp : st.disp[q] # st.disp[r] THEN "path_independent"
  ELSE IF st.emitted # "skip" /\ (st.emitted = "T") # st.isinst THEN "emitted_iff_isinstance"
  ELSE IF DocKnown(t) /\ Holds(W, t, st.a) # st.isinst
       THEN (IF t.k = "lit" THEN "literal_iff_equal" ELSE "holds_iff_isinstance")
  ELSE ""

Init == i \in 1..Len(Cases) /\ l = 1 /\ bad = "" /\ fin = FALSE
Consume ==
  /\ ~fin /\ l <= Len(Case.steps)
  /\ LET c == StepClause(Case.steps[l]) IN
       \* (Callable[...] is not among the types C11 lists: its clauses are reported beyond the listed properties, X4)
       bad' = IF c # "" THEN bad \o (IF bad = "" THEN "" ELSE ",") \o (IF Case.t.k = "callable" THEN "X4:" ELSE "C11:") \o c \o "@" \o ToString(l) \o "#0" ELSE bad
  /\ l' = l + 1 /\ UNCHANGED <<i, fin>>
Finish ==
  /\ ~fin /\ l > Len(Case.steps)
  /\ PrintT("VERDICT|" \o Case.id \o "|" \o bad \o "|kf=0;drift=0")
  /\ fin' = TRUE /\ UNCHANGED <<i, l, bad>>
Next == Consume \/ Finish
Spec == Init /\ [][Next]_vars
=============================================================================
