SPECIFICATION Spec
CONSTANTS
  MaxUser = 3
  NPos = 1
  MaxMeth = 3
  Prios <- PriosA
  DoCensus = TRUE
CONSTRAINT Bound
INVARIANT Deterministic
INVARIANT DocImplAgree
INVARIANT EnterSound
INVARIANT ChainAgree
INVARIANT ChainSound
INVARIANT IrrelevantFree
CHECK_DEADLOCK FALSE
