------------------------------ MODULE Gen_Ovld ------------------------------
(* Behaviour generator for spec -> code replay of Ovld.tla: a history        *)
(* variable collects every step with the model's projection (locked /        *)
(* compiled flags); complete behaviours are printed as JSON.                 *)
EXTENDS Ovld, Json

VARIABLE hist
CONSTANT GenDepth

Proj == [locked |-> [n \in Nodes |-> locked[n]], compiled |-> [n \in Nodes |-> compiled[n]]]
GInit == Init /\ hist = <<>>
GNext == Next /\ hist' = Append(hist, [obs |-> last', proj |-> Proj'])
GSpec == GInit /\ [][GNext]_<<vars, hist>>

Emit == IF Len(hist) >= GenDepth
        THEN PrintT("BEHAVIOUR|" \o ToJson([steps |-> hist])) /\ FALSE
        ELSE TRUE
=============================================================================
