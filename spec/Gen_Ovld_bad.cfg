SPECIFICATION GSpec
CONSTANTS
  N = 4
  NSig = 2
  MaxOps = 10
  DeepLock = TRUE
  BadSig = 2
  UnlockOnFail = TRUE
  HotReload = FALSE
  MixinsUpdate = TRUE
  GenDepth = 10
CONSTRAINT Emit
CHECK_DEADLOCK FALSE
