SPECIFICATION GSpec
CONSTANTS
  N = 4
  NSig = 2
  MaxOps = 12
  DeepLock = TRUE
  BadSig = 0
  UnlockOnFail = TRUE
  HotReload = TRUE
  MixinsUpdate = TRUE
  GenDepth = 12
CONSTRAINT Emit
CHECK_DEADLOCK FALSE
