----------------------------- MODULE Trace_Ovld -----------------------------
(***************************************************************************)
(* Trace judge for histories over a graph of overloaded functions (C16,    *)
(* C08).  The Doc state is tracked from the *observed* outcome of every    *)
(* operation (an accepted modification takes effect, a refused one does    *)
(* not):  mix, lb, own (signature id, rank) -> method, used.               *)
(*                                                                         *)
(* Clauses                                                                 *)
(*   refused_or_visible / effective_is_overlay : a probe of node n must    *)
(*       behave like a brand-new function holding Eff(n) - the overlay of  *)
(*       the current tables of everything n derives from.  (The harness    *)
(*       builds that function; the judge checks that it was built from the *)
(*       judge's own Eff(n): premise.)                                     *)
(*   parents_untouched : the same clause on nodes that do not derive from  *)
(*       the modified node.                                                *)
(*   refusal_justified : a refused modification of n needs a node in use   *)
(*       that derives from n.                                              *)
(*   reenters_dispatcher (C08) : a recursion probe entered through node n  *)
(*       comes back with n's marker.                                       *)
(* step: [op, n, mixins, linkback, m, sid, out]                            *)
(*     | [op |-> "probe", n, obs : [kind, chain], fresh : [kind, chain],   *)
(*        fresh_eff : Seq(<<sid, rank, m>>)]                                *)
(*     | [op |-> "rprobe", n, via, marker]                                  *)
(*     | [op |-> "rprobe2", n, via, rec, direct]  chain walked by a recursion vs a direct call *)
(***************************************************************************)
EXTENDS Naturals, Integers, Sequences, FiniteSets, TLC, Json, IOUtils

Cases == JsonDeserialize(IOEnv.VF_CASES)
VARIABLES i, l, mix, lb, own, used, lastmod, bad, fin
vars == <<i, l, mix, lb, own, used, lastmod, bad, fin>>
Case == Cases[i]
NN == Case.n
Nodes == 1..NN
RangeS(s) == {s[j] : j \in DOMAIN s}
Merge(f, g) == [k \in DOMAIN f \cup DOMAIN g |-> IF k \in DOMAIN g THEN g[k] ELSE f[k]]
(* one layer over another: a signature of the upper layer replaces the lower layer's whole chain under it (Ovld.tla) *)
Overlay(f, g) ==
  LET sg == {k[1] : k \in DOMAIN g}
      keep == {k \in DOMAIN f : k[1] \notin sg}
  IN [k \in keep \cup DOMAIN g |-> IF k \in DOMAIN g THEN g[k] ELSE f[k]]

RECURSIVE EffOf(_, _, _)
EffOf(mx, ow, n) ==
  LET F[j \in 0..Len(mx[n])] == IF j = 0 THEN <<>> ELSE Overlay(F[j-1], EffOf(mx, ow, mx[n][j]))
  IN Overlay(F[Len(mx[n])], ow[n])
RECURSIVE AncOf(_, _)
AncOf(mx, n) == RangeS(mx[n]) \cup UNION {AncOf(mx, p) : p \in RangeS(mx[n])}

RECURSIVE PushDown(_, _, _, _)
PushDown(t, s, r, m) ==
  IF <<s, r>> \in DOMAIN t
  THEN Merge(PushDown(t, s, r - 1, t[<<s, r>>]), [k \in {<<s, r>>} |-> m])
  ELSE Merge(t, [k \in {<<s, r>>} |-> m])

(* unregister: drop m, then close the gap it leaves in its signature's chain  *)
(* (ranks of a signature are always 0, -1, -2 .. without holes)               *)
DropClose(t, m) ==
  LET kept == {k \in DOMAIN t : t[k] # m}
      NewK(k) == <<k[1], 0 - Cardinality({k2 \in kept : k2[1] = k[1] /\ k2[2] > k[2]})>>
  IN [kk \in {NewK(k) : k \in kept} |-> t[CHOOSE k \in kept : NewK(k) = kk]]

EffSet(n) == LET e == EffOf(mix, own, n) IN {<<k[1], k[2], e[k]>> : k \in DOMAIN e}

ProbeClause(st) ==
  LET n == st.n IN
  IF {<<st.fresh_eff[j][1], st.fresh_eff[j][2], st.fresh_eff[j][3]>> : j \in DOMAIN st.fresh_eff} # EffSet(n)
  THEN "premise.effective_set"
  ELSE IF st.obs # st.fresh
       THEN IF lastmod # 0 /\ lastmod # n /\ lastmod \notin AncOf(mix, n)
            THEN "C16:parents_untouched"
            ELSE IF lastmod # 0 THEN "C16:refused_or_visible" ELSE "C16:effective_is_overlay"
  ELSE ""

Init == /\ i \in 1..Len(Cases) /\ l = 1
        /\ mix = [n \in Nodes |-> <<>>] /\ lb = [n \in Nodes |-> FALSE]
        /\ own = [n \in Nodes |-> <<>>] /\ used = {} /\ lastmod = 0
        /\ bad = "" /\ fin = FALSE

Add(c, st) == IF c = "" THEN bad ELSE bad \o (IF bad = "" THEN "" ELSE ",") \o c \o "@" \o ToString(l) \o "#0"

Consume ==
  /\ ~fin /\ l <= Len(Case.steps)
  /\ LET st == Case.steps[l] IN
     CASE st.op = "create" ->
            /\ mix' = [mix EXCEPT ![st.n] = st.mixins] /\ lb' = [lb EXCEPT ![st.n] = st.linkback]
            /\ UNCHANGED <<own, used, lastmod>> /\ bad' = bad
       [] st.op \in {"register", "unregister", "add_mixins", "conform"} ->
            IF st.out = "refused"
            THEN /\ UNCHANGED <<mix, lb, own, used, lastmod>>
                 /\ bad' = Add(IF \E k \in used : st.n \in AncOf(mix, k) THEN "" ELSE "C16:refusal_justified", st)
            ELSE /\ own' = CASE st.op = "register" -> [own EXCEPT ![st.n] = PushDown(@, st.sid, 0, st.m)]
                             [] st.op = "unregister" ->
                                  [own EXCEPT ![st.n] = DropClose(@, st.m)]
                             \* X5 (beyond the listed properties): a hot reload = the old version unregistered, the new one registered
                             [] st.op = "conform" ->
                                  [own EXCEPT ![st.n] = PushDown(DropClose(@, st.old), st.sid, 0, st.m)]
                             [] OTHER -> own
                 /\ mix' = IF st.op = "add_mixins" THEN [mix EXCEPT ![st.n] = @ \o st.mixins] ELSE mix
                 /\ lastmod' = st.n
                 /\ UNCHANGED <<lb, used>> /\ bad' = bad
       [] st.op = "probe" ->
            /\ used' = used \cup {st.n}
            /\ bad' = Add(ProbeClause(st), st)
            /\ UNCHANGED <<mix, lb, own, lastmod>>
       [] st.op = "rprobe" ->
            \* C08: the recursion lands in the probed node itself.  C16: in particular a registration on
            \* a node this one does not derive from (a child, a sibling) must not redirect it
            /\ used' = used \cup {st.n}
            /\ bad' = LET b1 == Add(IF st.marker # st.n THEN "C08:reenters_dispatcher." \o st.via ELSE "", st) IN
                      IF st.marker # st.n /\ lastmod # 0 /\ lastmod # st.n /\ lastmod \notin AncOf(mix, st.n)
                      THEN b1 \o ",C16:parents_untouched.recursion." \o st.via \o "@" \o ToString(l) \o "#0"
                      ELSE b1
            /\ UNCHANGED <<mix, lb, own, lastmod>>
       [] st.op = "rprobe3" ->
            \* recurse(a, recurse(b, c)) = f(a, f(b, c)) for the function the call came through
            /\ used' = used \cup {st.n}
            /\ bad' = Add(IF st.rec # st.direct THEN "C08:reenters_dispatcher.nested_arguments." \o st.via ELSE "", st)
            /\ UNCHANGED <<mix, lb, own, lastmod>>
       [] st.op = "rprobe2" ->
            \* recurse(args) = calling, with those args, the function the current call came through
            /\ used' = used \cup {st.n}
            /\ bad' = Add(IF st.rec # st.direct THEN "C08:reenters_dispatcher.same_as_direct." \o st.via ELSE "", st)
            /\ UNCHANGED <<mix, lb, own, lastmod>>
       [] OTHER -> UNCHANGED <<mix, lb, own, used, lastmod>> /\ bad' = bad
  /\ l' = l + 1
  /\ UNCHANGED <<i, fin>>

Finish ==
  /\ ~fin /\ l > Len(Case.steps)
  /\ PrintT("VERDICT|" \o Case.id \o "|" \o bad \o "|kf=0;drift=0")
  /\ fin' = TRUE
  /\ UNCHANGED <<i, l, mix, lb, own, used, lastmod, bad>>

Next == Consume \/ Finish
Spec == Init /\ [][Next]_vars
=============================================================================
