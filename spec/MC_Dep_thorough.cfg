SPECIFICATION Spec
CONSTANTS
  MaxMeth = 3
  Rich = TRUE
INVARIANT EnterSoundV
INVARIANT ValueAgree
INVARIANT DeterministicV
CHECK_DEADLOCK FALSE
