---------------------------- MODULE Trace_Spell ----------------------------
(***************************************************************************)
(* C15: equivalent spellings of an annotation dispatch identically.        *)
(* Doc layer: Canon maps a spelling to the type it denotes - unions are    *)
(* sets of members whatever the syntax and the order, Optional[A] is       *)
(* A | None, a missing annotation / Any / object are object, Annotated and *)
(* string annotations denote their argument, List[A] is list[A], a Literal *)
(* is the set of its values.  The judge checks the premise (both spellings *)
(* have the same Canon) and demands identical observations in every        *)
(* surrounding method set and for every argument.                          *)
(* case: [id, s1, s2, ctxs : Seq([name, obs1 : Seq(STRING), obs2])]         *)
(***************************************************************************)
EXTENDS Naturals, Sequences, FiniteSets, TLC, Json, IOUtils

Cases == JsonDeserialize(IOEnv.VF_CASES)
VARIABLES i, fin
vars == <<i, fin>>
Case == Cases[i]

RangeS(s) == {s[j] : j \in DOMAIN s}
Cn(k, n, ms, vals) == [k |-> k, n |-> n, ms |-> ms, vals |-> vals]
ClsC(n) == Cn("cls", n, {}, {})
Members(c) == IF c.k = "union" THEN c.ms ELSE {c}
MkUnion(S) == LET flat == UNION {Members(c) : c \in S} IN
              IF Cardinality(flat) = 1 THEN CHOOSE c \in flat : TRUE ELSE Cn("union", "", flat, {})

RECURSIVE Canon(_)
Canon(t) ==
  CASE t.s = "cls" -> ClsC(t.n)
    [] t.s = "none" -> ClsC("NoneType")
    [] t.s \in {"missing", "any", "object"} -> ClsC("object")
    [] t.s \in {"Union", "Pipe", "Tuple"} -> MkUnion({Canon(a) : a \in RangeS(t.args)})
    [] t.s = "Optional" -> MkUnion({Canon(t.arg), ClsC("NoneType")})
    [] t.s \in {"Annotated", "Str"} -> Canon(t.arg)
    [] t.s \in {"List", "list"} -> Cn("list", "", {Canon(t.arg)}, {})
    [] t.s = "Literal" -> Cn("lit", "", {}, RangeS(t.vals))
    [] t.s = "typeof" -> Cn("typeof", "", {Canon(t.arg)}, {})      \* type[...]: the passed classes of what the argument denotes
    [] OTHER -> Cn("?", "", {}, {})

Verdict ==
  IF Canon(Case.s1) # Canon(Case.s2) THEN "premise.not_equivalent@0#0"
  ELSE IF \E c \in DOMAIN Case.ctxs : Case.ctxs[c].obs1 # Case.ctxs[c].obs2
  THEN LET c == CHOOSE c \in DOMAIN Case.ctxs : Case.ctxs[c].obs1 # Case.ctxs[c].obs2 IN
       "C15:same_across_spellings." \o Case.ctxs[c].name \o "@" \o ToString(c) \o "#0"
  ELSE ""

Init == i \in 1..Len(Cases) /\ fin = FALSE
Next == /\ ~fin /\ fin' = TRUE /\ UNCHANGED i
        /\ PrintT("VERDICT|" \o Case.id \o "|" \o Verdict \o "|kf=0;drift=0")
Spec == Init /\ [][Next]_vars
=============================================================================
