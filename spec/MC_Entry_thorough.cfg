SPECIFICATION Spec
CONSTANTS
  PosNames = {"x", "y", "a"}
  KwNamesC = {"k", "j"}
  MaxP = 2
  MaxMeth = 2
INVARIANT AcceptWhenPromised
INVARIANT ForwardIntact
INVARIANT NeverBadForward
INVARIANT NoDropKw
CHECK_DEADLOCK FALSE
