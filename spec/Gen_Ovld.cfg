SPECIFICATION GSpec
CONSTANTS
  N = 4
  NSig = 2
  MaxOps = 12
  DeepLock = TRUE
  MixinsUpdate = TRUE
  GenDepth = 12
CONSTRAINT Emit
CHECK_DEADLOCK FALSE
