------------------------------ MODULE Dependent ------------------------------
(***************************************************************************)
(* Impl layer for value-dependent dispatch (C10, C11).                     *)
(*                                                                         *)
(* At type level the rank list is computed as for static types (the        *)
(* dependent types take part in the per-position layering through          *)
(* ImplOrderT / ImplSubT).  resolve() then builds, from the last rank to   *)
(* the first, one callable per rank:                                       *)
(*   - no dependent handler in the rank: the handler itself if it is alone,*)
(*     nothing (None) if several are tied;                                 *)
(*   - otherwise a generated dispatcher (wrap_dependent) over the rank's   *)
(*     handlers, in list order, with one of three strategies               *)
(*       exclusive : if-chain, first handler whose condition holds         *)
(*       keyed     : one lookup table value -> handler (Literal only)      *)
(*       counting  : evaluate all; exactly one -> it, none -> fall through,*)
(*                   several -> the ambiguity error                        *)
(*     and FALLTHROUGH = the next rank's callable; below the last rank     *)
(*     "No method", into a tied static rank that rank's ambiguity error.   *)
(* A static handler inside a dependent rank has the condition TRUE.        *)
(* The condition of a dependent type is its check only (user predicate /   *)
(* value equality): the bound is guaranteed by the type-level candidates.  *)
(***************************************************************************)
EXTENDS ResolveImpl

IsDepTerm(t) == t.k # "cls"
IsDepMeth(m) == (\E p \in DOMAIN m.pos : IsDepTerm(m.pos[p])) \/ (\E q \in DOMAIN m.kwt : IsDepTerm(m.kwt[q]))

(* the generated condition for one argument *)
CondT(t, a) ==
  IF t.k = "dep" THEN a.name \in Range(t.holds)
  ELSE IF t.k = "lit" THEN \E j \in DOMAIN t.vals : ValEq(t.vals[j], a.v)
  ELSE TRUE
CondM(m, call) ==
  /\ \A p \in DOMAIN call.pos : CondT(m.pos[p], call.pos[p])
  /\ \A q \in DOMAIN call.kwn : HasKw(m, call.kwn[q]) => CondT(m.kwt[KwIdx(m, call.kwn[q])], call.kwa[q])

(* strategy selection of generate_dependent_dispatch for one dispatched    *)
(* position (H = the rank's methods in list order)                         *)
LitKeys(m) == {m.pos[1].vals[j] : j \in DOMAIN m.pos[1].vals}
Strategy(H) ==
  IF Len(H) = 1 THEN "exclusive"
  ELSE IF /\ \A j \in DOMAIN H : Len(H[j].pos) = 1 /\ H[j].pos[1].k = "lit"
          /\ \A j, q \in DOMAIN H : j # q => ~SameT(H[j].pos[1], H[q].pos[1])
       THEN IF ~(\A j, q \in DOMAIN H : j # q => LitKeys(H[j]) \cap LitKeys(H[q]) = {}) THEN "counting"
            ELSE IF Len(H) < 4 THEN "exclusive" ELSE "keyed"
  ELSE "counting"

(* outcome of a rank's dispatcher on the actual values; fall = what        *)
(* FALLTHROUGH yields                                                      *)
FirstHolding(H, call) == CHOOSE j \in DOMAIN H : CondM(H[j], call) /\ \A q \in 1..(j-1) : ~CondM(H[q], call)
LastKeyed(H, call) == CHOOSE j \in DOMAIN H : CondM(H[j], call) /\ \A q \in (j+1)..Len(H) : ~CondM(H[q], call)
WrapperOut(H, call, fall) ==
  LET holding == {j \in DOMAIN H : CondM(H[j], call)} IN
  CASE Strategy(H) = "exclusive" ->
         IF holding = {} THEN fall ELSE [kind |-> "run", m |-> H[FirstHolding(H, call)].id]
    [] Strategy(H) = "keyed" ->
         \* {**a, **b}: the last handler listing the key wins
         IF holding = {} THEN fall ELSE [kind |-> "run", m |-> H[LastKeyed(H, call)].id]
    [] OTHER ->
         IF Cardinality(holding) = 1 THEN [kind |-> "run", m |-> H[CHOOSE j \in holding : TRUE].id]
         ELSE IF holding = {} THEN fall ELSE Ambiguous

(* ranks as sequences of method records *)
MethOfCand(M, c) == CHOOSE m \in M : m.id = c.m
RankMeths(M, ranks) == [k \in DOMAIN ranks |-> [j \in DOMAIN ranks[k] |-> MethOfCand(M, ranks[k][j])]]

(* callable of rank k: "none" (tied static rank), or an outcome function evaluated on the call *)
RECURSIVE RankOut(_, _, _)
RankOut(R, k, call) ==
  \* R = RankMeths; returns [has |-> BOOLEAN, out |-> outcome]
  LET H == R[k]
      dep == \E j \in DOMAIN H : IsDepMeth(H[j])
      nextr == IF k < Len(R) THEN RankOut(R, k + 1, call) ELSE [has |-> FALSE, out |-> NoMethod]
      \* a tied static rank below raises its ambiguity error (out = Ambiguous), the end "No method"
      fall == nextr.out
  IN IF dep THEN [has |-> TRUE, out |-> WrapperOut(H, call, fall)]
     ELSE IF Len(H) = 1 THEN [has |-> TRUE, out |-> [kind |-> "run", m |-> H[1].id]]
     ELSE [has |-> FALSE, out |-> Ambiguous]

ImplValueOutcomeOf(M, ranks, call) ==
  IF ranks = <<>> THEN NoMethod
  ELSE LET r == RankOut(RankMeths(M, ranks), 1, call) IN
       IF r.has THEN r.out ELSE Ambiguous

ImplValueOutcomes(W, M, call) == {ImplValueOutcomeOf(M, r, call) : r \in RankLists(W, M, call)}

(* call_next from method mid with `call` (possibly other values): the entry (code of mid, classes)  *)
(* published by resolve() is the callable of the rank after mid's rank; nothing is published from   *)
(* the first tied static rank on; a method that is no candidate for the classes starts afresh       *)
FirstTiedV(R, call) ==
  IF \E k \in DOMAIN R : ~RankOut(R, k, call).has
  THEN CHOOSE k \in DOMAIN R : ~RankOut(R, k, call).has /\ \A q \in 1..(k-1) : RankOut(R, q, call).has
  ELSE Len(R) + 1
ImplValueNextOf(M, ranks, mid, call) ==
  IF ranks = <<>> THEN NoMethod
  ELSE LET R == RankMeths(M, ranks) IN
       IF ~RankOut(R, 1, call).has THEN Ambiguous
       ELSE IF ~InRanks(ranks, mid) THEN ImplValueOutcomeOf(M, ranks, call)
       ELSE LET k == RankOfIn(ranks, mid)  ft == FirstTiedV(R, call) IN
            IF k < ft /\ k + 1 <= Len(ranks)
            THEN LET r == RankOut(R, k + 1, call) IN IF r.has THEN r.out ELSE Ambiguous
            ELSE NoMethod

(***************************************************************************)
(* Input signatures of the known deviations                                *)
(***************************************************************************)
AppV(W, M, call) == ApplicableSet(W, M, call)
(* a dependent rank falls through into a tied static rank: "No method" instead of "Ambiguous" *)
KF_fallthrough_tied(W, M, call) ==
  \E a, b \in AppV(W, M, call) : a # b /\ ~IsDepMeth(a) /\ ~IsDepMeth(b) /\ a.prio = b.prio
     /\ ~Beats(W, a, b, call) /\ ~Beats(W, b, a, call)
     /\ \E d \in M : IsDepMeth(d) /\ ~Applicable(W, d, call) /\ ArityOk(d, call)
(* overlapping Literal methods that the table / if-chain strategies do not count *)
KF_overlap_literals(W, M, call) ==
  \E a, b \in AppV(W, M, call) : a # b /\ a.prio = b.prio /\ a.pos[1].k = "lit" /\ b.pos[1].k = "lit"
(* _pull: a rank is "the best candidate plus everything it does not dominate": when the best  *)
(* candidate is a dependent method whose condition fails, methods it dominated are skipped     *)
(* d is a candidate for the argument classes (what the type table looks at) *)
TypeCand(W, d, call) ==
  /\ ArityOk(d, call) /\ KwNamesOk(d, call)
  /\ \A p \in DOMAIN call.pos : ImplSubT(W, call.pos[p].c, d.pos[p])
  /\ \A q \in DOMAIN call.kwn : ImplSubT(W, call.kwa[q].c, d.kwt[KwIdx(d, call.kwn[q])])
KF_pull_rank(W, M, call) ==
  \E d \in M : IsDepMeth(d) /\ ~Applicable(W, d, call) /\ TypeCand(W, d, call)
(* call_next(other values): the continuation is looked up by (calling method, argument classes); a  *)
(* calling method that is a candidate for the classes of the new arguments but not applicable to    *)
(* their values is still treated as "current" - the call continues below its rank instead of        *)
(* starting afresh                                                                                   *)
(* (and, when it is applicable, below its rank computed on classes: methods tied with it there that  *)
(* hold for the new values are skipped).  Signature: the calling method is a candidate for the new    *)
(* argument classes and so is some value-dependent method.                                            *)
KF_next_other_value(W, M, m, call) ==
  TypeCand(W, m, call) /\ \E d \in M : IsDepMeth(d) /\ TypeCand(W, d, call)
=============================================================================
