------------------------------- MODULE Build -------------------------------
(***************************************************************************)
(* The lazy build of an overloaded function as steps (C18, C19).           *)
(*                                                                         *)
(* Shared state (one function):                                            *)
(*   entry     "boot" (first_entry: build, then re-dispatch) | "gen"       *)
(*   compiled  the _compiled flag                                          *)
(*   cur       id of the table object currently in self.map                *)
(*   gmap      id of the table that was in self.map when the generated     *)
(*             entry point was swapped in (history only: the entry point   *)
(*             evaluates OVLD.map at every call, so a call running the     *)
(*             generated code while a later build fills a new self.map     *)
(*             dispatches over that new, partial table)                    *)
(*   tbl       table id -> bag of method ids registered in it              *)
(*   lockh     holder of the build lock (0 = free)          [UseLock]      *)
(*   regd      the registered method set (Unregister removes)              *)
(*   an        the argument analysis: an.obj = what self.argument_analysis *)
(*             holds ("none" | "empty" | "full"), an.gen = the analysis    *)
(*             the generated entry point was made from, an.peeked[t] = the *)
(*             thread has read inspect.signature(f) for its next call      *)
(*             (what a Callable[[..], ..] annotation of another function   *)
(*             does with an overloaded argument on every call: it runs     *)
(*             analyze_arguments outside the build lock)  [Peekers]        *)
(* Per thread t: pc, k (next method to register), res (outcome of its      *)
(* call), plus whether it still has a call to make.                        *)
(*                                                                         *)
(* compile() =  NewMap ; Analyze ; Generate ; [Swap] ; RegisterOne* ;      *)
(*              [Swap] ; SetCompiled          (Swap first / last: SwapLast) *)
(* A Fail step may strike a building thread anywhere (an invalid method,   *)
(* a raising user hook, an interrupt); RestoreOnFail = the handler that    *)
(* puts the bootstrap entry back and clears _compiled.                     *)
(*                                                                         *)
(* A call through the generated entry dispatches over tbl[cur] as it is    *)
(* at that moment.  Methods are abstract: method ids are ranks, the        *)
(* correct answer is the highest registered id, a method registered twice  *)
(* in one table makes the answer "ambiguous", an empty table "nomethod".   *)
(* Method BadM (if any) makes RegisterOne raise.                           *)
(***************************************************************************)
EXTENDS Naturals, Integers, Sequences, FiniteSets, TLC

CONSTANTS Threads, NMeth, BadM, MaxFail,
          SwapLast, RestoreOnFail, UseLock, CallsPer,
          Peekers,          \* threads that read the signature before each of their calls
          AtomicAnalysis    \* TRUE: the analysis is published when complete; FALSE: assigned empty, then refilled in place

VARIABLES entry, compiled, cur, gmap, tbl, lockh, regd, pc, k, res, todo, nfail, ntbl, an
vars == <<entry, compiled, cur, gmap, tbl, lockh, regd, pc, k, res, todo, nfail, ntbl, an>>

Meths == 1..NMeth
Bag0 == [m \in Meths |-> 0]

(* answers are integers: m > 0 a method, 0 "No method", -1 "Ambiguous", -2 configuration error *)
NoMeth == 0
Ambig == 0 - 1
Config == 0 - 2
Broken == 0 - 3     \* the generated entry point was made from an empty analysis ("f() takes 0 positional arguments")
\* @type: (Int -> Int) => Int;
Answer(b) ==
  IF \A m \in Meths : b[m] = 0 THEN NoMeth
  ELSE LET top == CHOOSE m \in Meths : b[m] > 0 /\ \A o \in Meths : b[o] > 0 => o <= m IN
       IF b[top] > 1 THEN Ambig ELSE top

Correct == IF regd = {} THEN NoMeth ELSE CHOOSE m \in regd : \A o \in regd : o <= m
Buildable == BadM \notin regd

Init ==
  /\ entry = "boot" /\ compiled = FALSE /\ cur = 0 /\ gmap = 0 /\ tbl = [j \in 1..0 |-> Bag0] /\ lockh = 0
  /\ regd = Meths
  /\ pc = [t \in Threads |-> "idle"] /\ k = [t \in Threads |-> 0]
  /\ res = [t \in Threads |-> <<>>] /\ todo = [t \in Threads |-> CallsPer]
  /\ nfail = 0 /\ ntbl = 0
  /\ an = [obj |-> "none", gen |-> "none", peeked |-> [t \in Threads |-> FALSE]]

(* ---- a call ---- *)
(* inspect.signature(f).parameters -> Ovld.analyze_arguments, outside the build lock *)
PeekStart(t) ==
  /\ t \in Peekers /\ pc[t] = "idle" /\ todo[t] > 0 /\ ~an.peeked[t]
  /\ IF AtomicAnalysis
     THEN /\ an' = [an EXCEPT !.obj = "full", !.peeked[t] = TRUE]
          /\ UNCHANGED pc
     ELSE /\ an' = [an EXCEPT !.obj = "empty"]
          /\ pc' = [pc EXCEPT ![t] = "peekfill"]
  /\ UNCHANGED <<entry, compiled, cur, gmap, tbl, lockh, regd, k, res, todo, nfail, ntbl>>

PeekFill(t) ==
  /\ pc[t] = "peekfill"
  /\ an' = [an EXCEPT !.obj = "full", !.peeked[t] = TRUE]
  /\ pc' = [pc EXCEPT ![t] = "idle"]
  /\ UNCHANGED <<entry, compiled, cur, gmap, tbl, lockh, regd, k, res, todo, nfail, ntbl>>

StartCall(t) ==
  /\ pc[t] = "idle" /\ todo[t] > 0
  /\ t \in Peekers => an.peeked[t]
  /\ todo' = [todo EXCEPT ![t] = @ - 1]
  /\ IF entry = "boot"
     THEN pc' = [pc EXCEPT ![t] = IF UseLock THEN "acquire" ELSE "newmap"]
     ELSE pc' = [pc EXCEPT ![t] = "dispatch"]
  /\ an' = [an EXCEPT !.peeked[t] = FALSE]
  /\ UNCHANGED <<entry, compiled, cur, gmap, tbl, lockh, regd, k, res, nfail, ntbl>>

Acquire(t) ==
  /\ pc[t] = "acquire" /\ lockh = 0
  /\ lockh' = t
  /\ pc' = [pc EXCEPT ![t] = IF compiled THEN "release" ELSE "newmap"]
  /\ UNCHANGED <<entry, compiled, cur, gmap, tbl, regd, k, res, todo, nfail, ntbl, an>>

NewMap(t) ==
  /\ pc[t] = "newmap"
  /\ ntbl' = ntbl + 1
  /\ cur' = ntbl + 1
  /\ tbl' = [j \in DOMAIN tbl \cup {ntbl + 1} |-> IF j = ntbl + 1 THEN Bag0 ELSE tbl[j]]
  /\ pc' = [pc EXCEPT ![t] = "analyze"]
  /\ UNCHANGED <<entry, compiled, gmap, lockh, regd, k, res, todo, nfail, an>>

(* analyze_arguments + generate_dispatch.  Published when complete (AtomicAnalysis): one step, the entry point  *)
(* is generated from the builder's own, complete analysis.  In place (~AtomicAnalysis): the shared attribute is  *)
(* first assigned an empty analysis, refilled, and read back by generate_dispatch - three steps, between which  *)
(* a reader of the signature may assign / refill it too.                                                        *)
AfterGen == IF SwapLast THEN "reg" ELSE "swap"
Analyze(t) ==
  /\ pc[t] = "analyze"
  /\ IF AtomicAnalysis
     THEN /\ an' = [an EXCEPT !.obj = "full", !.gen = "full"]
          /\ pc' = [pc EXCEPT ![t] = AfterGen]
          /\ k' = [k EXCEPT ![t] = 1]
     ELSE /\ an' = [an EXCEPT !.obj = "empty"]
          /\ pc' = [pc EXCEPT ![t] = "fill"]
          /\ UNCHANGED k
  /\ UNCHANGED <<entry, compiled, cur, gmap, tbl, lockh, regd, res, todo, nfail, ntbl>>

Fill(t) ==
  /\ pc[t] = "fill"
  /\ an' = [an EXCEPT !.obj = "full"]
  /\ pc' = [pc EXCEPT ![t] = "generate"]
  /\ UNCHANGED <<entry, compiled, cur, gmap, tbl, lockh, regd, k, res, todo, nfail, ntbl>>

Generate(t) ==
  /\ pc[t] = "generate"
  /\ an' = [an EXCEPT !.gen = an.obj]
  /\ pc' = [pc EXCEPT ![t] = AfterGen]
  /\ k' = [k EXCEPT ![t] = 1]
  /\ UNCHANGED <<entry, compiled, cur, gmap, tbl, lockh, regd, res, todo, nfail, ntbl>>

Swap(t) ==
  /\ pc[t] = "swap"
  /\ entry' = "gen" /\ gmap' = cur
  /\ pc' = [pc EXCEPT ![t] = IF SwapLast THEN "setcompiled" ELSE "reg"]
  /\ UNCHANGED <<compiled, cur, tbl, lockh, regd, k, res, todo, nfail, ntbl, an>>

(* register_signature re-reads self.map: the table is `cur` *now* *)
RegisterOne(t) ==
  /\ pc[t] = "reg" /\ k[t] <= NMeth
  /\ IF k[t] \in regd
     THEN IF k[t] = BadM
          THEN \* the invalid method raises out of the build
               /\ res' = [res EXCEPT ![t] = Append(@, Config)]
               /\ IF RestoreOnFail
                  THEN entry' = "boot" /\ compiled' = FALSE
                  ELSE UNCHANGED <<entry, compiled>>
               /\ lockh' = IF lockh = t THEN 0 ELSE lockh
               /\ pc' = [pc EXCEPT ![t] = "idle"]
               /\ UNCHANGED <<tbl, k>>
          ELSE /\ tbl' = [tbl EXCEPT ![cur] = [@ EXCEPT ![k[t]] = @ + 1]]
               /\ k' = [k EXCEPT ![t] = @ + 1]
               /\ UNCHANGED <<entry, compiled, lockh, pc, res>>
     ELSE /\ k' = [k EXCEPT ![t] = @ + 1]
          /\ UNCHANGED <<entry, compiled, lockh, pc, res, tbl>>
  /\ UNCHANGED <<cur, gmap, regd, todo, nfail, ntbl, an>>

EndReg(t) ==
  /\ pc[t] = "reg" /\ k[t] > NMeth
  /\ pc' = [pc EXCEPT ![t] = IF SwapLast THEN "swap" ELSE "setcompiled"]
  /\ UNCHANGED <<entry, compiled, cur, gmap, tbl, lockh, regd, k, res, todo, nfail, ntbl, an>>

SetCompiled(t) ==
  /\ pc[t] = "setcompiled"
  /\ compiled' = TRUE
  /\ pc' = [pc EXCEPT ![t] = IF UseLock THEN "release" ELSE "dispatch"]
  /\ UNCHANGED <<entry, cur, gmap, tbl, lockh, regd, k, res, todo, nfail, ntbl, an>>

Release(t) ==
  /\ pc[t] = "release"
  /\ lockh' = 0
  /\ pc' = [pc EXCEPT ![t] = "dispatch"]
  /\ UNCHANGED <<entry, compiled, cur, gmap, tbl, regd, k, res, todo, nfail, ntbl, an>>

Dispatch(t) ==
  /\ pc[t] = "dispatch"
  /\ res' = [res EXCEPT ![t] = Append(@, IF an.gen = "full" THEN Answer(tbl[cur]) ELSE Broken)]
  /\ pc' = [pc EXCEPT ![t] = "idle"]
  /\ UNCHANGED <<entry, compiled, cur, gmap, tbl, lockh, regd, k, todo, nfail, ntbl, an>>

(* an exception / interrupt at an arbitrary point of a build *)
Fail(t) ==
  /\ nfail < MaxFail
  \* "release": between _compiled = True and the end of compile() the handler still applies
  /\ pc[t] \in {"newmap", "analyze", "fill", "generate", "swap", "reg", "setcompiled"} \cup (IF UseLock /\ lockh = t THEN {"release"} ELSE {})
  /\ nfail' = nfail + 1
  /\ res' = [res EXCEPT ![t] = Append(@, Config)]
  /\ IF RestoreOnFail THEN entry' = "boot" /\ compiled' = FALSE ELSE UNCHANGED <<entry, compiled>>
  /\ lockh' = IF lockh = t THEN 0 ELSE lockh
  /\ pc' = [pc EXCEPT ![t] = "idle"]
  /\ UNCHANGED <<cur, gmap, tbl, regd, k, todo, ntbl, an>>

(* the offending method is removed (function not yet successfully built:     *)
(* _update does not rebuild, the next call does)                             *)
RemoveBad ==
  /\ BadM \in regd /\ \A t \in Threads : pc[t] = "idle"
  /\ regd' = regd \ {BadM}
  /\ UNCHANGED <<entry, compiled, cur, gmap, tbl, lockh, pc, k, res, todo, nfail, ntbl, an>>

AllDone == \A t \in Threads : pc[t] = "idle" /\ todo[t] = 0
Done == AllDone /\ UNCHANGED vars

Next ==
  \/ Done
  \/ \E t \in Threads :
       \/ PeekStart(t) \/ PeekFill(t)
       \/ StartCall(t) \/ Acquire(t) \/ NewMap(t) \/ Analyze(t) \/ Fill(t) \/ Generate(t) \/ Swap(t) \/ RegisterOne(t)
       \/ EndReg(t) \/ SetCompiled(t) \/ Release(t) \/ Dispatch(t) \/ Fail(t)
  \/ RemoveBad

Spec == Init /\ [][Next]_vars

-----------------------------------------------------------------------------
(* C18 + C19: a call that gets as far as dispatching does so over a table   *)
(* holding exactly the complete registered set (which must be buildable);    *)
(* the only other way a call ends is a configuration error raised by the     *)
(* build itself (Fail / the invalid method).                                 *)
AnswersCorrect ==
  [][\A t \in Threads :
       (pc[t] = "dispatch" /\ pc'[t] = "idle") => (Buildable /\ an.gen = "full" /\ Answer(tbl[cur]) = Correct)]_vars

(* C19 (MaxFail = 0, BadM = 0): every call returns what it would alone *)
EachAsAlone ==
  \A t \in Threads : \A j \in DOMAIN res[t] : res[t][j] = Correct \/ res[t][j] = Config

FinalStateCorrect ==
  AllDone => (entry = "gen" => (compiled /\ Buildable /\ an.gen = "full" /\ Answer(tbl[cur]) = Correct))

(* after the offender is gone and no more faults strike, calls succeed *)
RecoversAfterRemoval ==
  [][\A t \in Threads :
       (pc[t] = "dispatch" /\ pc'[t] = "idle" /\ BadM \notin regd) => Answer(tbl[cur]) = Correct]_vars
=============================================================================
