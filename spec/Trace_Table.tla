---------------------------- MODULE Trace_Table ----------------------------
(***************************************************************************)
(* Trace judge for histories on one overloaded function (C04, C05, C20).   *)
(*                                                                         *)
(* Doc state tracked through the history:                                  *)
(*   live  the registered methods in registration order - register appends,*)
(*         unregister removes (every entry holding that function), a       *)
(*         re-registration of an identical signature is just another       *)
(*         append: "the most recently registered wins" is then a fact      *)
(*         about registration order, which a brand-new function built by   *)
(*         registering `live` in order reproduces                          *)
(*   succ  the calls (argument-type combinations) handled successfully     *)
(*         since the last change of the method set                         *)
(*                                                                         *)
(* The oracle of C04 / C05 is the one the statements name: the same call   *)
(* on a brand-new function built from the resulting method set; the        *)
(* harness records it next to the observation and reports which method     *)
(* list it built the fresh function from - the judge checks that list      *)
(* against its own `live` (premise) before comparing.                      *)
(*                                                                         *)
(* step: [op |-> "register" | "unregister", m]                             *)
(*     | [op |-> "conform", m, to, out]      (X5, beyond the properties)   *)
(*     | [op |-> "call", call, obs, fresh, fresh_methods, counts]          *)
(***************************************************************************)
EXTENDS Naturals, Sequences, FiniteSets, TLC, Json, IOUtils

Cases == JsonDeserialize(IOEnv.VF_CASES)

VARIABLES i, l, live, succ, succc, bad, fin
vars == <<i, l, live, succ, succc, bad, fin>>

Case  == Cases[i]
Props == {Case.props[j] : j \in DOMAIN Case.props}

NoReplace == "noreplace" \in DOMAIN Case /\ Case.noreplace = TRUE
\* X5 (beyond the listed properties): histories with hot reloads; every clause of such a case is reported under X5
HotReload == "x5" \in DOMAIN Case /\ Case.x5 = TRUE
Remove(s, x) == SelectSeq(s, LAMBDA y : y # x)
InSeq(s, x) == \E j \in DOMAIN s : s[j] = x

ObsKey(o) == <<IF o.kind = "rejected" THEN "nomethod" ELSE o.kind,
               [j \in DOMAIN o.entered |-> o.entered[j].m], o.ret>>

CallClause(st) ==
  LET c45 == IF ("C04" \in Props \/ "C05" \in Props)
             THEN IF st.fresh_methods # live THEN "premise.method_set"
                  \* the error object of a failing call is this call's own: not the one an earlier call was given
                  \* (whose traceback and notes it would carry along)
                  ELSE IF "reused" \in DOMAIN st.obs THEN (IF HotReload THEN "X5:same_as_rebuilt_after_hot_reload" ELSE IF "C05" \in Props THEN "C05:same_as_rebuilt" ELSE "C04:same_as_fresh") \o ".error_object_of_an_earlier_call"
                  ELSE IF ObsKey(st.obs) # ObsKey(st.fresh)
                       THEN (IF HotReload
                             \* fresh0 (recorded only where it differs in priorities): the brand-new function with the priorities
                             \* the code registered - a disagreement it explains is the loss of the priority, nothing else
                             THEN (IF "fresh0" \in DOMAIN st /\ ObsKey(st.obs) = ObsKey(st.fresh0)
                                   THEN "X5:hot_reload_keeps_priority" ELSE "X5:same_as_rebuilt_after_hot_reload")
                             ELSE IF "C05" \in Props THEN "C05:same_as_rebuilt" ELSE "C04:same_as_fresh")
                  ELSE ""
             ELSE ""
      Combos(x) == IF "combos" \in DOMAIN x THEN {x.combos[j] : j \in DOMAIN x.combos} ELSE {}
      \* every argument-type combination this call dispatched on (itself and through recurse / call_next, keywords
      \* in any order) has been handled since the last change: nothing is left to resolve
      c20n == IF "C20" \in Props /\ st.call \notin succ /\ Combos(st) # {} /\ Combos(st) \subseteq succc /\ st.obs.kind = "run"
                 /\ st.counts.user # 0
              THEN "C20:no_recompute_after_success.user_hook_consulted.combination_seen_before" ELSE ""
      c20 == IF c20n # "" THEN c20n ELSE IF "C20" \in Props /\ st.call \in succ
             THEN IF st.counts.user # 0 THEN "C20:no_recompute_after_success.user_hook_consulted"
                  ELSE IF st.counts.tm_miss # 0 THEN "C20:no_recompute_after_success.type_order_recomputed"
                  ELSE IF st.counts.plain_miss # 0 THEN "C20:no_recompute_after_success.resolution_rerun"
                  ELSE ""
             ELSE ""
  IN IF c45 # "" THEN c45 ELSE c20

Init == /\ i \in 1..Len(Cases)
        /\ l = 1 /\ live = <<>> /\ succ = {} /\ succc = {} /\ bad = "" /\ fin = FALSE

Consume ==
  /\ ~fin /\ l <= Len(Case.steps)
  /\ LET st == Case.steps[l] IN
     CASE st.op = "register" ->
            \* X3 (beyond the listed properties): a function created with allow_replacement=False refuses a method
            \* whose signature (Resolve.tla SigNP, and priority) a registered method already has, and stays as it was
            LET refused == "out" \in DOMAIN st /\ st.out = "refused"
                x3 == IF NoReplace
                      THEN (IF refused # (\E j \in DOMAIN live : Case.sigs[live[j]] = Case.sigs[st.m])
                            THEN "X3:refused_iff_same_signature" ELSE "")
                      ELSE (IF refused THEN "X3:refused_without_being_asked" ELSE "")
            IN
            /\ live' = IF refused THEN live ELSE Append(live, st.m)
            /\ succ' = (IF refused THEN succ ELSE {})
            /\ succc' = (IF refused THEN succc ELSE {})
            /\ bad' = IF InSeq(live, st.m) /\ bad = "" THEN "premise.double_register@" \o ToString(l)
                      ELSE IF x3 # "" THEN bad \o (IF bad = "" THEN "" ELSE ",") \o x3 \o "@" \o ToString(l) \o "#0"
                      ELSE bad
       [] st.op = "unregister" ->
            /\ live' = Remove(live, st.m)
            /\ succ' = {} /\ succc' = {}
            /\ bad' = bad
       [] st.op = "conform" ->
            \* X5: a hot reload (Conformer.__conform__) is one implementation step made of two specification steps -
            \* the old version is unregistered, the new one (if any: to = "" deletes the method) registered in its
            \* place, with the priority the old version had (the harness builds the brand-new function that way)
            /\ live' = (IF st.to = "" THEN Remove(live, st.m) ELSE Append(Remove(live, st.m), st.to))
            /\ succ' = {} /\ succc' = {}
            /\ bad' = IF ~InSeq(live, st.m) \/ (st.to # "" /\ InSeq(live, st.to)) THEN (IF bad = "" THEN "premise.conform@" \o ToString(l) ELSE bad)
                      ELSE IF st.out # "ok" THEN bad \o (IF bad = "" THEN "" ELSE ",") \o "X5:hot_reload_completes@" \o ToString(l) \o "#0"
                      ELSE bad
       [] OTHER ->
            /\ live' = live
            /\ succ' = IF st.obs.kind = "run" THEN succ \cup {st.call} ELSE succ
            /\ succc' = IF st.obs.kind = "run" /\ "combos" \in DOMAIN st THEN succc \cup {st.combos[j] : j \in DOMAIN st.combos} ELSE succc
            /\ LET c == CallClause(st) IN
               bad' = IF c # "" THEN bad \o (IF bad = "" THEN "" ELSE ",") \o c \o "@" \o ToString(l) \o "#0"
                      ELSE bad
  /\ l' = l + 1
  /\ UNCHANGED <<i, fin>>

Finish ==
  /\ ~fin /\ l > Len(Case.steps)
  /\ PrintT("VERDICT|" \o Case.id \o "|" \o bad \o "|kf=0;drift=0")
  /\ fin' = TRUE
  /\ UNCHANGED <<i, l, live, succ, succc, bad>>

Next == Consume \/ Finish
Spec == Init /\ [][Next]_vars
=============================================================================
