----------------------------- MODULE MC_Resolve -----------------------------
(***************************************************************************)
(* Exhaustive model check  Impl => Doc  for static resolution.             *)
(* The *world* is the state: classes are added one at a time (any set of   *)
(* earlier classes as parents), then methods (a non-decreasing sequence of *)
(* codes - equal codes are re-registrations of an identical signature),    *)
(* then one call.  Invariants are evaluated on complete worlds.            *)
(*   C02  DocImplAgree, ResolveChain                                       *)
(*   C06  Deterministic (every tie order sigma gives one outcome)          *)
(*   C01  EnterSound                                                       *)
(*   C07  ChainAgree                                                       *)
(* Census prints every complete world where Impl and Doc disagree, as a    *)
(* JSON case the harness replays on the real code.                         *)
(***************************************************************************)
EXTENDS ResolveImpl, TLC, Json

CONSTANTS MaxUser,     \* user classes (besides object)
          NPos,        \* maximal number of positional parameters
          MaxMeth,     \* methods per world
          Prios,       \* sequence of priorities, e.g. <<0, 1>>
          DoCensus     \* print disagreeing worlds

VARIABLES par, mcodes, call, phase
vars == <<par, mcodes, call, phase>>

NCls == Len(par)
NP   == Len(Prios)

RECURSIVE Pow(_, _)
Pow(b, e) == IF e = 0 THEN 1 ELSE b * Pow(b, e - 1)

(* number of codes for arity a, and offsets *)
CodesOf(a) == Pow(NCls, a) * NP
RECURSIVE Offset(_)
Offset(a) == IF a = 1 THEN 0 ELSE Offset(a - 1) + CodesOf(a - 1)
TotalCodes == Offset(NPos) + CodesOf(NPos)

ArityOfCode(k) == CHOOSE a \in 1..NPos : Offset(a) <= k /\ k < Offset(a) + CodesOf(a)

Decode(k, j) ==
  LET a   == ArityOfCode(k)
      r   == k - Offset(a)
      pr  == Prios[(r % NP) + 1]
      tt  == r \div NP
      typ == [p \in 1..a |-> [k |-> "cls", c |-> ((tt \div Pow(NCls, p - 1)) % NCls) + 1]]
  IN [id |-> j, prio |-> pr, reg |-> j, pos |-> typ, reqpos |-> a,
      kwn |-> <<>>, kwt |-> <<>>, kwreq |-> <<>>]

M == {Decode(mcodes[j], j) : j \in DOMAIN mcodes}
W == [anc |-> AncFromParents(par), attrs |-> [c \in 1..NCls |-> {}], n |-> NCls]

Init == /\ par = << <<>> >>
        /\ mcodes = <<>>
        /\ call = <<>>
        /\ phase = "classes"

AddClass ==
  /\ phase = "classes" /\ NCls < MaxUser + 1
  /\ \E T \in SUBSET (2..NCls) :
       par' = Append(par, IF T = {} THEN <<1>> ELSE SetToSortedSeq(T))
  /\ UNCHANGED <<mcodes, call, phase>>

EndClasses ==
  /\ phase = "classes" /\ NCls >= 2
  /\ phase' = "methods"
  /\ UNCHANGED <<par, mcodes, call>>

AddMethod ==
  /\ phase = "methods" /\ Len(mcodes) < MaxMeth
  /\ \E k \in 0..(TotalCodes - 1) :
       /\ IF mcodes = <<>> THEN TRUE ELSE k >= mcodes[Len(mcodes)]
       /\ mcodes' = Append(mcodes, k)
  /\ UNCHANGED <<par, call, phase>>

PickCall ==
  /\ phase = "methods" /\ Len(mcodes) >= 1
  /\ \E a \in 1..NPos : \E f \in [1..a -> 1..NCls] :
       call' = [pos |-> [p \in 1..a |-> [c |-> f[p]]], kwn |-> <<>>, kwa |-> <<>>]
  /\ phase' = "done"
  /\ UNCHANGED <<par, mcodes>>

Next == AddClass \/ EndClasses \/ AddMethod \/ PickCall
Spec == Init /\ [][Next]_vars

-----------------------------------------------------------------------------
Done == phase = "done"
DocOut == Outcome(W, ApplicableSet(W, M, call), call)
ImplOuts == ImplOutcomes(W, M, call)
MethById(id) == CHOOSE m \in M : m.id = id

KF == KF_levels(W, M, call)

Deterministic == Done => Cardinality(ImplOuts) = 1

DocImplAgree == Done => \A o \in ImplOuts : o = DocOut

DocImplAgreeStrict == Done => \A o \in ImplOuts : o = DocOut

EnterSound ==
  Done => \A o \in ImplOuts : o.kind = "run" => Applicable(W, MethById(o.m), call)

(* C06: a method that is not applicable to the call is irrelevant to it *)
IrrelevantFree ==
  Done => \A x \in M : ~Applicable(W, x, call) =>
                ImplOutcomes(W, M \ {x}, call) = ImplOuts

NextMatches(d, o) ==
  \/ d = o
  \/ d.kind = "anyerror" /\ o.kind \in {"ambiguous", "nomethod"}

ChainAgree ==
  Done => \A m \in M : \A o \in ImplNexts(W, M, m.id, call) :
                NextMatches(NextOutcome(W, M, m, call), o)

ChainSound ==
  Done => \A m \in M : \A o \in ImplNexts(W, M, m.id, call) :
             o.kind = "run" => Applicable(W, MethById(o.m), call)

(* the signature is not vacuous and not trivially true *)
Disagree == Done /\ \E o \in ImplOuts : o # DocOut

WorldJson == [parents |-> par,
              methods |-> [j \in DOMAIN mcodes |->
                 LET m == Decode(mcodes[j], j) IN
                 [id |-> "m" \o ToString(j), prio |-> m.prio, reg |-> j, pos |-> m.pos,
                  reqpos |-> m.reqpos, kwn |-> <<>>, kwt |-> <<>>, kwreq |-> <<>>, body |-> "next"]],
              call |-> call]

Census ==
  (DoCensus /\ Disagree) => PrintT("CENSUS|" \o ToJson(WorldJson))

Bound == Census

PriosA == <<0, 1>>
PriosB == <<-1, 0, 1>>
PriosC == <<0>>
=============================================================================
