SPECIFICATION Spec
CONSTANTS
  Threads = {1, 2}
  NMeth = 3
  BadM = 2
  MaxFail = 1
  CallsPer = 2
  SwapLast = TRUE
  RestoreOnFail = TRUE
  Peekers = {}
  AtomicAnalysis = TRUE
  UseLock = TRUE
PROPERTY AnswersCorrect
PROPERTY RecoversAfterRemoval
INVARIANT EachAsAlone
INVARIANT FinalStateCorrect
