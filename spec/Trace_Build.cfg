SPECIFICATION TSpec
CONSTANTS
  Threads = {1, 2}
  NMeth = 3
  BadM = 0
  MaxFail = 3
  CallsPer = 6
  SwapLast = TRUE
  RestoreOnFail = TRUE
  Peekers = {}
  AtomicAnalysis = TRUE
  UseLock = TRUE
CONSTRAINT Track
POSTCONDITION Report
CHECK_DEADLOCK FALSE
