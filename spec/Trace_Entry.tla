---------------------------- MODULE Trace_Entry ----------------------------
(***************************************************************************)
(* Trace judge for C03: what the selected method received, what came back, *)
(* and whether promised call shapes are accepted.                          *)
(* case  : [id, methods : Seq(method), steps]                               *)
(* step  : [shape : [np, kws], obs : [kind, m, bind : Seq(token), ret, slf]]*)
(*   token \in "arg:<i>" "kw:<name>" "dflt" "otherdflt" "placeholder" ...   *)
(***************************************************************************)
EXTENDS Entry, Json, IOUtils

Cases == JsonDeserialize(IOEnv.VF_CASES)

VARIABLES i, l, bad, fin
vars == <<i, l, bad, fin>>

Case == Cases[i]
Ms   == RangeE(Case.methods)
ById(id) == CHOOSE m \in Ms : m.id = id

KF_zeroargs(sh) == ImplFwdPos(Ms, sh) = 0 /\ ImplFwdKw(Ms, sh) = {} /\ \E m \in Ms : m.params # <<>>
KF_dropkw(sh)   == \E p \in 1..MaxPos(Ms) : Supplied(Ms, sh, p) /\ p > ImplFwdPos(Ms, sh)

BindClause(m, sh, obs) ==
  IF ~PyAccepts(m, sh) THEN "bind.method_excludes_shape"
  ELSE IF \E j \in DOMAIN m.params : obs.bind[j] # BindOf(m, sh, j)
       THEN LET j == CHOOSE j \in DOMAIN m.params : obs.bind[j] # BindOf(m, sh, j) IN
            "bind." \o m.params[j].name \o ".got_" \o obs.bind[j] \o ".want_" \o BindOf(m, sh, j)
  ELSE IF obs.slf # "ok" THEN "self_intact"
  ELSE ""

StepClause(st) ==
  LET sh == st.shape  obs == st.obs IN
  IF Conflict(Ms) THEN (IF obs.kind = "config" THEN "" ELSE "")
  ELSE IF obs.kind = "run" THEN
       LET c == BindClause(ById(obs.m), sh, obs) IN
       IF c # "" THEN c ELSE IF obs.ret # "ok" THEN "result_intact" ELSE ""
  ELSE IF obs.kind = "raised" THEN
       LET c == BindClause(ById(obs.m), sh, obs) IN
       IF c # "" THEN c ELSE IF obs.ret # "ok" THEN "exception_intact" ELSE ""
  ELSE IF obs.kind \in {"rejected", "nomethod"} THEN
       IF MustAccept(Ms, sh) THEN "accept_promised_shape.got_" \o obs.kind ELSE ""
  ELSE IF obs.kind = "ambiguous" THEN ""
  ELSE "no_" \o obs.kind

KFlag(st, c) ==
  IF c = "" \/ Conflict(Ms) THEN "0"
  ELSE IF c = "accept_promised_shape.got_nomethod" /\ KF_zeroargs(st.shape) THEN "z"
  ELSE IF SubSeq(c, 1, 5) = "bind." /\ KF_dropkw(st.shape) /\ ImplAccepts(Ms, st.shape) THEN "d"
  ELSE "0"

(* Extra (not one of the listed properties; reported, never a verdict):       *)
(*   X1:signature_is_model   the recorded parameter list is SigPositional /   *)
(*                           SigKwReq / SigKwOpt (Impl layer of the analyser) *)
(*   X1:signature_admits_accepted_shape  a call shape that ran a method binds *)
(*                           under inspect.signature(f)                       *)
SigClause ==
  IF ~("sig" \in DOMAIN Case) \/ Conflict(Ms) THEN ""
  ELSE LET sg == Case.sig
           pos == SelectSeq(sg, LAMBDA p : p.kind # "kw")
           kwr == {sg[j].name : j \in {j \in DOMAIN sg : sg[j].kind = "kw" /\ sg[j].req}}
           kwo == {sg[j].name : j \in {j \in DOMAIN sg : sg[j].kind = "kw" /\ ~sg[j].req}}
       IN IF pos # SigPositional(Ms) \/ kwr # SigKwReq(Ms) \/ kwo # SigKwOpt(Ms) THEN "X1:signature_is_model@0#0" ELSE ""
BindClauseX(st, k) ==
  IF "bindok" \in DOMAIN st /\ st.obs.kind \in {"run", "raised"} /\ ~st.bindok /\ ~Conflict(Ms)
  THEN "X1:signature_admits_accepted_shape@" \o ToString(k) \o "#0" ELSE ""

Join(a, b) == IF a = "" THEN b ELSE IF b = "" THEN a ELSE a \o "," \o b

Init == i \in 1..Len(Cases) /\ l = 1 /\ bad = "" /\ fin = FALSE

Consume ==
  /\ ~fin /\ l <= Len(Case.steps)
  /\ LET st == Case.steps[l]  c == StepClause(st) IN
       bad' = Join(IF c # "" THEN Join(bad, "C03:" \o c \o "@" \o ToString(l) \o "#" \o KFlag(st, c)) ELSE bad,
                   BindClauseX(st, l))
  /\ l' = l + 1
  /\ UNCHANGED <<i, fin>>

Finish ==
  /\ ~fin /\ l > Len(Case.steps)
  /\ PrintT("VERDICT|" \o Case.id \o "|" \o Join(bad, SigClause) \o "|kf=0;drift=0")
  /\ fin' = TRUE
  /\ UNCHANGED <<i, l, bad>>

Next == Consume \/ Finish
Spec == Init /\ [][Next]_vars
=============================================================================
