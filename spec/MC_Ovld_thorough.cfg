SPECIFICATION Spec
CONSTANTS
  N = 4
  NSig = 2
  MaxOps = 8
  DeepLock = TRUE
  BadSig = 0
  UnlockOnFail = TRUE
  HotReload = FALSE
  MixinsUpdate = TRUE
VIEW view
INVARIANT UsedConsistent
INVARIANT RefusalJustified
PROPERTY ParentsUntouched
CHECK_DEADLOCK FALSE
