------------------------------ MODULE ClassOvld ------------------------------
(***************************************************************************)
(* C17.  Doc layer: the overload set of a method name in every class of a  *)
(* hierarchy that uses the overloading metaclass / base class.             *)
(*                                                                         *)
(* hosts : Seq of class descriptions, in definition order                  *)
(*   [bases : Seq(host index), mc : BOOLEAN (the metaclass is in effect),  *)
(*    body : Seq([id, t (arg class id), marked : BOOLEAN, ...])]           *)
(* Eff(h) (docs/usage.md, statement of C17):                               *)
(*   body defines the name -                                               *)
(*     metaclass not in effect      : ordinary Python, the last definition *)
(*     one unmarked definition      : an ordinary function (no dispatch)   *)
(*     several, none marked         : one overload over exactly those      *)
(*     some definition extend_super : the union over all bases that have   *)
(*        the name (an overload contributes its set, a plain function      *)
(*        itself) overlaid by the body's definitions (same annotation =    *)
(*        replaced)                                                        *)
(*   body does not define it        : ordinary attribute lookup; the       *)
(*        generator only produces single-base classes here, so Eff(base)   *)
(* A plain function is returned as a method annotated `any` (it runs on    *)
(* everything); inside a union it takes part with its declared type.       *)
(***************************************************************************)
EXTENDS Naturals, Sequences, FiniteSets

RangeC(s) == {s[j] : j \in DOMAIN s}

MethRec(d, reg, asAny) ==
  [id |-> d.id, prio |-> 0, reg |-> reg,
   pos |-> << IF asAny THEN [k |-> "any"] ELSE [k |-> "cls", c |-> d.t] >>,
   reqpos |-> 1, kwn |-> <<>>, kwt |-> <<>>, kwreq |-> <<>>]

RECURSIVE EffDefs(_, _)
(* the definitions (with their declared types) a class dispatches over, or  *)
(* a single one flagged plain *)
EffDefs(hosts, h) ==
  LET H == hosts[h]  own == H.body IN
  IF own # <<>> THEN
       IF ~H.mc THEN [plain |-> TRUE, defs |-> {own[Len(own)]}]
       ELSE IF Len(own) = 1 /\ ~own[1].marked THEN [plain |-> TRUE, defs |-> {own[1]}]
       ELSE IF \A j \in DOMAIN own : ~own[j].marked THEN [plain |-> FALSE, defs |-> RangeC(own)]
       ELSE LET inherited == UNION {EffDefs(hosts, b).defs : b \in RangeC(H.bases)}
                ownT == {own[j].t : j \in DOMAIN own}
            IN [plain |-> FALSE, defs |-> {d \in inherited : d.t \notin ownT} \cup RangeC(own)]
  ELSE IF H.bases = <<>> THEN [plain |-> FALSE, defs |-> {}]
  ELSE EffDefs(hosts, H.bases[1])

EffMethods(hosts, h) ==
  LET e == EffDefs(hosts, h) IN
  {MethRec(d, 1, e.plain) : d \in e.defs}

(* the name is defined for class h at all *)
HasName(hosts, h) == EffDefs(hosts, h).defs # {}
=============================================================================
