------------------------------ MODULE ClassOvld ------------------------------
(***************************************************************************)
(* C17.  Doc layer: the overload set of a method name in every class of a  *)
(* hierarchy that uses the overloading metaclass / base class.             *)
(*                                                                         *)
(* hosts : Seq of class descriptions, in definition order                  *)
(*   [bases : Seq(host index), mc : BOOLEAN (the metaclass is in effect),  *)
(*    body : Seq([id, t (arg class id), marked : BOOLEAN, ...])]           *)
(* Eff(h) (docs/usage.md, statement of C17):                               *)
(*   body defines the name -                                               *)
(*     metaclass not in effect      : ordinary Python, the last definition *)
(*                                    (an overload of one if it is marked)  *)
(*     one unmarked definition      : an ordinary function (no dispatch)   *)
(*     several, none marked         : one overload over exactly those      *)
(*     some definition extend_super : the union over all bases that have   *)
(*        the name (an overload contributes its set, a plain function      *)
(*        itself) overlaid by the body's definitions (same annotation =    *)
(*        replaced)                                                        *)
(*   body does not define it        : ordinary attribute lookup - under a  *)
(*        single base Eff(base); under several bases the first base that   *)
(*        has the name, merged with every later base whose method carries  *)
(*        the extend_super mark (tests: class Four(Two, Three): pass).     *)
(*        The generator only produces unrelated bases here, so that "first *)
(*        base" and Python's MRO agree.                                    *)
(* A plain function is returned as a method annotated `any` (it runs on    *)
(* everything); inside a union it takes part with its declared type.       *)
(***************************************************************************)
EXTENDS Naturals, Sequences, FiniteSets

RangeC(s) == {s[j] : j \in DOMAIN s}

MethRec(d, reg, asAny) ==
  [id |-> d.id, prio |-> 0, reg |-> reg,
   pos |-> << IF asAny THEN [k |-> "any"] ELSE [k |-> "cls", c |-> d.t] >>,
   reqpos |-> 1, kwn |-> <<>>, kwt |-> <<>>, kwreq |-> <<>>]

RECURSIVE EffDefs(_, _)
RECURSIVE MarkedAttr(_, _)
RECURSIVE AncHosts(_, _)
AncHosts(hosts, h) == {h} \cup UNION {AncHosts(hosts, b) : b \in RangeC(hosts[h].bases)}
OwnsName(hosts, h) == \E a \in AncHosts(hosts, h) : hosts[a].body # <<>>

(* the attribute a class exposes for the name carries the extend_super mark: *)
(* its body's first definition was marked and no base had the name yet      *)
(* (otherwise the body's definitions were merged into a fresh copy), or it   *)
(* is inherited unchanged from a single base that exposes a marked one       *)
MarkedAttr(hosts, h) ==
  LET H == hosts[h] IN
  IF H.body # <<>> THEN
       IF H.mc THEN H.body[1].marked /\ \A b \in RangeC(H.bases) : ~OwnsName(hosts, b)
       ELSE H.body[Len(H.body)].marked
  ELSE IF Len(H.bases) = 1 THEN MarkedAttr(hosts, H.bases[1])
  ELSE FALSE

(* the definitions (with their declared types) a class dispatches over, or  *)
(* a single one flagged plain *)
EffDefs(hosts, h) ==
  LET H == hosts[h]  own == H.body IN
  IF own # <<>> THEN
       IF ~H.mc THEN [plain |-> ~own[Len(own)].marked, defs |-> {own[Len(own)]}]   \* extend_super alone makes an overload of one
       ELSE IF Len(own) = 1 /\ ~own[1].marked THEN [plain |-> TRUE, defs |-> {own[1]}]
       ELSE IF \A j \in DOMAIN own : ~own[j].marked THEN [plain |-> FALSE, defs |-> RangeC(own)]
       ELSE LET inherited == UNION {EffDefs(hosts, b).defs : b \in RangeC(H.bases)}
                ownT == {own[j].t : j \in DOMAIN own}
            IN [plain |-> FALSE, defs |-> {d \in inherited : d.t \notin ownT} \cup RangeC(own)]
  ELSE IF H.bases = <<>> THEN [plain |-> FALSE, defs |-> {}]
  ELSE IF Len(H.bases) = 1 THEN EffDefs(hosts, H.bases[1])
  ELSE \* no definition of its own under several bases (cf. tests: class Four(Two, Three): pass): the first
       \* base that has the name, merged with every later base whose method is marked extend_super
       LET having == SelectSeq(H.bases, LAMBDA b : OwnsName(hosts, b)) IN
       IF having = <<>> THEN [plain |-> FALSE, defs |-> {}]
       ELSE LET later == {having[j] : j \in {j \in 2..Len(having) : MarkedAttr(hosts, having[j])}} IN
            IF later = {} THEN EffDefs(hosts, having[1])
            ELSE [plain |-> FALSE,
                  defs |-> EffDefs(hosts, having[1]).defs \cup UNION {EffDefs(hosts, b).defs : b \in later}]

EffMethods(hosts, h) ==
  LET e == EffDefs(hosts, h) IN
  {MethRec(d, 1, e.plain) : d \in e.defs}

(* the name is defined for class h at all *)
HasName(hosts, h) == EffDefs(hosts, h).defs # {}
=============================================================================
