---------------------------- MODULE ResolveImpl ----------------------------
(***************************************************************************)
(* Impl layer: resolution as typemap.py / mro.py compute it.               *)
(*                                                                         *)
(*  TypeMap.__missing__ : per supplied key (position or keyword name) the  *)
(*     registered types the argument class is a subtype of are layered by  *)
(*     sort_types (one-directional pairwise scan, then topological         *)
(*     peeling); every handler gets the integer *level* of its type's      *)
(*     layer (0 = most general layer).                                     *)
(*  MultiTypeMap.mro : arity / required-keyword filter, intersection over  *)
(*     the supplied keys, Candidate(priority, specificity tuple, tiebreak),*)
(*     sort by (priority, sum of levels, tiebreak) descending - ties stay  *)
(*     in set-iteration order, here the nondeterministic choice sigma -    *)
(*     then _pull: successive ranks of candidates no other remaining       *)
(*     candidate dominates (dominance is decided on the declared types).   *)
(*  MultiTypeMap.resolve / __missing__ : rank 1 single => run it, several  *)
(*     => "Ambiguous"; continuation (m, T) => the rank after the one m is  *)
(*     in; m not a candidate => fresh lookup; otherwise "No method".       *)
(*                                                                         *)
(* Types are terms as in Types.tla; ImplOrder / ImplSub give what          *)
(* typeorder / subclasscheck return (for class terms: issubclass).         *)
(***************************************************************************)
EXTENDS Resolve

Max(S) == CHOOSE x \in S : \A y \in S : x >= y
SumSeq(s) == LET F[j \in 0..Len(s)] == IF j = 0 THEN 0 ELSE F[j-1] + s[j] IN F[Len(s)]

(* typeorder / subclasscheck on class terms *)
ImplOrderCls(W, t1, t2) ==
  IF t1.c = t2.c THEN "SAME"
  ELSE IF IsSub(W, t1.c, t2.c) THEN "LESS"
  ELSE IF IsSub(W, t2.c, t1.c) THEN "MORE"
  ELSE "NONE"
ImplSubCls(W, c, t) == IsSub(W, c, t.c)

(* the same for annotation terms that may be value-dependent (dep / lit):   *)
(* subclasscheck(c, D) = subclasscheck(c, bound(D));  D.__type_order__:     *)
(* against another dependent type the order of the bounds (equal bounds:    *)
(* unordered), against a class LESS iff the class is comparable with the    *)
(* bound, else NONE                                                         *)
OppO(o) == IF o = "LESS" THEN "MORE" ELSE IF o = "MORE" THEN "LESS" ELSE o
BoundC(t) == IF t.k = "cls" THEN t.c ELSE t.bound.c
SameT(t1, t2) ==
  IF t1.k = "lit" /\ t2.k = "lit"
  THEN t1.bound = t2.bound /\ {t1.vals[j] : j \in DOMAIN t1.vals} = {t2.vals[j] : j \in DOMAIN t2.vals}
  ELSE t1 = t2
DepHook(W, d, o) ==
  IF o.k # "cls"
  THEN LET ord == ImplOrderCls(W, d.bound, o.bound) IN IF ord = "SAME" THEN "NONE" ELSE ord
  ELSE IF IsSub(W, o.c, d.bound.c) \/ IsSub(W, d.bound.c, o.c) THEN "LESS" ELSE "NONE"
ImplOrderT(W, t1, t2) ==
  IF SameT(t1, t2) THEN "SAME"
  ELSE IF t1.k = "cls" /\ t2.k = "cls" THEN ImplOrderCls(W, t1, t2)
  ELSE IF t1.k # "cls" THEN DepHook(W, t1, t2)
  ELSE OppO(DepHook(W, t2, t1))
ImplSubT(W, c, t) == IsSub(W, c, BoundC(t))

(***************************************************************************)
(* sort_types for a symmetric order: layer index of every available type.  *)
(* deps[t] = the available types strictly more specific than t; a layer is *)
(* ready when all its deps are done.  Layers are numbered from the most    *)
(* specific (1); level = number of layers - layer index.                   *)
(***************************************************************************)
RECURSIVE PeelLayers(_, _, _)
PeelLayers(R, D, acc) ==
  IF R = {} THEN acc
  ELSE LET ready == {t \in R : D[t] \cap R = {}} IN
       IF ready = {} THEN <<>>          \* cycle: graphlib raises CycleError
       ELSE PeelLayers(R \ ready, D, Append(acc, ready))

LevelsSym(W, A) ==
  LET D == [t \in A |-> {u \in A : ImplOrderT(W, u, t) = "LESS"}]
      layers == PeelLayers(A, D, <<>>)
      n == Len(layers)
  IN [t \in A |-> n - (CHOOSE j \in 1..n : t \in layers[j])]

(***************************************************************************)
(* Keys supplied by a call: positions 1..n, then keyword names.            *)
(***************************************************************************)
RegTypesPos(M, p) == {m.pos[p] : m \in {x \in M : Len(x.pos) >= p}}
RegTypesKw(M, k)  == {m.kwt[KwIdx(m, k)] : m \in {x \in M : HasKw(x, k)}}

AvailPos(W, M, p, c) == {t \in RegTypesPos(M, p) : ImplSubT(W, c, t)}
AvailKw(W, M, k, c)  == {t \in RegTypesKw(M, k) : ImplSubT(W, c, t)}

ImplFilter(m, call) ==
  /\ m.reqpos <= Len(call.pos) /\ Len(call.pos) <= Len(m.pos)
  /\ \A j \in DOMAIN m.kwn : m.kwreq[j] => \E q \in DOMAIN call.kwn : call.kwn[q] = m.kwn[j]

ImplCandidates(W, M, call) ==
  {m \in M :
     /\ ImplFilter(m, call)
     /\ \A p \in DOMAIN call.pos : m.pos[p] \in AvailPos(W, M, p, call.pos[p].c)
     /\ \A q \in DOMAIN call.kwn :
          HasKw(m, call.kwn[q]) /\ m.kwt[KwIdx(m, call.kwn[q])] \in AvailKw(W, M, call.kwn[q], call.kwa[q].c)}

(* push-down on re-registration of an identical Signature (incl. priority) *)
Tiebreak(M, m) == 0 - Cardinality({x \in M : SigNP(x) = SigNP(m) /\ x.prio = m.prio /\ x.reg > m.reg})

(* LV[p] : the level function (type -> level) in force for supplied key p - *)
(* freshly computed, or a per-position cache snapshot (Table.tla)           *)
FreshLV(W, M, call) ==
  [p \in 1..(Len(call.pos) + Len(call.kwn)) |->
     IF p <= Len(call.pos)
     THEN LevelsSym(W, AvailPos(W, M, p, call.pos[p].c))
     ELSE LET q == p - Len(call.pos) IN
          LevelsSym(W, AvailKw(W, M, call.kwn[q], call.kwa[q].c))]

SpecOfL(LV, m, call) ==
  [p \in 1..(Len(call.pos) + Len(call.kwn)) |->
     IF p <= Len(call.pos) THEN LV[p][m.pos[p]]
     ELSE LV[p][m.kwt[KwIdx(m, call.kwn[p - Len(call.pos)])]]]

DeclTypes(m, call) ==
  [p \in 1..(Len(call.pos) + Len(call.kwn)) |->
     IF p <= Len(call.pos) THEN m.pos[p] ELSE m.kwt[KwIdx(m, call.kwn[p - Len(call.pos)])]]

CandL(LV, M, m, call) ==
  [m |-> m.id, prio |-> m.prio, spec |-> SpecOfL(LV, m, call), tb |-> Tiebreak(M, m), types |-> DeclTypes(m, call)]

SpecOf(W, M, m, call) == SpecOfL(FreshLV(W, M, call), m, call)
Cand(W, M, m, call) == CandL(FreshLV(W, M, call), M, m, call)

(* Candidate.dominates: priority first; then the *declared types* are compared with typeorder *)
(* (the integer levels are only used as a sort key): all positions SAME -> the tiebreak      *)
(* decides, otherwise every position must be LESS or SAME.  DomW needs the world.            *)
DomW(W, a, b) ==
  IF a.prio # b.prio THEN a.prio > b.prio
  ELSE LET os == {ImplOrderT(W, a.types[p], b.types[p]) : p \in DOMAIN a.types} IN
       IF os \subseteq {"SAME"} THEN a.tb > b.tb
       ELSE os \subseteq {"LESS", "SAME"}

KeyOf(c) == <<c.prio, SumSeq(c.spec), c.tb>>
KeyGE(a, b) ==
  LET ka == KeyOf(a) kb == KeyOf(b) IN
  \/ ka[1] > kb[1]
  \/ ka[1] = kb[1] /\ ka[2] > kb[2]
  \/ ka[1] = kb[1] /\ ka[2] = kb[2] /\ ka[3] >= kb[3]

(* every list the stable sort can produce, ties in any order *)
RECURSIVE AllSorted(_)
AllSorted(S) ==
  IF S = {} THEN {<<>>}
  ELSE LET top == {c \in S : \A d \in S : KeyGE(c, d)} IN
       UNION {{<<c>> \o r : r \in AllSorted(S \ {c})} : c \in top}

(* _pull: successive ranks = the remaining candidates that no other remaining candidate *)
(* dominates, in list order                                                              *)
RECURSIVE PullW(_, _)
PullW(W, L) ==
  IF L = <<>> THEN <<>>
  ELSE LET und == SelectSeq(L, LAMBDA c : \A j \in DOMAIN L : L[j] = c \/ ~(DomW(W, L[j], c) /\ ~DomW(W, c, L[j])))
           rank == IF und = <<>> THEN L ELSE und
       IN <<rank>> \o PullW(W, SelectSeq(L, LAMBDA c : \A j \in DOMAIN rank : rank[j] # c))

CandSetL(W, M, call, LV) ==
  {CandL(LV, M, m, call) : m \in {x \in ImplCandidates(W, M, call) :
      \A p \in 1..(Len(call.pos) + Len(call.kwn)) :
         (IF p <= Len(call.pos) THEN x.pos[p] ELSE x.kwt[KwIdx(x, call.kwn[p - Len(call.pos)])]) \in DOMAIN LV[p]}}
RankListsL(W, M, call, LV) == {PullW(W, L) : L \in AllSorted(CandSetL(W, M, call, LV))}
CandSet(W, M, call) == CandSetL(W, M, call, FreshLV(W, M, call))
RankLists(W, M, call) == RankListsL(W, M, call, FreshLV(W, M, call))

(* outcome of a direct call under one rank list *)
ImplOutcomeOf(ranks) ==
  IF ranks = <<>> THEN NoMethod
  ELSE IF Len(ranks[1]) = 1 THEN [kind |-> "run", m |-> ranks[1][1].m]
  ELSE Ambiguous

ImplOutcomes(W, M, call) == {ImplOutcomeOf(r) : r \in RankLists(W, M, call)}

(* resolve(): writes continuation entries until the first tied rank *)
RankOfIn(ranks, mid) == CHOOSE k \in DOMAIN ranks : \E j \in DOMAIN ranks[k] : ranks[k][j].m = mid
InRanks(ranks, mid) == \E k \in DOMAIN ranks : \E j \in DOMAIN ranks[k] : ranks[k][j].m = mid
FirstTied(ranks) ==
  IF \E k \in DOMAIN ranks : Len(ranks[k]) # 1
  THEN CHOOSE k \in DOMAIN ranks : Len(ranks[k]) # 1 /\ \A j \in 1..(k-1) : Len(ranks[j]) = 1
  ELSE Len(ranks) + 1

(* call_next from method mid with call: MultiTypeMap.__missing__ on (code, T) *)
ImplNextOf(ranks, mid) ==
  IF ranks = <<>> THEN NoMethod                   \* self[real_tup] raises
  ELSE IF Len(ranks[1]) # 1 THEN Ambiguous        \* self[real_tup] raises the remembered error
  ELSE IF ~InRanks(ranks, mid) THEN ImplOutcomeOf(ranks)   \* not a candidate: fresh
  ELSE LET k  == RankOfIn(ranks, mid)
           ft == FirstTied(ranks)
       IN IF k < ft /\ k + 1 <= Len(ranks)
          THEN IF Len(ranks[k+1]) = 1 THEN [kind |-> "run", m |-> ranks[k+1][1].m]
               ELSE Ambiguous
          ELSE NoMethod

ImplNexts(W, M, mid, call) == {ImplNextOf(r, mid) : r \in RankLists(W, M, call)}

(***************************************************************************)
(* KF_levels: the root-cause signature (input only) of the integer-level   *)
(* artefact: two applicable methods of equal priority whose declared types *)
(* are unrelated at some supplied position while one of them is same-or-   *)
(* more-specific at every other supplied position.                         *)
(***************************************************************************)
DeclAt(m, call, p) ==
  IF p <= Len(call.pos) THEN m.pos[p] ELSE m.kwt[KwIdx(m, call.kwn[p - Len(call.pos)])]

KF_levels(W, M, call) ==
  LET S == ApplicableSet(W, M, call)
      P == 1..(Len(call.pos) + Len(call.kwn))
      Unrel(a, b, p) == ~TypeLE(W, DeclAt(a, call, p), DeclAt(b, call, p))
                        /\ ~TypeLE(W, DeclAt(b, call, p), DeclAt(a, call, p))
  IN \E a, b \in S :
       /\ a # b /\ a.prio = b.prio
       /\ \E p \in P :
            /\ Unrel(a, b, p)
            /\ \/ \A q \in P \ {p} : Unrel(a, b, q) \/ TypeLE(W, DeclAt(a, call, q), DeclAt(b, call, q))
               \/ \A q \in P \ {p} : Unrel(a, b, q) \/ TypeLE(W, DeclAt(b, call, q), DeclAt(a, call, q))

=============================================================================
