SPECIFICATION Spec
CONSTANTS
  Worlds <- TheWorlds
  MaxReg = 4
  ClearSideTables = TRUE
  AllowDup = FALSE
VIEW view
INVARIANT CacheInvisible
INVARIANT TmCacheFresh
INVARIANT ContinuationSound
PROPERTY ResolveOnce
CHECK_DEADLOCK FALSE
