SPECIFICATION GSpec
CONSTANTS
  Worlds <- TheWorlds
  MaxReg = 4
  ClearSideTables = TRUE
  AllowDup = FALSE
  GenDepth = 9
CONSTRAINT Emit
CHECK_DEADLOCK FALSE
