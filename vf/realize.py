"""World (JSON) -> real classes, real annotations, real ovld functions.

Runs inside worker processes that import the *current* /repo tree.

World format (all class ids 1-based, class 1 is `object`):
  parents : [[...], ...]      Doc parents (plain and virtual), parents[c] < c
  kinds   : ["object","plain"|"abc"|"proto", ...]          (optional)
  virt    : [[child, parent], ...]   edges realised by ABC.register / structure
  attrs   : [[names...], ...]        extra method names a class body defines
  methods : [method, ...]  method = {id, prio, reg, pos:[term], reqpos,
             kwn:[name], kwt:[term], kwreq:[bool], body, names?, self?, f?}
  funcs   : optional, see graph worlds
Bodies: "leaf" | "next" | "fnext" | "recurse" | "raise" | {"k":"next_with",...}
"""

import abc
import itertools
import linecache
import typing

_serial = itertools.count()


class Sentinel:
    __slots__ = ("name",)

    def __init__(self, name):
        self.name = name

    def __repr__(self):
        return f"<{self.name}>"


class BuiltWorld:
    def __init__(self, world):
        self.world = world
        self.classes = [None, object]  # 1-based
        self.clsid = {object: 1}
        self.ns = {}
        self.log = []
        self.dflt = {}  # (mid, param) -> sentinel
        self.ret = {}  # mid -> sentinel
        self.exc = {}  # mid -> exception instance
        self.mfun = {}  # mid -> original python function
        self.filename = None
        self._inst = {}
        self.build_classes()

    # ---------------------------------------------------------------- classes
    def build_classes(self):
        w = self.world
        par = w["parents"]
        kinds = w.get("kinds") or (["object"] + ["plain"] * (len(par) - 1))
        virt = {tuple(e) for e in w.get("virt", [])}
        attrs = w.get("attrs") or [[] for _ in par]
        self.kinds = kinds
        for c in range(2, len(par) + 1):
            name = f"K{c}"
            kind = kinds[c - 1]
            real_par = [p for p in par[c - 1] if (c, p) not in virt and p != 1]
            # most derived first keeps C3 happy whenever a linearisation exists
            real_par.sort(reverse=True)
            bases = tuple(self.classes[p] for p in real_par)
            nsd = {"__module__": "vfworld", "__qualname__": name}
            if w.get("eq_all"):
                # instances of different classes compare (and hash) equal: dispatch must go by class, never by value
                nsd["__eq__"] = lambda self, other: True
                nsd["__hash__"] = lambda self: 7
            for a in attrs[c - 1]:
                nsd[a] = lambda self: None
            # structural protocols implemented by this class
            for p in par[c - 1]:
                if (c, p) in virt and kinds[p - 1] == "proto":
                    nsd[f"pm_{p}"] = lambda self: None
            if kind == "abc":
                if not bases:
                    bases = (abc.ABC,)
                cls = abc.ABCMeta(name, bases, nsd)
            elif kind == "proto":
                nsd[f"pm_{c}"] = lambda self: None
                pb = tuple(b for b in bases) + (typing.Protocol,)
                cls = type(typing.Protocol)(name, pb, nsd)
                cls = typing.runtime_checkable(cls)
            else:
                cls = type(name, bases or (object,), nsd) if not any(
                    isinstance(b, abc.ABCMeta) for b in bases
                ) else abc.ABCMeta(name, bases, nsd)
            for p in par[c - 1]:
                if (c, p) in virt and kinds[p - 1] == "abc":
                    self.classes[p].register(cls)
            self.classes.append(cls)
            self.clsid[cls] = c
            self.ns[name] = cls

    def instance(self, c, fresh=False):
        """An instance whose class is exactly class c."""
        if not fresh and c in self._inst:
            return self._inst[c]
        cls = self.classes[c]
        if self.kinds[c - 1] == "proto":
            # protocol classes are never instantiated directly
            raise ValueError("abstract class has no direct instances")
        o = cls()
        if not fresh:
            self._inst[c] = o
        return o

    def class_of(self, obj):
        return self.clsid.get(type(obj), 0)

    # ------------------------------------------------------------------ types
    def type_expr(self, t):
        k = t["k"]
        if k == "cls":
            return "object" if t["c"] == 1 else f"K{t['c']}"
        if k == "any":
            return "object"
        if k == "union":
            return "Union[" + ", ".join(self.type_expr(a) for a in t["args"]) + "]"
        if k == "inter":
            return "Intersection[" + ", ".join(self.type_expr(a) for a in t["args"]) + "]"
        if k == "exactly":
            return f"Exactly[{self.type_expr({'k': 'cls', 'c': t['c']})}]"
        if k == "strict":
            return f"StrictSubclass[{self.type_expr({'k': 'cls', 'c': t['c']})}]"
        if k == "hasmethod":
            return f"HasMethod[{t['name']!r}]"
        if k == "check":
            key = "CHK_" + "_".join(map(str, t["members"])) + "_" + t.get("tag", "")
            if key not in self.ns:
                members = frozenset(self.classes[m] for m in t["members"])
                counter = self.ns.setdefault("COUNTS", {})

                def pred(cls, _m=members, _k=key, _c=counter):
                    _c[_k] = _c.get(_k, 0) + 1
                    return cls in _m

                pred.__name__ = key
                from ovld import class_check

                self.ns[key] = class_check(pred)
            return key
        if k == "depchk":
            # value-dependent type whose bound is another (hook-defined) type; the value check always holds
            inner = self.type_expr(t["inner"])
            key = "DEPB_" + "".join(ch if ch.isalnum() else "_" for ch in inner)
            if key not in self.ns:
                from ovld import Dependent

                def always(value):
                    return True

                self.ns[key] = Dependent[eval(inner, self.ns), always]
            return key
        if k == "unionlit":
            # the (hook-defined / plain) type in a union with a Literal that no argument of the worlds equals: the same
            # values as the inner type, decided behind a generated value dispatcher
            inner = self.type_expr(t["inner"])
            key = "UNL_" + "".join(ch if ch.isalnum() else "_" for ch in inner)
            if key not in self.ns:
                import typing

                from ovld.types import Union as OUnion

                self.ns[key] = OUnion[eval(inner, self.ns), typing.Literal["zz-never-passed"]]
            return key
        if k == "uniondep":
            # the hook-defined type in a union with a value-dependent member whose bound (a plain class, or object) also admits
            # classes the hook-defined member rejects: the generated value dispatcher asks the class-level member about those
            # too, and its "no" is as much a resolved fact as its "yes" (C20)
            inner = self.type_expr(t["inner"])
            bound = self.type_expr({"k": "cls", "c": t["bound"]})
            key = "UND_" + "".join(ch if ch.isalnum() else "_" for ch in inner) + f"_{bound}_{int(bool(t['holds']))}"
            if key not in self.ns:
                from ovld import Dependent
                from ovld.types import Union as OUnion

                _h = bool(t["holds"])

                def holds(value):
                    return _h

                self.ns[key] = OUnion[eval(inner, self.ns), Dependent[eval(bound, self.ns), holds]]
            return key
        if k == "raw":
            return t["expr"]
        raise ValueError(f"unknown type term {t}")

    # ---------------------------------------------------------------- methods
    def method_source(self, m, fname="F"):
        mid = m["id"]
        npos = len(m["pos"])
        names = m.get("names") or [f"p{i + 1}" for i in range(npos)]
        posonly = m.get("posonly", 0)
        params = []
        if m.get("self"):
            params.append("self")
        for i in range(npos):
            ann = self.type_expr(m["pos"][i])
            s = f"{names[i]}: {ann}"
            if i >= m["reqpos"]:
                d = Sentinel(f"dflt:{mid}.{names[i]}")
                self.dflt[(mid, names[i])] = d
                self.ns[f"D_{mid}_{names[i]}"] = d
                s += f" = D_{mid}_{names[i]}"
            params.append(s)
            if posonly and i + 1 == posonly:
                params.append("/")
        if m["kwn"]:
            params.append("*")
        for j, kn in enumerate(m["kwn"]):
            ann = self.type_expr(m["kwt"][j])
            s = f"{kn}: {ann}"
            if not m["kwreq"][j]:
                d = Sentinel(f"dflt:{mid}.{kn}")
                self.dflt[(mid, kn)] = d
                self.ns[f"D_{mid}_{kn}"] = d
                s += f" = D_{mid}_{kn}"
            params.append(s)
        r = Sentinel(f"ret:{mid}")
        self.ret[mid] = r
        self.ns[f"R_{mid}"] = r
        lines = [f"def {mid}({', '.join(params)}):"]
        posl = ", ".join(names[:npos])
        kwl = ", ".join(f"{kn!r}: {kn}" for kn in m["kwn"])
        slf = "self" if m.get("self") else "None"
        lines.append(f"    _e = [{mid!r}, [{posl}], {{{kwl}}}, None, {slf}]")
        lines.append("    LOG.append(_e)")
        body = m.get("body", "leaf")
        bk = body if isinstance(body, str) else body["k"]
        if bk == "leaf":
            lines.append(f"    return R_{mid}")
        elif bk == "leaf_rw":
            # never executed, but makes the library rewrite (recode) this method
            lines.append("    if BUDGET[0] < -99:")
            lines.append("        recurse()")
            lines.append(f"    return R_{mid}")
        elif bk == "raise":
            e = RuntimeError(f"exc:{mid}")
            self.exc[mid] = e
            self.ns[f"E_{mid}"] = e
            lines.append(f"    raise E_{mid}")
        elif bk in ("next", "fnext", "recurse", "selfname"):
            callee = {
                "next": "call_next",
                "fnext": f"{fname}.next",
                "recurse": "recurse",
                "selfname": fname,
            }[bk]
            lines += self._delegate_same(m, names, callee, allow_kw=(bk != "fnext"))
        elif bk in ("next_with", "recurse_with", "fnext_with"):
            callee = {"next_with": "call_next", "recurse_with": "recurse", "fnext_with": f"{fname}.next"}[bk]
            # scripted other arguments; guarded by a depth budget so that
            # chains stay finite
            pos = ", ".join(f"ARG[{a!r}]" for a in body["pos"])
            kws = ", ".join(f"{n}=ARG[{a!r}]" for n, a in zip(body.get("kwn", []), body.get("kwa", [])))
            al = ", ".join(x for x in (pos, kws) if x)
            kwd = ", ".join(f"{n!r}: ARG[{a!r}]" for n, a in zip(body.get("kwn", []), body.get("kwa", [])))
            lines.append("    if BUDGET[0] <= 0:")
            lines.append(f"        return R_{mid}")
            lines.append("    BUDGET[0] -= 1")
            lines.append(f"    _e[3] = ([{pos}], {{{kwd}}})")
            if body.get("guard"):
                lines.append("    try:")
                lines.append(f"        return {callee}({al})")
                lines.append("    except TypeError:")
                lines.append(f"        return R_{mid}")
            else:
                lines.append(f"    return {callee}({al})")
        else:
            raise ValueError(f"unknown body {body}")
        return "\n".join(lines) + "\n"

    def _delegate_same(self, m, names, callee, allow_kw=True):
        """Forward exactly the arguments that were supplied (spelled out)."""
        mid = m["id"]
        npos = len(m["pos"])
        req = m["reqpos"]
        optkw = [kn for j, kn in enumerate(m["kwn"]) if not m["kwreq"][j]]
        reqkw = [kn for j, kn in enumerate(m["kwn"]) if m["kwreq"][j]]
        out = []

        def emit(ind, np_, kws):
            pos = ", ".join(names[:np_])
            kwa = ", ".join(f"{k}={k}" for k in kws) if allow_kw else ""
            kwd = ", ".join(f"{k!r}: {k}" for k in kws) if allow_kw else ""
            al = ", ".join(x for x in (pos, kwa) if x)
            out.append(f"{ind}_e[3] = ([{pos}], {{{kwd}}})")
            out.append(f"{ind}return {callee}({al})")

        def kwbranches(ind, np_, remaining, chosen):
            if not remaining:
                emit(ind, np_, reqkw + chosen)
                return
            k = remaining[0]
            out.append(f"{ind}if {k} is D_{mid}_{k}:")
            kwbranches(ind + "    ", np_, remaining[1:], chosen)
            out.append(f"{ind}else:")
            kwbranches(ind + "    ", np_, remaining[1:], chosen + [k])

        for np_ in range(req, npos):
            out.append(f"    if {names[np_]} is D_{mid}_{names[np_]}:")
            kwbranches("        ", np_, optkw, [])
        kwbranches("    ", npos, optkw, [])
        return out

    def build_functions(self, register=True):
        """Create one Ovld per function of the world and register its methods
        in `reg` order.  Returns {fid: dispatch function}."""
        import ovld
        from ovld import Ovld, call_next, recurse
        from ovld.types import Exactly, HasMethod, Intersection, StrictSubclass, Union

        w = self.world
        ns = self.ns
        ns.update(
            LOG=self.log,
            call_next=call_next,
            recurse=recurse,
            Union=Union,
            Intersection=Intersection,
            Exactly=Exactly,
            StrictSubclass=StrictSubclass,
            HasMethod=HasMethod,
            ARG={},
            BUDGET=[0],
            typing=typing,
            __name__="vfworld",
        )
        src = []
        made = []   # (method, factory name): methods produced by one shared def (same code object)
        for m in w["methods"]:
            if m.get("factory") and not m["kwn"] and m["reqpos"] == len(m["pos"]) and m.get("body") in ("next", "leaf", "fnext") and m.get("f", 1) == 1:
                npos = len(m["pos"])
                fac = f"_fac_{npos}_{m['body']}"
                if not any(f == fac for _, f in made):
                    names = ", ".join(f"p{i + 1}" for i in range(npos))
                    body = [f"def {fac}(mid_, ret_):", f"    def fm({names}):",
                            f"        _e = [mid_, [{names}], {{}}, None, None]", "        LOG.append(_e)"]
                    if m["body"] == "next":
                        body += [f"        _e[3] = ([{names}], {{}})", f"        return call_next({names})"]
                    elif m["body"] == "fnext":
                        body += [f"        _e[3] = ([{names}], {{}})", f"        return F1.next({names})"]
                    else:
                        body += ["        return ret_"]
                    body += ["    return fm"]
                    src.append("\n".join(body) + "\n")
                made.append((m, fac))
            else:
                src.append(self.method_source(m, fname=f"F{m.get('f', 1)}"))
        code = "\n".join(src)
        self.filename = f"<vf:{next(_serial)}>"
        linecache.cache[self.filename] = (len(code), None, code.splitlines(True), self.filename)
        exec(compile(code, self.filename, "exec"), ns, ns)
        for m, fac in made:
            r = Sentinel(f"ret:{m['id']}")
            self.ret[m["id"]] = r
            fn = ns[fac](m["id"], r)
            fn.__name__ = m["id"]
            fn.__annotations__ = {f"p{i + 1}": eval(self.type_expr(t), ns) for i, t in enumerate(m["pos"])}
            ns[m["id"]] = fn
        for m in w["methods"]:
            self.mfun[m["id"]] = ns[m["id"]]
        self.src = code
        if not register:
            return {}
        fids = sorted({m.get("f", 1) for m in w["methods"]})
        self.ovlds = {}
        for fid in fids:
            ov = Ovld()
            self.ovlds[fid] = ov
        for m in sorted(w["methods"], key=lambda m: m["reg"]):
            ov = self.ovlds[m.get("f", 1)]
            ov.register(ns[m["id"]], priority=m["prio"])
        self.funcs = {}
        for fid, ov in self.ovlds.items():
            self.funcs[fid] = ov.dispatch
            ns[f"F{fid}"] = ov.dispatch
        return self.funcs

    def cleanup(self):
        for k in [k for k in linecache.cache if k.startswith("<ovld:") or k.startswith("<vf:")]:
            del linecache.cache[k]

    # which world method does a handler (adapted function) stand for?
    def method_of_handler(self, h):
        conf = getattr(h, "_conformer", None)
        if conf is not None:
            for mid, fn in self.mfun.items():
                if conf.orig_fn is fn:
                    return mid
        for mid, fn in self.mfun.items():
            if h is fn:
                return mid
        return None
