"""C10: value-dependent methods run exactly when their condition holds.

C->S : mixtures of static, Dependent[bound, predicate] and Literal methods over
       a class hierarchy with int / str and a named value universe; user
       predicates are given extensionally (the set of values they accept) and
       log every value they are asked about.  Trace_Resolve C10Clause judges:
       runs_iff_holds (a body only runs on values its annotation admits),
       value_outcome (the documented rule over the value-level applicable set
       with the Doc order TypeLE: dependent before every static type comparable
       with its bound, equal bounds unordered), bound_guard.
M    : spec/MC_Dep.tla - the rank list at type level, the per-rank generated
       dispatcher with its three strategies and the fall-through wiring
       (Dependent.tla) against the Doc outcome.
"""

import itertools
import json
import random

from .. import deprt, pool, tlc, workers
from ..report import Report
from . import static

NAMES = [n for n, _, _ in deprt.VALUES]
BYCLS = {}
for n, c, _ in deprt.VALUES:
    BYCLS.setdefault(c, []).append(n)
ANC = {1: {1}, 2: {1, 2}, 3: {1, 3}, 4: {1, 4}, 5: {1, 4, 5}, 6: {1, 6}}


def cls(c):
    return {"k": "cls", "c": c}


def inst_names(c):
    """names of the values that are instances of class c"""
    return [n for n, vc, _ in deprt.VALUES if c in ANC[vc]]


def rand_dep(rng, bound=None):
    b = bound or rng.choice([1, 2, 2, 3, 4, 5])
    pool_ = inst_names(b)
    k = rng.randint(0, len(pool_))
    holds = sorted(rng.sample(pool_, k))
    # the predicate may also 'accept' values outside the bound: it must never be asked
    if rng.random() < 0.3:
        holds = sorted(set(holds) | set(rng.sample(NAMES, 2)))
    return {"k": "dep", "bound": cls(b), "holds": holds}


def rand_lit(rng):
    c = rng.choice([2, 2, 3])
    pool_ = BYCLS[c]
    vals = sorted(rng.sample(pool_, rng.randint(1, 3)))  # canonical order: equal value sets are one type (C15 covers the orders)
    return {"k": "lit", "bound": cls(c), "vals": [deprt.arg_record(v)["v"] for v in vals]}


def gen_jobs(tier, seed):
    rng = random.Random(seed * 613 + 10)
    n = 320 if tier == "quick" else 8000
    jobs = []
    for q in range(n):
        shape = q % 10
        npos = 2 if shape == 7 else 1
        nm = rng.randint(2, 6)
        methods = []
        for j in range(nm):
            r = rng.random()
            if shape == 0:      # literals only (steers keyed / exclusive strategies)
                t = rand_lit(rng) if r < 0.8 else cls(rng.choice([1, 2, 3]))
            elif shape == 1:    # dependents on one bound + its static classes
                t = rand_dep(rng, 2) if r < 0.6 else cls(rng.choice([1, 2]))
            elif shape == 2:    # class hierarchy bounds
                t = rand_dep(rng, rng.choice([4, 5, 1])) if r < 0.6 else cls(rng.choice([1, 4, 5, 6]))
            elif shape == 3:    # unions of dependents with different bounds, with static members, nested composites
                u = rng.random()
                if r >= 0.6:
                    t = cls(rng.choice([1, 2, 3]))
                elif u < 0.35:
                    t = {"k": "union", "args": [rand_dep(rng, 2), rand_dep(rng, 3)]}
                elif u < 0.55:      # a dependent member before / after a static member
                    args = [rand_dep(rng, 2), cls(3)]
                    rng.shuffle(args)
                    t = {"k": "union", "args": args}
                elif u < 0.8:       # an intersection nested in a union
                    t = {"k": "union", "args": [cls(3), {"k": "inter", "args": [cls(2), rand_dep(rng, 2)]}]}
                elif u < 0.9:       # an intersection of dependents (no static member) nested in a union with another bound
                    t = {"k": "union", "args": [rand_lit(rng) if rng.random() < 0.5 else rand_dep(rng, 2),
                                                {"k": "inter", "args": [rand_dep(rng, 3), rand_dep(rng, 3)]}]}
                else:               # an intersection nested in an intersection
                    t = {"k": "inter", "args": [cls(1), {"k": "inter", "args": [cls(2), rand_dep(rng, 2)]}]}
            elif shape == 4 and q % 20 == 14:
                # a dependent type whose bound is itself value-dependent (a Literal, another Dependent)
                if r < 0.6:
                    inner = rand_lit(rng) if rng.random() < 0.6 else rand_dep(rng, 2)
                    pool_ = inst_names(inner["bound"]["c"])
                    t = {"k": "dep", "bound": inner, "holds": sorted(rng.sample(pool_, rng.randint(1, len(pool_))))}
                else:
                    t = cls(rng.choice([1, 2, 3]))
            elif shape == 4 and q % 20 == 4:
                # a dependent type whose bound is a union of classes (int | str, int | A), in both spellings
                if r < 0.6:
                    members = rng.choice([[2, 3], [3, 2], [2, 4]])
                    pool_ = sorted(set(inst_names(members[0])) | set(inst_names(members[1])))
                    t = {"k": "dep", "bound": {"k": "union", "args": [cls(c) for c in members], "spell": rng.choice(["pipe", "typing"])},
                         "holds": sorted(rng.sample(pool_, rng.randint(1, len(pool_))))}
                else:
                    t = cls(rng.choice([1, 2, 3, 4]))
            else:
                t = rng.choice([rand_dep(rng), rand_lit(rng), cls(rng.choice([1, 2, 3, 4, 5, 6]))])
            pos = [t]
            if npos == 2:
                pos.append(rng.choice([cls(1), cls(2), rand_dep(rng, 2)]))
                if q % 20 == 17 and rng.random() < 0.5:
                    # a union with a dependent member at one position, another condition at the other position
                    pos[0] = {"k": "union", "args": [rand_lit(rng), cls(3)]}
                    pos[1] = rand_lit(rng)
            methods.append({"id": f"m{j + 1}", "prio": rng.choice([0, 0, 0, 1]), "reg": j + 1, "pos": pos,
                            "reqpos": npos, "kwn": [], "kwt": [], "kwreq": [], "body": rng.choice(["leaf", "leaf", "next"])})
        if shape == 0 and q % 16 in (0, 8):
            # >= 4 pairwise disjoint Literal methods (lookup-table strategy), one of them multi-valued,
            # some values of the bound left uncovered so that the table has to fall through
            ints = ["im1", "i0", "i1", "i2", "i3", "i4", "i5"]
            rng.shuffle(ints)
            uncovered = ints[:1]
            rest = ints[1:]
            groups = [[rest[0]], [rest[1]], [rest[2], rest[3]], [rest[4]], [rest[5]]][: rng.choice([4, 5])]
            strs = ["se", "sa", "sab", "sb"]
            rng.shuffle(strs)
            groups += [[strs[0]], [strs[1], strs[2]]]
            methods = []
            for j, g in enumerate(groups):
                c_ = 2 if g[0].startswith("i") else 3
                methods.append({"id": f"m{j + 1}", "prio": 0, "reg": j + 1,
                                "pos": [{"k": "lit", "bound": cls(c_), "vals": sorted((deprt.arg_record(v)["v"] for v in g), key=lambda x: str(x["v"]))}],
                                "reqpos": 1, "kwn": [], "kwt": [], "kwreq": [], "body": rng.choice(["leaf", "next"])})
            methods.append({"id": "m9", "prio": 0, "reg": 9, "pos": [cls(rng.choice([1, 2]))], "reqpos": 1, "kwn": [], "kwt": [], "kwreq": [], "body": "leaf"})
        if npos == 1:
            calls = [[v] for v in NAMES]
        else:
            calls = [[a, b] for a in NAMES for b in ("i0", "i2", "sa")]
            rng.shuffle(calls)
            calls = calls[:20]
        if shape == 8:
            # three positions: >= 4 disjoint Literal methods keyed on the first argument, some of them
            # carrying a second dependent parameter; a third parameter keeps them in one rank
            ints = ["im1", "i0", "i1", "i2", "i3", "i4", "i5"]
            rng.shuffle(ints)
            methods = []
            for j in range(rng.choice([4, 5])):
                twodep = rng.random() < 0.4
                second = rand_dep(rng, 2) if twodep else cls(rng.choice([1, 2]))
                third = cls(1) if twodep else cls(rng.choice([1, 2]))
                methods.append({"id": f"m{j + 1}", "prio": 0, "reg": j + 1,
                                "pos": [{"k": "lit", "bound": cls(2), "vals": [deprt.arg_record(ints[j])["v"]]}, second, third],
                                "reqpos": 3, "kwn": [], "kwt": [], "kwreq": [], "body": "leaf"})
            methods.append({"id": "m9", "prio": 0, "reg": 9, "pos": [cls(1), cls(1), cls(1)], "reqpos": 3, "kwn": [], "kwt": [], "kwreq": [], "body": "leaf"})
            calls = [[a, b, "i1"] for a in ints[:6] for b in ("i0", "i2", "i5", "im1")]
        if shape == 9:
            # dependent / literal annotations on a keyword-only parameter
            methods = []
            for j in range(rng.randint(2, 4)):
                kt = rng.choice([rand_dep(rng, 2), rand_lit(rng), rand_dep(rng, 1)])
                methods.append({"id": f"m{j + 1}", "prio": rng.choice([0, 0, 1]), "reg": j + 1, "pos": [cls(rng.choice([1, 2]))],
                                "reqpos": 1, "kwn": ["k"], "kwt": [kt], "kwreq": [rng.random() < 0.7], "body": rng.choice(["leaf", "next"])})
            methods.append({"id": "m9", "prio": 0, "reg": 9, "pos": [cls(1)], "reqpos": 1, "kwn": ["k"], "kwt": [cls(1)], "kwreq": [False], "body": "leaf"})
            calls = [{"pos": [a], "kw": {"k": b}} for a in ("i1", "sa") for b in NAMES] + [{"pos": ["i1"], "kw": {}}]
            if q % 20 == 19:
                # no positional parameter at all: the value-dependent parameter is the only (keyword-only) one
                for m in methods:
                    m["pos"], m["reqpos"] = [], 0
                calls = [{"pos": [], "kw": {"k": b}} for b in NAMES]
        if shape == 9:
            # the keyword-only parameter under names the generated dispatcher also uses for itself
            kn = ["k", "HANDLER0", "k", "FALLTHROUGH", "ARG0", "k", "MATCH0", "SUMMATION", "HANDLER", "p1", "p2", "INJECT",
                  "len", "isinstance", "bool"][(q // 10) % 15]
            for m in methods:
                m["kwn"] = [kn for _ in m["kwn"]]
            for c in calls:
                c["kw"] = {kn: v for v in c["kw"].values()}
        if q % 2 == 1:
            # the order in which argument classes are first seen must not matter
            calls = list(reversed(calls))
        jobs.append({"id": f"C10-{q}", "methods": methods, "calls": calls})
    # the recorded rank shape (KF-pull-rank), always present: the dependent method is a candidate for (int, int) but its
    # condition fails; it still hides the (int, object) method from the comparison with (object, int)
    def mm(j, pos):
        return {"id": f"m{j}", "prio": 0, "reg": j, "pos": pos, "reqpos": 2, "kwn": [], "kwt": [], "kwreq": [], "body": "leaf"}

    jobs.append({"id": f"C10-{n}", "calls": [["i1", "i2"]],
                 "methods": [mm(1, [{"k": "dep", "bound": cls(2), "holds": []}, cls(1)]), mm(2, [cls(1), cls(2)]), mm(3, [cls(2), cls(1)])]})
    return jobs


def judged_ok(methods):
    """value_outcome is only judged when every annotation is a class, a Dependent or a Literal (bounds: classes or unions of classes)"""
    return all(t["k"] in ("cls", "dep", "lit") and (t["k"] == "cls" or t["bound"]["k"] in ("cls", "union"))
               for m in methods for t in list(m["pos"]) + list(m.get("kwt", [])))


def run(prop, tier, seed, replay=None):
    rep = Report(prop, tier, seed)
    rep.assumptions = [
        "user conditions are given extensionally and are deterministic",
        "Doc order: dependent type before every static type comparable with its bound; dependents compare like their bounds; equal bounds unordered (docs/dependent.md)",
        "worlds with unions of dependents are judged for runs_iff_holds and bound_guard only",
    ]
    mc = tlc.run_tlc("MC_Dep", "MC_Dep_quick.cfg" if tier == "quick" else "MC_Dep_thorough.cfg", timeout=3600)
    rep.add_tlc(mc, "model check MC_Dep (rank wrappers, strategies, fall-through vs Doc value outcome)")
    if mc.violated:
        rep.machinery_failure(f"model-level counter-example: {mc.violated} fails in MC_Dep")
    elif mc.rc != 0 or not mc.finished:
        rep.machinery_failure(f"MC_Dep did not finish (rc={mc.rc}): {mc.out[-800:]}")
    jobs = gen_jobs(tier, seed)
    res = pool.run(workers.dep_cases, jobs)
    res = [c for c in res if "skip" not in c]
    full = {c["id"]: c for c in res}
    cases = []
    strategies = {}
    for c in res:
        for s_ in c["strategies"]:
            strategies[s_] = strategies.get(s_, 0) + 1
        steps = []
        ok = judged_ok(c["world"]["methods"])
        for st in c["steps"]:
            o = st["obs"]
            steps.append({"call": st["call"], "obs": {"kind": o["kind"], "entered": o["entered"], "resolve": o["resolve"], "predlog": o["predlog"]}})
        cases.append({"id": c["id"], "props": ["C10"] if ok else ["C10G"], "world": c["world"], "steps": steps})
    verdicts = {}
    B = 800
    for k in range(0, len(cases), B):
        v, r = tlc.judge("Trace_Resolve", cases[k : k + B])
        rep.add_tlc(r, f"judge Trace_Resolve (C10Clause) batch {k // B}")
        verdicts.update(v)
    rep.judged = len(verdicts)
    for cid, v in verdicts.items():
        c = full[cid]
        for st in c["steps"]:
            rep.evaluations += 1
            if st["obs"]["predlog"]:
                rep.note_nontrivial(json.dumps([c["world"]["methods"], st["call"]], sort_keys=True))
        for rej in static.rejections(v):
            st = c["steps"][rej["step"] - 1]
            rep.rejected(rej["clause"], {"kind": "dep_case", "world": c["world"], "step": st, "case_id": cid},
                         {"world": c["world"], "step": st, "clause": rej["clause"], "kf": rej["kf"]})
    for c in res[:2]:
        rep.sample({"methods": c["world"]["methods"], "step": c["steps"][0]})
    rep.extra["dispatcher_strategies_seen"] = strategies
    for need in ("exclusive", "keyed", "counting"):
        if not strategies.get(need):
            rep.machinery_failure(f"vacuity: the generated dependent dispatcher never used the '{need}' strategy")
    rep.rule = (
        "random sets of 2-6 methods over {object, int, str, A, B(A), C}: Dependent[bound, predicate] with extensional predicates (also 'accepting' values outside "
        "the bound), Literal with 1-3 values, static classes, unions of dependents with different bounds, one or two dispatched positions, priorities; shapes that steer "
        "the generator onto its exclusive / keyed (lookup table) / counting strategies; every value of a 13-value universe. non-trivial = a user condition was evaluated."
    )
    return rep.finish()
