"""C18 (failed builds) and C19 (concurrent calls).

M    : spec/Build.tla - the lazy build as steps, with Fail steps (C18) and
       with threads (C19); TLC checks AnswersCorrect / EachAsAlone /
       FinalStateCorrect / RecoversAfterRemoval over every crash point and
       interleaving of the model; the *_pinned configurations document the
       counter-examples TLC found for the original code (entry point swapped
       in before the table is filled; no lock).
C->S : spec-independent exploration of the real code -
       C18: natural fault sources (invalid method at every registration
            position: misuse of call_next, conflicting names, unreadable
            source; user hook raising on its n-th call) and injected faults at
            every hook point and at (sampled / all) executed library lines,
            during first build, rebuild after a change and cache-miss
            resolution; probes afterwards and after removal of the offender.
       C19: a cooperative scheduler over real threads; all single-preemption
            (thorough: double) schedules at hook and at source-line
            granularity for racing first calls, racing cache misses (same /
            different argument types) and racing call_next chains; probes
            afterwards.
       Both are judged by the Doc layer (Trace_Resolve: C18Clause/C19Clause on
       top of the documented resolution rule).
"""

import json
import random

from .. import pool, tlc, workers, worlds
from ..report import Report
from . import static

PAR = [[], [1], [2], [1]]


def W1():
    ms = [
        worlds.mkmethod("m1", 1, [1], body="leaf"),
        worlds.mkmethod("m2", 2, [2], body="next"),
        worlds.mkmethod("m3", 3, [3], body="next"),
        worlds.mkmethod("mX", 4, [4], body="leaf", late=True),
    ]
    return {"parents": PAR, "methods": ms}, [worlds.mkcall([3]), worlds.mkcall([2]), worlds.mkcall([4])]


def W2():
    ms = [
        worlds.mkmethod("m1", 1, [1, 1], body="leaf"),
        worlds.mkmethod("m2", 2, [2, 1], body="next"),
        worlds.mkmethod("m3", 3, [3, 2], body="next"),
        worlds.mkmethod("m4", 4, [2, 2], body="next", prio=1),
        worlds.mkmethod("mX", 5, [4, 1], body="leaf", late=True),
    ]
    return {"parents": PAR, "methods": ms}, [worlds.mkcall([3, 3]), worlds.mkcall([2, 1]), worlds.mkcall([4, 1])]


def W3():
    # keyword-only parameter and an optional positional: exercises the argument analyser
    ms = [
        worlds.mkmethod("m1", 1, [1], body="leaf"),
        worlds.mkmethod("m2", 2, [2, 1], reqpos=1, body="leaf"),
        worlds.mkmethod("m3", 3, [3], kw=[("k", 1, False)], body="next"),
        worlds.mkmethod("mX", 4, [4], body="leaf", late=True),
    ]
    return {"parents": PAR, "methods": ms}, [worlds.mkcall([3]), worlds.mkcall([2, 2]), worlds.mkcall([3], [("k", 2)])]


def W4():
    # call_next with an argument of another class (the caller stays a candidate for it)
    ms = [
        worlds.mkmethod("m1", 1, [1], body="leaf"),
        worlds.mkmethod("m2", 2, [2], body={"k": "next_with", "pos": ["a3"]}),
        worlds.mkmethod("m3", 3, [3], body="next"),
        worlds.mkmethod("mX", 4, [4], body="leaf", late=True),
    ]
    return {"parents": PAR, "methods": ms, "argmap": {"a3": 3}, "budget": 1}, [worlds.mkcall([2]), worlds.mkcall([3]), worlds.mkcall([4])]


def W5():
    # optional keyword-only parameters: the generated entry point collects the keywords supplied by this call
    ms = [
        worlds.mkmethod("m1", 1, [1], kw=[("k", 1, False), ("j", 1, False)], body="leaf"),
        worlds.mkmethod("m2", 2, [2], kw=[("k", 1, False), ("j", 1, False)], body="next"),
        worlds.mkmethod("m3", 3, [3], kw=[("k", 1, False), ("j", 1, False)], body="next"),
        worlds.mkmethod("mX", 4, [4], body="leaf", late=True),
    ]
    return {"parents": PAR, "methods": ms}, [worlds.mkcall([3], [("k", 3)]), worlds.mkcall([3], [("j", 2)]), worlds.mkcall([2]),
                                             worlds.mkcall([3], [("k", 2), ("j", 3)])]


WORLDS = [W1, W2, W3]


def c18_jobs(tier, seed):
    thorough = tier == "thorough"
    jobs = []
    lim = 70 if not thorough else None
    for wi, mk in enumerate(WORLDS + [W4]):
        w, probes = mk()
        nm = len([m for m in w["methods"] if not m.get("late")])
        trig = probes[0]
        if mk is W4:
            # the resolution that fails is the one for K3; the first use of K3 afterwards is a call_next(K3 instance)
            # from the K2 method (probe [2] comes before probe [3])
            trig = probes[1]
        base = {"world": w, "probes": probes, "trigger": trig}
        # natural offenders, first build, every registration position
        for kind in ("misuse", "conflict", "kwclash", "nosource"):
            for at in range(nm + 1):
                jobs.append(dict(base, id=f"C18-w{wi}-first-{kind}-{at}", phase="first", offender={"kind": kind, "at": at, "cls": 2}))
            jobs.append(dict(base, id=f"C18-w{wi}-rebuild-{kind}", phase="rebuild", offender={"kind": kind, "at": nm, "cls": 2}))
        # raising user hook on its n-th invocation during a cache miss / first build
        for n in range(1, 7):
            jobs.append(dict(base, id=f"C18-w{wi}-miss-hook-{n}", phase="miss", warm=(probes[2] if mk is W4 else probes[1]),
                             offender={"kind": "hookraise", "at": nm, "n": n, "members": [2, 3], "prio": 1}))
            jobs.append(dict(base, id=f"C18-w{wi}-first-hook-{n}", phase="first",
                             offender={"kind": "hookraise", "at": 0, "n": n, "members": [2, 3], "prio": 1}))
            # a plain-Python subclass hook (ABC.__subclasshook__) raising a non-TypeError on its n-th call
            jobs.append(dict(base, id=f"C18-w{wi}-first-shook-{n}", phase="first",
                             offender={"kind": "subclasshook", "at": 0, "n": n, "members": [2, 3], "prio": 1}))
            jobs.append(dict(base, id=f"C18-w{wi}-miss-shook-{n}", phase="miss", warm=probes[2],
                             offender={"kind": "subclasshook", "at": nm, "n": n, "members": [2, 3], "prio": 1}))
        # injected faults: every hook point, sampled / all executed lines
        for phase in ("first", "rebuild", "miss"):
            extra = {"extra": "mX"} if phase == "rebuild" else {}
            warm = {"warm": (probes[2] if mk is W4 else probes[1])} if phase == "miss" else {}
            jobs.append(dict(base, id=f"C18-w{wi}-{phase}-hooks", phase=phase, inject={"kind": "hook", "n": "sweep"}, **extra, **warm))
            # split the line sweep into shards so that the pool can spread it
            shards = 4 if not thorough else 16
            for sh in range(shards):
                inj = {"kind": "line", "n": "sweep", "limit": (lim // shards + 1) if lim else None, "offset": sh * 7 + seed}
                if lim is None:
                    inj = {"kind": "line", "n": "sweep", "shard": [sh, shards]}
                jobs.append(dict(base, id=f"C18-w{wi}-{phase}-lines{sh}", phase=phase, inject=inj, **extra, **warm))
        # a focused sweep in every tier: every executed line of the resolution itself (MultiTypeMap.__missing__ / resolve, where the
        # entries of a combination and its call_next continuations are worked out and published) during a cache miss
        jobs.append(dict(base, id=f"C18-w{wi}-miss-resolve-lines", phase="miss", warm=(probes[2] if mk is W4 else probes[1]),
                         inject={"kind": "line", "n": "sweep", "only": ["resolve", "__missing__"]}))
    return jobs


def method_records(world, ids, offender=None):
    byid = {m["id"]: m for m in world["methods"]}
    out = []
    for j, mid in enumerate(ids):
        m = {k: v for k, v in byid[mid].items() if k not in ("late",)}
        m["reg"] = j + 1
        out.append(m)
    if offender is not None:
        out.append(offender)
    return out


def c18_cases(res):
    cases = []
    for c in res:
        job = c["job"]
        off = job.get("offender")
        steps = []
        for st in c["steps"]:
            if st["op"] != "probe":
                continue
            offrec = None
            if off and off["kind"] in ("hookraise", "subclasshook") and st["offender_present"]:
                offrec = worlds.mkmethod("offender", 99, [{"k": "check", "members": off["members"], "tag": "r"}], prio=1, body="leaf")
            ms = method_records(c["world"], st["live"], offrec)
            o = st["obs"]
            js = {"call": st["call"], "methods": ms,
                  "obs": {"kind": o["kind"], "entered": o["entered"], "resolve": o["resolve"]},
                  "allow_config": bool(st["round"] == 1 or not off),
                  "must_config": bool(st["offender_blocks_build"])}
            if job["phase"] == "rebuild" and not off:
                js["alt_methods"] = method_records(c["world"], [x for x in st["live"] if x != job.get("extra")])
            steps.append(js)
        cases.append({"id": c["id"], "props": ["C18"], "world": {"parents": c["world"]["parents"], "methods": []}, "steps": steps})
    return cases


def c19_jobs(tier, seed):
    thorough = tier == "thorough"
    jobs = []
    for wi, mk in enumerate(WORLDS[:2]):
        w, probes = mk()
        a, b = probes[0], probes[1]
        scen = {
            "first_diff": dict(threads={"A": a, "B": b}, warm=[]),
            "first_same": dict(threads={"A": a, "B": a}, warm=[]),
            "miss_same": dict(threads={"A": a, "B": a}, warm=[probes[2]]),
            "miss_diff": dict(threads={"A": a, "B": b}, warm=[probes[2]]),
            "chain_after_hit": dict(threads={"A": a, "B": a}, warm=[probes[2], b]),
        }
        for name, s in scen.items():
            jobs.append({"id": f"C19-w{wi}-{name}-hook", "world": w, "scenario": name, "after": probes,
                         "granularity": "hook", "switches": "sweep1", **s})
            jobs.append({"id": f"C19-w{wi}-{name}-hookab", "world": w, "scenario": name, "after": probes,
                         "granularity": "hook", "switches": "sweepab", "limit": (60 if not thorough else None), "offset": seed, **s})
            if name.startswith("first"):
                for sh in range(4 if not thorough else 16):
                    jobs.append({"id": f"C19-w{wi}-{name}-late{sh}", "world": w, "scenario": name, "after": probes,
                                 "granularity": "line", "switches": "sweepab", "pattern": "late_rebuild",
                                 "limit": (40 if not thorough else 1200), "offset": sh * 97 + seed, **s})
            for sh in range(2 if not thorough else 16):
                jobs.append({"id": f"C19-w{wi}-{name}-linehk{sh}", "world": w, "scenario": name, "after": probes,
                             "granularity": "line", "switches": "sweepab", "near_hooks": 2,
                             "limit": (15 if not thorough else 1500), "offset": sh * 211 + seed, **s})
            for sh in range(1 if not thorough else 8):
                jobs.append({"id": f"C19-w{wi}-{name}-lineab{sh}", "world": w, "scenario": name, "after": probes,
                             "granularity": "line", "switches": "sweepab", "limit": (25 if not thorough else 600),
                             "offset": sh * 101 + seed, **s})
            shards = 4 if not thorough else 8
            for sh in range(shards):
                jobs.append({"id": f"C19-w{wi}-{name}-line{sh}", "world": w, "scenario": name, "after": probes,
                             "granularity": "line", "switches": "sweep1",
                             "limit": (12 if not thorough else 400), "offset": sh * 5 + seed, **s})
            if thorough:
                for sh in range(8):
                    jobs.append({"id": f"C19-w{wi}-{name}-line2-{sh}", "world": w, "scenario": name, "after": probes,
                                 "granularity": "line", "switches": "sweep2", "limit": 300, "offset": sh * 37 + seed, **s})
                jobs.append({"id": f"C19-w{wi}-{name}-hook2", "world": w, "scenario": name, "after": probes,
                             "granularity": "hook", "switches": "sweep2", "limit": 400, **s})
    # racing a call_next(other class) with the first call for that class
    w, probes = W4()
    for name, s in {"chain_other": dict(threads={"A": probes[0], "B": probes[1]}, warm=[probes[2]]),
                    "chain_other_rev": dict(threads={"A": probes[1], "B": probes[0]}, warm=[probes[2]])}.items():
        jobs.append({"id": f"C19-w4-{name}-hook", "world": w, "scenario": name, "after": probes, "granularity": "hook", "switches": "sweep1", **s})
        jobs.append({"id": f"C19-w4-{name}-hookab", "world": w, "scenario": name, "after": probes, "granularity": "hook", "switches": "sweepab",
                     "limit": (80 if not thorough else None), "offset": seed, **s})
        for sh in range(2 if not thorough else 8):
            jobs.append({"id": f"C19-w4-{name}-line{sh}", "world": w, "scenario": name, "after": probes, "granularity": "line",
                         "switches": "sweep1", "limit": (30 if not thorough else 400), "offset": sh * 5 + seed, **s})
            jobs.append({"id": f"C19-w4-{name}-linehk{sh}", "world": w, "scenario": name, "after": probes, "granularity": "line",
                         "switches": "sweepab", "near_hooks": 2, "limit": (30 if not thorough else 1500), "offset": sh * 211 + seed, **s})
    # the same races with the calls made on the Ovld object (what variants, copies and mixin combinations hand out)
    w, probes = W1()
    wo = dict(w, via="object")
    a, b = probes[0], probes[1]
    for name, s in {"obj_first_diff": dict(threads={"A": a, "B": b}, warm=[]), "obj_first_same": dict(threads={"A": a, "B": a}, warm=[])}.items():
        jobs.append({"id": f"C19-w1-{name}-hook", "world": wo, "scenario": name, "after": probes, "granularity": "hook", "switches": "sweep1", **s})
        jobs.append({"id": f"C19-w1-{name}-hookab", "world": wo, "scenario": name, "after": probes, "granularity": "hook", "switches": "sweepab",
                     "limit": (60 if not thorough else None), "offset": seed, **s})
        for sh in range(2 if not thorough else 8):
            jobs.append({"id": f"C19-w1-{name}-late{sh}", "world": wo, "scenario": name, "after": probes, "granularity": "line",
                         "switches": "sweepab", "pattern": "late_rebuild", "limit": (30 if not thorough else 1200), "offset": sh * 97 + seed, **s})
            jobs.append({"id": f"C19-w1-{name}-line{sh}", "world": wo, "scenario": name, "after": probes, "granularity": "line",
                         "switches": "sweep1", "limit": (15 if not thorough else 400), "offset": sh * 5 + seed, **s})
    # three threads (sampled): first calls for three argument classes, and two equal ones against a third
    w, probes = W1()
    a, b = probes[0], probes[1]
    c3 = probes[2]
    for name, th in {"three_first_diff": {"A": a, "B": b, "C": c3}, "three_first_same2": {"A": a, "B": a, "C": b},
                     "three_miss": {"A": a, "B": b, "C": a}}.items():
        s = dict(threads=th, warm=([c3] if name == "three_miss" else []))
        for sh in range(2 if not thorough else 16):
            jobs.append({"id": f"C19-w1-{name}-hook3-{sh}", "world": w, "scenario": name, "after": probes, "granularity": "hook",
                         "switches": "sample3", "limit": (40 if not thorough else 400), "offset": sh * 31 + seed, **s})
            jobs.append({"id": f"C19-w1-{name}-line3-{sh}", "world": w, "scenario": name, "after": probes, "granularity": "line",
                         "switches": "sample3", "limit": (30 if not thorough else 400), "offset": sh * 17 + seed, **s})
    # the same races when every caller first reads the function's signature (an overloaded function handed to a
    # Callable[[...], ...] parameter of another one is inspected on every call)
    w, probes = W1()
    wp = dict(w, peek=True)
    a, b = probes[0], probes[1]
    for name, s in {"peek_first_diff": dict(threads={"A": a, "B": b}, warm=[]), "peek_first_same": dict(threads={"A": a, "B": a}, warm=[]),
                    "peek_warm": dict(threads={"A": a, "B": b}, warm=[a, b])}.items():
        jobs.append({"id": f"C19-w1-{name}-hook", "world": wp, "scenario": name, "after": probes, "granularity": "hook", "switches": "sweep1", **s})
        for sh in range(4 if not thorough else 16):
            jobs.append({"id": f"C19-w1-{name}-line{sh}", "world": wp, "scenario": name, "after": probes, "granularity": "line",
                         "switches": "sweep1", "limit": (40 if not thorough else 600), "offset": sh * 5 + seed, **s})
            jobs.append({"id": f"C19-w1-{name}-lineab{sh}", "world": wp, "scenario": name, "after": probes, "granularity": "line",
                         "switches": "sweepab", "limit": (40 if not thorough else 1200), "offset": sh * 101 + seed, **s})
    # racing calls that differ in the optional keywords they supply, on a function that is built and warm
    w, probes = W5()
    pairs = {"kw_kj": (probes[0], probes[1]), "kw_none": (probes[0], probes[2]), "kw_both": (probes[3], probes[1])}
    for name, (a, b) in pairs.items():
        s = dict(threads={"A": a, "B": b}, warm=[a, b])
        jobs.append({"id": f"C19-w5-{name}-line", "world": w, "scenario": name, "after": probes[:3], "granularity": "line",
                     "switches": "sweep1", "limit": (40 if not thorough else None), "offset": seed, **s})
        jobs.append({"id": f"C19-w5-{name}-lineab", "world": w, "scenario": name, "after": probes[:3], "granularity": "line",
                     "switches": "sweepab", "limit": (60 if not thorough else 1500), "offset": seed, **s})
    return jobs


def c19_cases(res):
    cases = []
    for c in res:
        ids = [m["id"] for m in sorted(c["world"]["methods"], key=lambda m: m["reg"]) if not m.get("late")]
        ms = method_records(c["world"], ids)
        steps = []
        for st in c["steps"]:
            o = st["obs"]
            steps.append({"call": st["call"], "methods": ms, "role": st["op"],
                          "obs": {"kind": o["kind"], "entered": o["entered"], "resolve": o.get("resolve", {"kind": "skip", "m": ""})}})
        cases.append({"id": c["id"], "props": ["C19"], "world": {"parents": c["world"]["parents"], "methods": []}, "steps": steps})
    return cases


def trace_jobs(prop, tier, seed):
    """Executions recorded for trace validation against Build.tla (Impl layer): W1, both threads call the
    function for the first time (same or different argument classes), every single pre-emption and every
    A-to-a / B-to-b double pre-emption at hook granularity, sampled ones at line granularity; for C18 a
    fault injected at each of the leading thread's build hooks, alone and with a second thread."""
    thorough = tier == "thorough"
    w, probes = W1()
    a, b = probes[0], probes[1]
    jobs = []
    for name, th in {"same": {"A": a, "B": a}, "diff": {"A": a, "B": b}, "rev": {"A": b, "B": a}}.items():
        base = {"world": w, "threads": th, "after": [a, b]}
        if prop == "C19":
            jobs.append(dict(base, id=f"TB-{name}-hook1", granularity="hook", switches="sweep1"))
            jobs.append(dict(base, id=f"TB-{name}-hookab", granularity="hook", switches="sweepab",
                             limit=(40 if not thorough else None), offset=seed))
            for sh in range(2 if not thorough else 8):
                jobs.append(dict(base, id=f"TB-{name}-line{sh}", granularity="line", switches="sweep1",
                                 limit=(15 if not thorough else 300), offset=seed + 13 * sh))
                jobs.append(dict(base, id=f"TB-{name}-lineab{sh}", granularity="line", switches="sweepab",
                                 limit=(15 if not thorough else 600), offset=seed + 29 * sh))
        else:
            faults = [{"thread": "A", "n": n} for n in range(1, 10)]
            jobs.append(dict(base, id=f"TB-{name}-fault-hook1", granularity="hook", switches="sweep1", faults=faults,
                             limit=(6 if not thorough else None), offset=seed))
            jobs.append(dict(base, id=f"TB-{name}-faultB-hook1", granularity="hook", switches="sweep1",
                             faults=[{"thread": "B", "n": n} for n in (1, 3, 5, 8)], limit=(4 if not thorough else None), offset=seed + 1))
            if thorough:
                jobs.append(dict(base, id=f"TB-{name}-fault-line", granularity="line", switches="sweep1", faults=faults, limit=60, offset=seed))
    return jobs


def validate_build_traces(rep, prop, tier, seed):
    """C->S for the Impl layer of C18 / C19: recorded executions must be behaviours of Build.tla."""
    res = pool.run(workers.build_trace_cases, trace_jobs(prop, tier, seed), chunks_per_proc=4)
    bugs = [c for c in res if "skip" in c]
    if bugs:
        rep.machinery_failure("harness error (build traces): " + bugs[0]["skip"])
    res = [c for c in res if "skip" not in c]
    if not res:
        return
    cases = [{"id": c["id"], "events": c["events"]} for c in res]
    # the binding itself is exercised on every run: corrupted copies of recorded traces must be rejected
    # (a wrong answer; the registration of one method missing; the build finishing without its swap)
    controls = {}
    for c in res:
        ev = c["events"]
        ends = [j for j, e in enumerate(ev) if e["ev"] == "end" and e["res"] > 0]
        regs = [j for j, e in enumerate(ev) if e["ev"] == "registered"]
        swaps = [j for j, e in enumerate(ev) if e["ev"] == "swapped"]
        if "wrong_answer" not in controls and ends:
            bad_ev = [dict(e) for e in ev]
            bad_ev[ends[0]]["res"] = bad_ev[ends[0]]["res"] % 3 + 1 if bad_ev[ends[0]]["res"] != bad_ev[ends[0]]["res"] % 3 + 1 else 0
            controls["wrong_answer"] = {"id": "CONTROL-wrong_answer", "events": bad_ev}
        if "missing_registration" not in controls and len(regs) >= 2 and swaps:
            controls["missing_registration"] = {"id": "CONTROL-missing_registration", "events": [e for j, e in enumerate(ev) if j != regs[0]]}
        if "missing_swap" not in controls and swaps and not any(e["ev"] == "failed" for e in ev):
            controls["missing_swap"] = {"id": "CONTROL-missing_swap", "events": [e for j, e in enumerate(ev) if j != swaps[0]]}
        if len(controls) == 3:
            break
    v, r = tlc.judge("Trace_Build", cases + list(controls.values()), workers=1, jvm=("-Dtlc2.tool.impl.Tool.cdot=true",))
    rep.add_tlc(r, "trace validation Trace_Build (recorded build executions are behaviours of Build.tla)")
    for name, c in controls.items():
        x = v.pop(c["id"], None)
        if x is None or not x["clause"]:
            rep.machinery_failure(f"Trace_Build accepts a corrupted trace ({name}): the trace specification no longer binds")
    rep.extra["build_trace_controls_rejected"] = sorted(controls)
    full = {c["id"]: c for c in res}
    bad = [(cid, x) for cid, x in v.items() if x["clause"]]
    rep.extra["build_traces_validated"] = len(v)
    rep.extra["build_traces_rejected"] = len(bad)
    rep.extra["build_trace_events"] = sum(len(c["events"]) for c in res)
    rep.extra["build_traces_with_fault_struck"] = len([c for c in res if any(e["ev"] == "failed" for e in c["events"])])
    rep.extra["build_traces_second_thread_waited"] = len([
        c for c in res
        if any(e["ev"] == "start" and e["t"] == 2 and any(f["ev"] == "locked" and f["t"] == 1 for f in c["events"][:j])
               and not any(f["ev"] in ("end", "failed") and f["t"] == 1 for f in c["events"][:j]) for j, e in enumerate(c["events"]))])
    if bad:
        cid, x = bad[0]
        c = full[cid]
        k = static.rejections(x)[0]["step"]
        rep.spec_drift(f"Build.tla does not explain event {k} of {cid} (schedule {c['schedule']}, fault {c['fault']}): "
                       f"{json.dumps(c['events'][: k])[-600:]} [{len(bad)} of {len(v)} traces]")


def run(prop, tier, seed, replay=None):
    level = "fault_enumeration" if prop == "C18" else "model_checking"
    rep = Report(prop, tier, seed, level)
    thorough = tier == "thorough"
    # (MC_Build_c1819.cfg - two threads AND faults - has a counter-example that lies outside both statements: see DESIGN 12.4)
    # (MC_Build_c19_peek.cfg: both threads read the signature before each call, the analysis being published when complete;
    #  MC_Build_c19_peek_pinned.cfg - analysis assigned empty, then refilled in place - is the documented counter-example)
    cfgs = ["MC_Build_c18.cfg"] if prop == "C18" else ["MC_Build_c19.cfg", "MC_Build_c19_3.cfg", "MC_Build_c19_peek.cfg"]
    if thorough:
        cfgs.append("MC_Build_thorough18.cfg" if prop == "C18" else "MC_Build_thorough19.cfg")
        if prop == "C19":
            cfgs.append("MC_Build_thorough19_peek.cfg")
    for cfg in cfgs:
        mc = tlc.run_tlc("Build", cfg, timeout=1800)
        rep.add_tlc(mc, f"model check Build.tla {cfg} (AnswersCorrect, EachAsAlone, FinalStateCorrect, RecoversAfterRemoval)")
        if mc.violated:
            rep.machinery_failure(f"model-level counter-example: {mc.violated} fails in Build.tla ({cfg})")
        elif mc.rc != 0 or not mc.finished:
            rep.machinery_failure(f"Build.tla did not finish ({cfg}, rc={mc.rc}): {mc.out[-600:]}")
    if prop == "C19" and thorough:
        # unbounded in the number of calls and the length of behaviours: the inductive invariant of Build.tla for the C19
        # configuration (spec/MC_BuildApa.tla), discharged by Apalache; three vacuity controls must be violated
        obligations = [("Init", "IndInv", 0, "NoError"), ("IndInit", "IndInv", 1, "NoError"), ("IndInit", "Safe", 0, "NoError"),
                       ("IndInit", "NobodyDispatches", 0, "Error"), ("IndInit", "NobodyRegistersSecond", 0, "Error"),
                       ("IndInit", "NobodyCompiledWithPeek", 0, "Error")]
        apa = []
        for init, inv, length, want in obligations:
            outcome, wall = tlc.run_apalache("MC_BuildApa", init, inv, length)
            apa.append({"init": init, "inv": inv, "length": length, "outcome": outcome, "expected": want, "wall_s": wall})
            if outcome != want:
                rep.machinery_failure(f"Apalache obligation {init} / {inv} / length {length}: {outcome} (expected {want})")
        rep.extra["apalache_inductive_invariant"] = apa
    if prop == "C18":
        jobs = c18_jobs(tier, seed)
        res = pool.run(workers.fault_cases, jobs, chunks_per_proc=8)
    else:
        jobs = c19_jobs(tier, seed)
        res = pool.run(workers.sched_cases, jobs, chunks_per_proc=8)
    bugs = [c for c in res if "skip" in c]
    if bugs:
        rep.machinery_failure("harness error: " + bugs[0]["skip"])
    res = [c for c in res if "skip" not in c]
    cases = c18_cases(res) if prop == "C18" else c19_cases(res)
    full = {c["id"]: c for c in res}
    verdicts = {}
    B = 2500
    for k in range(0, len(cases), B):
        v, r = tlc.judge("Trace_Resolve", cases[k : k + B])
        rep.add_tlc(r, f"judge Trace_Resolve ({prop}Clause) batch {k // B}")
        verdicts.update(v)
    rep.judged = len(verdicts)
    pts = {}
    for c in res:
        rep.evaluations += 1
        if prop == "C18":
            f = c["steps"][0]
            if f["result"] != "ok":
                rep.note_nontrivial(c["id"])
            pts.setdefault(c["id"].split("@")[0], c.get("points_total", 1))
        else:
            if c["schedule"]:
                rep.note_nontrivial(c["id"])
            pts.setdefault(c["id"].split("@")[0], c.get("points_total", 1))
            if c.get("stuck"):
                rep.rejected("C19:each_as_alone.deadlock", {"kind": "schedule", "case": c}, {})
    for cid, v in verdicts.items():
        c = full[cid]
        for rej in static.rejections(v):
            rep.rejected(rej["clause"], {"kind": "fault_case" if prop == "C18" else "schedule_case",
                                         "world": c["world"], "job": c.get("job"), "schedule": c.get("schedule"),
                                         "steps": c["steps"], "case_id": cid}, {})
    for c in res[:1] + res[len(res) // 2 : len(res) // 2 + 1]:
        rep.sample({"id": c["id"], "job": c.get("job"), "schedule": c.get("schedule"),
                    "steps": [{k: v for k, v in s.items() if k not in ("live",)} for s in c["steps"][:4]]})
    rep.extra["points_per_scenario"] = pts
    validate_build_traces(rep, prop, tier, seed)
    if prop == "C18":
        from . import inflight

        inflight.parent_invalid_into(rep)
        inflight.child_first_invalid_into(rep)
    if prop == "C18":
        rep.rule = (
            "3 worlds x {first build, rebuild after a change, cache-miss resolution} x fault sources: invalid method (misuse of call_next, "
            "conflicting positional names, positional/keyword clash, unreadable source) at every registration position; user hook raising on "
            "its n-th invocation (n=1..6); injected fault at every hook point; injected fault at "
            + ("every" if thorough else "evenly sampled")
            + " executed library line (trace function). After each: 3 probe calls, removal of the offender, 3 probe calls. "
            "evaluations = fault scenarios run; non-trivial = the fault actually struck (the triggering action failed)."
        )
    else:
        rep.rule = (
            "2 worlds x scenarios {racing first calls (same / different argument types), racing cache misses (same / different), racing "
            "call_next chains after a hit} x schedules: every single pre-emption and (sampled in the quick tier) every A-to-a / B-to-b / A-resumes double pre-emption at hook granularity, "
            + ("every single and sampled double pre-emptions" if thorough else "evenly sampled single pre-emptions")
            + " at source-line granularity (cooperative scheduler over real threads); 3 probe calls afterwards. "
            "evaluations = schedules run; non-trivial = schedules with at least one pre-emption inside the library."
        )
    rep.assumptions = [
        "pre-emption / interrupt granularity = executed source line of the library (trace function); bytecode-level races inside one line are not explored",
        "C18: 'configuration error' = an exception raised out of the build (traceback through compile) or the injected fault itself",
        "C19: the scheduler serialises threads; a thread that makes no progress for 40 ms while holding the turn is considered blocked on a lock",
    ]
    return rep.finish()
