"""Method-set changes while a call is in flight (part of C05 and C08).

C05: "... interleaved with calls at any point, every later call behaves exactly as it would on a brand-new
function built from the resulting method set" - a registration made by a running method is a change at a
point inside a call, and the recursion that follows is a later call.
C08: "recurse(args) behaves exactly like calling, with those args, the function through which the current call
was dispatched" - for a linked variant that function has, by then, received the ancestor's change.

The recursion is judged by the documented resolution rule over the method set after the change
(Trace_Resolve, props C05N / C08N -> PlainClause).
"""

from .. import pool, tlc, workers, worlds
from . import static

PAR = [[], [1], [2], [1]]
METHODS = {
    "fb": worlds.mkmethod("fb", 1, [4], body="leaf"),
    "m1": worlds.mkmethod("m1", 2, [1], body="leaf"),
    "m2": worlds.mkmethod("m2", 3, [2], body="leaf"),
    "mv": worlds.mkmethod("mv", 4, [3, 1], body="leaf"),
}


def jobs_for(prop):
    modes = ["plain"] if prop == "C05" else ["variant", "variant2"]
    jobs = []
    for mode in modes:
        for change in ("register", "unregister"):
            for via in (("recurse", "name", "next") if mode == "plain" else ("recurse", "next")):
                for warm in (False, True):
                    jobs.append({"id": f"{prop}-inflight-{mode}-{change}-{via}-{'warm' if warm else 'cold'}", "prop": prop,
                                 "mode": mode, "change": change, "via": via, "warm": warm})
    if prop == "C05":
        # the running method unregisters itself, then recurses (by recurse / by name) with an argument of its own class
        for via in ("recurse", "name"):
            for warm in (False, True):
                jobs.append({"id": f"C05-inflight-plain-selfunregister-{via}-{'warm' if warm else 'cold'}", "prop": prop,
                             "mode": "plain", "change": "unregister", "via": via, "warm": warm, "selfunreg": True})
        # the method registered during the call is the function's first type[...] method; the recursion passes a class
        for via in ("recurse", "name"):
            for warm in (False, True):
                jobs.append({"id": f"C05-inflight-plain-register-{via}-{'warm' if warm else 'cold'}-typearg", "prop": prop,
                             "mode": "plain", "change": "register", "via": via, "warm": warm, "typearg": True})
    return jobs


def run_into(rep, prop):
    res = pool.run(workers.inflight_cases, jobs_for(prop), procs=2)
    bugs = [c for c in res if "skip" in c]
    if bugs:
        rep.machinery_failure("harness error (in-flight change): " + bugs[0]["skip"])
    res = [c for c in res if "skip" not in c]
    cases = []
    for c in res:
        if not c["split_seen"]:
            rep.machinery_failure(f"in-flight scenario {c['id']} never reached its change point: {c['obs']}")
            continue
        ms = []
        for j, mid in enumerate(c["live_after"]):
            m = dict(METHODS[mid])
            m["reg"] = j + 1
            ms.append(m)
        cases.append({"id": c["id"], "props": [prop + "N"], "world": {"parents": PAR, "methods": ms},
                      "steps": [{"call": c["call"], "obs": {"kind": c["obs"]["kind"], "entered": c["obs"]["entered"], "resolve": c["obs"]["resolve"]}}]})
    if not cases:
        return
    v, r = tlc.judge("Trace_Resolve", cases)
    rep.add_tlc(r, "judge Trace_Resolve (recursion after a change made by the running method)")
    rep.judged += len(v)
    full = {c["id"]: c for c in res}
    for cid, x in v.items():
        rep.evaluations += 1
        rep.note_nontrivial(cid)
        for rej in static.rejections(x):
            rep.rejected(rej["clause"], {"kind": "inflight_change", "scenario": full[cid]["job"], "observed": full[cid]["obs"],
                                         "methods_after": full[cid]["live_after"], "case_id": cid}, {})
    rep.extra["inflight_change_scenarios"] = len(cases)


LF_METHODS = {
    "m1": worlds.mkmethod("m1", 1, [2], body="leaf"),
    "own2": worlds.mkmethod("own2", 2, [3], body="leaf"),
    "late": worlds.mkmethod("late", 3, [4], body="leaf"),
}


def linkfail_into(rep, prop):
    """A change on a parent whose propagation fails in one linked child (C16: the change shows up in every child it
    can; C18: never a silently stale table).  P and the healthy child C2 are judged with the documented rule over
    the method set with the new method - or, if the registration was refused as a whole, without it."""
    jobs = [{"id": f"{prop}-linkfail-{o}", "order": o} for o in ("c1first", "c2first")]
    if prop == "C16":
        # ... and a change whose rebuild of the parent itself is cut short by an interrupt
        jobs += [{"id": f"{prop}-linkfail-interrupt-{o}", "order": o, "kind": "interrupt"} for o in ("c1first", "c2first")]
    res = pool.run(workers.linkfail_cases, jobs, procs=2)
    bugs = [c for c in res if "skip" in c]
    if bugs:
        rep.machinery_failure("harness error (link failure): " + bugs[0]["skip"])
    cases = []
    full = {}
    for c in [c for c in res if "skip" not in c]:
        took = c["P"]["K4"]["kind"] == "run"     # did the parent get the method?
        for node, own in (("P", []), ("C2", ["own2"])):
            ids = ["m1"] + own + (["late"] if took else [])
            ms = []
            for j, mid in enumerate(ids):
                m = dict(LF_METHODS[mid])
                m["reg"] = j + 1
                ms.append(m)
            steps = []
            for cls_, cid in (("K4", 4), ("K3", 3)):
                o = c[node][cls_]
                call = {"pos": [{"c": cid}], "kwn": [], "kwa": []}
                steps.append({"call": call, "obs": {"kind": o["kind"], "resolve": {"kind": "skip", "m": ""},
                                                    "entered": [{"m": mid, "call": call, "next": {"has": False, "call": {"pos": [], "kwn": [], "kwa": []}}} for mid in o["entered"]]}})
            cid_ = f"{c['id']}-{node}"
            full[cid_] = c
            cases.append({"id": cid_, "props": [prop + "N"], "world": {"parents": PAR, "methods": ms}, "steps": steps})
    if not cases:
        return
    v, r = tlc.judge("Trace_Resolve", cases)
    rep.add_tlc(r, "judge Trace_Resolve (parent and healthy child after a propagation that failed in another child)")
    rep.judged += len(v)
    for cid, x in v.items():
        rep.evaluations += 2
        rep.note_nontrivial(cid)
        for rej in static.rejections(x):
            rep.rejected(rej["clause"].replace("recursion_after_change", "change_reaches_every_linked_child").replace("change_during_call", "change_reaches_every_linked_child"),
                         {"kind": "link_failure", "scenario": full[cid]["job"], "register": full[cid]["register"],
                          "P": full[cid]["P"], "C2": full[cid]["C2"], "case_id": cid}, {})
    rep.extra["link_failure_scenarios"] = len(cases)


def parent_invalid_into(rep):
    """C18: an invalid method registered on a parent in use: every linked child's method set now contains it, so a
    call on a child is a configuration error too (never an answer from the table built before the change)."""
    res = pool.run(workers.linkfail_cases, [{"id": "C18-parentinvalid", "order": "c1first", "kind": "parent_invalid"}], procs=1)
    bugs = [c for c in res if "skip" in c]
    if bugs:
        rep.machinery_failure("harness error (invalid method on a parent): " + bugs[0]["skip"])
        return
    c = res[0]
    cases = []
    for node in ("P", "C2"):
        o = c[node]["K3"]
        call = {"pos": [{"c": 3}], "kwn": [], "kwa": []}
        ms = [dict(LF_METHODS["m1"], reg=1)] + ([dict(LF_METHODS["own2"], reg=2)] if node == "C2" else [])
        cases.append({"id": f"C18-parentinvalid-{node}", "props": ["C18"], "world": {"parents": PAR, "methods": []},
                      "steps": [{"call": call, "methods": ms, "allow_config": True, "must_config": True,
                                 "obs": {"kind": o["kind"], "resolve": {"kind": "skip", "m": ""},
                                         "entered": [{"m": mid, "call": call, "next": {"has": False, "call": {"pos": [], "kwn": [], "kwa": []}}} for mid in o["entered"]]}}]})
    v, r = tlc.judge("Trace_Resolve", cases)
    rep.add_tlc(r, "judge Trace_Resolve (C18Clause: linked child after an invalid method was registered on its parent)")
    rep.judged += len(v)
    for cid, x in v.items():
        rep.evaluations += 1
        for rej in static.rejections(x):
            rep.rejected(rej["clause"], {"kind": "parent_invalid", "register": c["register"], "P": c["P"], "C2": c["C2"], "case_id": cid}, {})


def child_first_invalid_into(rep):
    """C18: the offending method is on a parent and the first function put to use is a copy / variant of it (not
    linked).  "Once the offending method is removed the function works normally": after the removal from the parent
    both the parent and the child answer according to their complete method sets."""
    jobs = [{"id": f"C18-childfirst-{how}-{first}", "kind": "child_first_invalid", "how": how, "first": first}
            for how in ("copy", "variant") for first in ("child", "parent")]
    res = pool.run(workers.linkfail_cases, jobs, procs=1)
    bugs = [c for c in res if "skip" in c]
    if bugs:
        rep.machinery_failure("harness error (invalid method on a parent, child used first): " + bugs[0]["skip"])
        return
    cases = []
    full = {}
    for c in res:
        def step(o, cls, ms, must_config=False):
            call = {"pos": [{"c": cls}], "kwn": [], "kwa": []}
            return {"call": call, "methods": ms, "allow_config": must_config, "must_config": must_config,
                    "obs": {"kind": o["kind"], "resolve": {"kind": "skip", "m": ""},
                            "entered": [{"m": mid, "call": call, "next": {"has": False, "call": {"pos": [], "kwn": [], "kwa": []}}} for mid in o["entered"]]}}
        m1 = dict(LF_METHODS["m1"], reg=1)
        own2 = dict(LF_METHODS["own2"], reg=2)
        first_ms = [m1, own2] if c["job"]["first"] == "child" else [m1]
        steps = [step(c["first_call"], 3, first_ms, must_config=True),
                 step(c["P"]["K3"], 3, [m1]), step(c["P"]["K4"], 4, [m1]),
                 step(c["C"]["K3"], 3, [m1, own2]), step(c["C"]["K2"], 2, [m1, own2])]
        cid = c["id"]
        full[cid] = c
        cases.append({"id": cid, "props": ["C18"], "world": {"parents": PAR, "methods": []}, "steps": steps})
    v, r = tlc.judge("Trace_Resolve", cases)
    rep.add_tlc(r, "judge Trace_Resolve (C18Clause: offender on a parent, a copy / variant used first, then removed from the parent)")
    rep.judged += len(v)
    for cid, x in v.items():
        rep.evaluations += 5
        for rej in static.rejections(x):
            c = full[cid]
            rep.rejected(rej["clause"] + ".after_removal_from_parent" if rej["step"] > 1 else rej["clause"],
                         {"kind": "child_first_invalid", "job": c["job"], "removal": c["removal"], "P": c["P"], "C": c["C"], "case_id": cid}, {})
