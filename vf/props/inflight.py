"""Method-set changes while a call is in flight (part of C05 and C08).

C05: "... interleaved with calls at any point, every later call behaves exactly as it would on a brand-new
function built from the resulting method set" - a registration made by a running method is a change at a
point inside a call, and the recursion that follows is a later call.
C08: "recurse(args) behaves exactly like calling, with those args, the function through which the current call
was dispatched" - for a linked variant that function has, by then, received the ancestor's change.

The recursion is judged by the documented resolution rule over the method set after the change
(Trace_Resolve, props C05N / C08N -> PlainClause).
"""

from .. import pool, tlc, workers, worlds
from . import static

PAR = [[], [1], [2], [1]]
METHODS = {
    "fb": worlds.mkmethod("fb", 1, [4], body="leaf"),
    "m1": worlds.mkmethod("m1", 2, [1], body="leaf"),
    "m2": worlds.mkmethod("m2", 3, [2], body="leaf"),
    "mv": worlds.mkmethod("mv", 4, [3, 1], body="leaf"),
}


def jobs_for(prop):
    modes = ["plain"] if prop == "C05" else ["variant", "variant2"]
    jobs = []
    for mode in modes:
        for change in ("register", "unregister"):
            for via in (("recurse", "name", "next") if mode == "plain" else ("recurse", "next")):
                for warm in (False, True):
                    jobs.append({"id": f"{prop}-inflight-{mode}-{change}-{via}-{'warm' if warm else 'cold'}", "prop": prop,
                                 "mode": mode, "change": change, "via": via, "warm": warm})
    return jobs


def run_into(rep, prop):
    res = pool.run(workers.inflight_cases, jobs_for(prop), procs=2)
    bugs = [c for c in res if "skip" in c]
    if bugs:
        rep.machinery_failure("harness error (in-flight change): " + bugs[0]["skip"])
    res = [c for c in res if "skip" not in c]
    cases = []
    for c in res:
        if not c["split_seen"]:
            rep.machinery_failure(f"in-flight scenario {c['id']} never reached its change point: {c['obs']}")
            continue
        ms = []
        for j, mid in enumerate(c["live_after"]):
            m = dict(METHODS[mid])
            m["reg"] = j + 1
            ms.append(m)
        cases.append({"id": c["id"], "props": [prop + "N"], "world": {"parents": PAR, "methods": ms},
                      "steps": [{"call": c["call"], "obs": {"kind": c["obs"]["kind"], "entered": c["obs"]["entered"], "resolve": c["obs"]["resolve"]}}]})
    if not cases:
        return
    v, r = tlc.judge("Trace_Resolve", cases)
    rep.add_tlc(r, "judge Trace_Resolve (recursion after a change made by the running method)")
    rep.judged += len(v)
    full = {c["id"]: c for c in res}
    for cid, x in v.items():
        rep.evaluations += 1
        rep.note_nontrivial(cid)
        for rej in static.rejections(x):
            rep.rejected(rej["clause"], {"kind": "inflight_change", "scenario": full[cid]["job"], "observed": full[cid]["obs"],
                                         "methods_after": full[cid]["live_after"], "case_id": cid}, {})
    rep.extra["inflight_change_scenarios"] = len(cases)
