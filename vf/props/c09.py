"""C09: source rewriting changes nothing except the recurse / call_next sites.

Doc  : spec/Recode.tla - an event semantics Eval for method bodies (leaf
       evaluations, dispatches with the values they carry, value, exception)
       with left-to-right, exactly-once evaluation built in, and the grammar
       (WellFormed) of call-site placements.
C->S : programs of the grammar (every context around every call-site form,
       depth 2 exhaustively and depth 3 sampled) are rendered as Python in five
       wrappers (function, method with self, closure, defaults and
       keyword-only defaults, generator), run registered on a real function and
       unregistered with recurse / call_next / the own name bound to ordinary
       callables; Trace_Recode compares both recordings with Eval (three-way;
       a disagreement between Eval and the unregistered run is a machinery
       error) and checks acceptance of the placement and the traceback lines.
"""

import json
import random

from .. import pool, progs, tlc, workers
from ..report import Report
from . import static


def run(prop, tier, seed, replay=None):
    rep = Report(prop, tier, seed, level="translation_validation")
    thorough = tier == "thorough"
    rep.assumptions = [
        "the transformation is one pure function: TLA+ contributes the grammar and the event semantics; the decisive comparison is differential (DESIGN 5 C09)",
        "generator wrapper uses call_next sites only (a generator method cannot be re-entered for its value)",
    ]
    P = progs.enumerate_programs(tier, seed)
    wrappers = progs.WRAPPERS
    rng = random.Random(seed)
    jobs = []
    for j, p in enumerate(P):
        ws = (wrappers + progs.EXTRA_WRAPPERS) if thorough else [wrappers[j % len(wrappers)], "plain"]
        if not thorough and j % 3 == 0 and any(x in json.dumps(p) for x in ('"poskw": true', '"dstar": true', '"n": "CX"')):
            ws = ws + ["twopos"]
        for w in dict.fromkeys(ws):
            jobs.append({"id": f"C09-{len(jobs)}", "prog": progs.to_next(p) if w == "generator" else p, "wrapper": w})
    res = pool.run(workers.recode_cases, jobs)
    full = {c["id"]: c for c in res}
    cases = [{k: c[k] for k in ("id", "prog", "wrapper", "offset", "reg", "unreg")} for c in res]
    verdicts = {}
    B = 1500
    for k in range(0, len(cases), B):
        v, r = tlc.judge("Trace_Recode", cases[k : k + B])
        rep.add_tlc(r, f"judge Trace_Recode batch {k // B}")
        verdicts.update(v)
    rep.judged = len(verdicts)
    ndis = 0
    kinds = {}
    for cid, v in verdicts.items():
        c = full[cid]
        rep.evaluations += 1
        rep.note_nontrivial(json.dumps(c["prog"], sort_keys=True) + c["wrapper"])
        for rej in static.rejections(v):
            ndis += 1
            if rej["clause"].startswith("premise"):
                rep.machinery_failure(f"{rej['clause']} in {cid}: {c['src'][:300]} unreg={c['unreg']}")
                continue
            rep.rejected(rej["clause"], {"kind": "program", "prog": c["prog"], "wrapper": c["wrapper"], "source": c["src"],
                                         "registered": c["reg"], "unregistered": c["unreg"], "case_id": cid},
                         {"prog": c["prog"], "src": c["src"], "reg": c["reg"], "clause": rej["clause"]})
    for c in res[:3]:
        rep.sample({"wrapper": c["wrapper"], "source": c["src"], "registered": c["reg"]})
    rep.extra["programs"] = len(res)
    rep.extra["disagreements_checked"] = ndis
    rep.rule = (
        "call-site forms (recurse / call_next / own name; positional, *[..], k=.., **{..}) x contexts (bare, arithmetic either side, conditional expression in each "
        "position incl. dead branches, and / or with short-circuit, list comprehension and generator expression element / condition / iterable, lambda, nested def, "
        "f-string, walrus, nested call sites, raising leaves before / inside / after) x wrappers (function, method with self, closure, defaults + keyword-only defaults, generator)."
    )
    return rep.finish()
