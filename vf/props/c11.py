"""C11: Literal and the built-in value types match exactly their documented
values, whichever checking code the library generates.

C->S : every type of a closure of the built-in constructors (Literal with one /
       several / mixed-type values, tuple[...], shallow Sequence / list /
       Collection / Mapping / dict element checks, StartsWith, EndsWith, HasKey,
       Regexp, & and |, nestings) x a corpus of 31 values x 5 companion method
       sets (>= 4 disjoint literals: lookup table; dependents: counting;
       overlapping literals; registration order).  Judge: Trace_Value.tla.
M    : MC_Dep (strategies of the generated dispatcher vs the Doc value outcome).
"""

import json

from .. import pool, tlc, valuniv, workers
from ..report import Report
from . import static


def run(prop, tier, seed, replay=None):
    rep = Report(prop, tier, seed)
    thorough = tier == "thorough"
    rep.assumptions = [
        "no cross-type-equal values inside one Literal (1 / True / 1.0 kept apart); Regexp is judged against isinstance only",
        "shallow element checks look at the first element / first key only (docs/types.md)",
    ]
    mc = tlc.run_tlc("MC_Dep", "MC_Dep_quick.cfg" if not thorough else "MC_Dep_thorough.cfg", timeout=3600)
    rep.add_tlc(mc, "model check MC_Dep (dispatcher strategies vs Doc value outcome)")
    if mc.violated or mc.rc != 0:
        rep.machinery_failure(f"MC_Dep: {mc.violated or mc.rc}")
    T = valuniv.types(big=thorough)
    jobs = [{"id": f"C11-{j}", "t": t, "k3pos": j + seed} for j, t in enumerate(T)]
    res = pool.run(workers.value_cases, jobs, chunks_per_proc=2)
    for c in res:
        if "skip" in c:
            rep.machinery_failure(f"cannot realise type {c['id']}: {c['skip']}")
    res = [c for c in res if "skip" not in c]
    full = {c["id"]: c for c in res}
    cases = [{k: v for k, v in c.items() if k != "py"} for c in res]
    verdicts, r = tlc.judge("Trace_Value", cases)
    rep.add_tlc(r, "judge Trace_Value")
    rep.judged = len(verdicts)
    for cid, v in verdicts.items():
        c = full[cid]
        for j, st in enumerate(c["steps"]):
            rep.evaluations += len(st["disp"])
            if st["isinst"]:
                rep.note_nontrivial(cid + "/" + str(j))
        for rej in static.rejections(v):
            st = c["steps"][rej["step"] - 1]
            if rej["clause"].startswith("X4:"):
                rep.extra_note(rej["clause"], {"type": c["py"], "value": st["a"], "step": st, "case_id": cid})
                continue
            rep.rejected(rej["clause"], {"kind": "value_case", "type": c["py"], "value": st["a"], "step": st,
                                         "companions": c["companions"], "case_id": cid}, {"t": c["t"], "step": st})
    ncall = sum(len(c["steps"]) for c in res if c["t"]["k"] == "callable")
    if ncall:
        rep.extra_checked("X4:callable", ncall)
    for c in res[:2]:
        rep.sample({"type": c["py"], "steps": c["steps"][:3]})
    rep.rule = (
        f"{len(res)} types x {len(valuniv.CORPUS)} values x {len(workers.COMPANIONS)} companion method sets "
        "(plain; >= 4 disjoint int and str literals: lookup table; never-true dependents: counting; overlapping literals; T registered last). "
        "evaluations = dispatches; non-trivial = (type, value) pairs where the value is an instance of the type."
    )
    rep.exhaustive = True
    return rep.finish()
