"""C03: the dispatcher passes arguments, defaults, results and errors through.

M    : spec/MC_Entry.tla - the argument analyser + generated entry point
       (Entry.tla, Impl part) against Python's own binding rule (Doc part) over
       every set of <= 2 signatures of the parameter menu and every call shape:
       AcceptWhenPromised, ForwardIntact, NeverBadForward.
C->S : exhaustive small-scope + random signature sets are realised; every call
       shape is made with distinct fresh argument objects; bodies record the
       identity of what each parameter received; spec/Trace_Entry.tla judges
       bind.*, result_intact, exception_intact, self_intact,
       accept_promised_shape.
"""

import itertools
import json
import random

from .. import pool, tlc, workers, worlds
from ..report import Report
from . import static

CHAIN = [[], [1], [2]]  # object > K2 > K3 ; all arguments are K3 instances


def mk(mid, reg, pos, kws, prio=0, self_=False, body="leaf", posonly=0):
    """pos: [(name, kind, req, type)], kws: [(name, req, type)]"""
    m = worlds.mkmethod(
        mid, reg, [t for (_, _, _, t) in pos], prio=prio,
        reqpos=sum(1 for p in pos if p[2]), kw=[(n, t, r) for (n, r, t) in kws], body=body,
    )
    m["names"] = [p[0] for p in pos]
    m["posonly"] = sum(1 for p in pos if p[1] == "po")
    if self_:
        m["self"] = True
    return m


def params_of(m):
    out = []
    for i, n in enumerate(m["names"]):
        out.append({"name": n, "kind": "po" if i < m.get("posonly", 0) else "pk", "req": i < m["reqpos"]})
    for n, r in zip(m["kwn"], m["kwreq"]):
        out.append({"name": n, "kind": "kw", "req": bool(r)})
    return out


def pos_seqs(names, maxp):
    opts = []
    for n in range(maxp + 1):
        for nm in itertools.permutations(names, n):
            for kinds in itertools.product(["po", "pk"], repeat=n):
                if any(kinds[i] == "pk" and kinds[j] == "po" for i in range(n) for j in range(i + 1, n)):
                    continue
                for nreq in range(n + 1):
                    opts.append([(nm[i], kinds[i], i < nreq) for i in range(n)])
    return opts


def gen_jobs(tier, seed):
    rng = random.Random(seed * 65537 + 3)
    thorough = tier == "thorough"
    jobs = []
    allnames = ["x", "y", "a", "k", "j"]
    P = pos_seqs(["x", "y", "a"], 2)
    K = [[], [("k", True)], [("k", False)], [("j", False)], [("k", True), ("j", False)], [("k", False), ("j", False)]]
    menu = [(p, k) for p in P for k in K]
    rng.shuffle(menu)

    def shapes_for(maxp):
        out = []
        kwc = [[]] + [[a] for a in allnames] + [[a, b] for a in allnames for b in allnames if a < b]
        for n in range(0, maxp + 2):
            for kw in kwc:
                out.append({"np": n, "kws": kw})
        return out

    def typ():
        return rng.choice([1, 1, 2, 3])

    def build(sigs, self_=False, bodies=None):
        ms = []
        for j, (p, k) in enumerate(sigs):
            body = (bodies or ["leaf"] * len(sigs))[j]
            ms.append(mk(f"m{j + 1}", j + 1, [(n, kd, r, typ()) for (n, kd, r) in p], [(n, r, typ()) for (n, r) in k],
                         prio=rng.choice([0, 0, 1]), self_=self_, body=body))
        return {"parents": CHAIN, "methods": ms}

    # single signatures: exhaustive over the menu
    for sig in menu:
        w = build([sig], self_=rng.random() < 0.3, bodies=[rng.choice(["leaf", "leaf_rw", "raise"])])
        jobs.append({"id": f"C03-s{len(jobs)}", "world": w, "shapes": shapes_for(2), "eqmode": [None, "true", None, "raise"][len(jobs) % 4]})
    # pairs: sampled (quick) / many (thorough)
    npairs = 900 if not thorough else 20000
    for _ in range(npairs):
        a, b = rng.sample(menu, 2)
        w = build([a, b], self_=rng.random() < 0.3, bodies=[rng.choice(["leaf", "leaf_rw", "raise"]) for _ in range(2)])
        sh = shapes_for(2)
        rng.shuffle(sh)
        jobs.append({"id": f"C03-p{len(jobs)}", "world": w, "shapes": sh[: (24 if not thorough else 64)],
                     "eqmode": [None, None, "true", "raise"][len(jobs) % 4]})
    ntr = 150 if not thorough else 5000
    P3 = pos_seqs(["x", "y", "a"], 3)
    for _ in range(ntr):
        sigs = [(rng.choice(P3), rng.choice(K)) for _ in range(3)]
        w = build(sigs, self_=rng.random() < 0.3)
        sh = shapes_for(3)
        rng.shuffle(sh)
        jobs.append({"id": f"C03-t{len(jobs)}", "world": w, "shapes": sh[:24]})
    # parameter names that the generated entry point also uses for its own purposes
    for q, job in enumerate(jobs):
        ren = {"j": "type"} if q % 11 == 3 else {5: {"k": "OVLD"}, 8: {"j": "KWARGS", "k": "MISSING"}}.get(q % 97)
        if not ren and q % 13 == 6:
            # ... and the names the entry point gives to positions the methods name differently
            ren = {"k": "ARG1", "j": "ARG2"}
        if not ren:
            continue
        for m in job["world"]["methods"]:
            m["kwn"] = [ren.get(n, n) for n in m["kwn"]]
        job["shapes"] = [{"np": sh["np"], "kws": [ren.get(n, n) for n in sh["kws"]]} for sh in job["shapes"]]
    return jobs


def run(prop, tier, seed, replay=None):
    rep = Report(prop, tier, seed)
    rep.assumptions = [
        "Doc Bind = Python's own binding of the call shape to the selected method's signature",
        "MustAccept is the conservative reading of docs/usage.md (Appendix A); which method is selected is C02's concern",
        "all argument objects are instances of the most derived class, so every annotation admits them",
    ]
    cfg = "MC_Entry_quick.cfg" if tier == "quick" else "MC_Entry_thorough.cfg"
    mc = tlc.run_tlc("MC_Entry", cfg, timeout=3600)
    rep.add_tlc(mc, "model check MC_Entry " + cfg)
    if mc.violated:
        rep.machinery_failure(f"model-level counter-example: {mc.violated} fails in MC_Entry")
    elif mc.rc != 0 or not mc.finished:
        rep.machinery_failure(f"MC_Entry did not finish (rc={mc.rc}): {mc.out[-800:]}")
    rep.extra["model_check_exhaustive"] = bool(mc.finished and mc.queue == 0)
    jobs = gen_jobs(tier, seed)
    res = pool.run(workers.entry_cases, jobs)
    res = [c for c in res if "skip" not in c]
    full = {c["id"]: c for c in res}
    cases = []
    for c in res:
        ms = [{"id": m["id"], "params": params_of(m)} for m in c["world"]["methods"]]
        steps = [{"shape": s["shape"], "obs": {k: s["obs"][k] for k in ("kind", "m", "bind", "ret", "slf")},
                  **({"bindok": s["bindok"]} if "bindok" in s else {})} for s in c["steps"]]
        cases.append({"id": c["id"], "methods": ms, "steps": steps, **({"sig": c["sig"]} if "sig" in c else {})})
    verdicts = {}
    B = 1500
    for k in range(0, len(cases), B):
        v, r = tlc.judge("Trace_Entry", cases[k : k + B])
        rep.add_tlc(r, f"judge Trace_Entry batch {k // B}")
        verdicts.update(v)
    rep.judged = len(verdicts)
    for cid, v in verdicts.items():
        c = full[cid]
        for st in c["steps"]:
            rep.evaluations += 1
            if st["obs"]["kind"] in ("run", "raised") and (st["shape"]["kws"] or any(t == "dflt" for t in st["obs"]["bind"])):
                rep.note_nontrivial(json.dumps([c["world"]["methods"], st["shape"]], sort_keys=True, default=str))
        for rej in static.rejections(v):
            if rej["clause"].startswith("X1:"):
                # beyond the listed properties (inspect.signature of the function): reported, never a verdict
                rep.extra_note(rej["clause"], {"methods": [params_of(m) for m in c["world"]["methods"]], "sig": c.get("sig"),
                                               "step": c["steps"][rej["step"] - 1] if rej["step"] else None})
                continue
            st = c["steps"][rej["step"] - 1]
            rep.rejected(rej["clause"], {"kind": "entry_case", "world": c["world"], "step": st, "case_id": cid},
                         {"kflag": rej["kf"], "shape": st["shape"]})
    rep.extra_checked("X1:signature", len([c for c in res if "sig" in c]))
    # ---- the generated value dispatchers (Dependent / Literal annotations), as functions and as methods with self
    from . import c10

    vjobs = c10.gen_jobs(tier, seed + 300)
    for q, j in enumerate(vjobs):
        j["host"] = q % 2 == 0
    vres = [c for c in pool.run(workers.dep_cases, vjobs) if "skip" not in c]
    vcases = []
    for c in vres:
        c["id"] = "C03-v" + c["id"]
        vcases.append({"id": c["id"], "props": ["C03V"], "world": c["world"],
                       "steps": [{"call": st["call"], "obs": {"kind": st["obs"]["kind"], "entered": st["obs"]["entered"],
                                                              "resolve": st["obs"]["resolve"], "predlog": st["obs"]["predlog"],
                                                              "slf": st["obs"]["slf"]}} for st in c["steps"]]})
    if vcases:
        vv = {}
        VB = 800
        for kb in range(0, len(vcases), VB):
            vb, r = tlc.judge("Trace_Resolve", vcases[kb : kb + VB])
            rep.add_tlc(r, f"judge Trace_Resolve (C03VClause: arguments and self through the value dispatchers) batch {kb // VB}")
            vv.update(vb)
        rep.judged += len(vv)
        vfull = {c["id"]: c for c in vres}
        for cid, v in vv.items():
            c = vfull[cid]
            rep.evaluations += len(c["steps"])
            for rej in static.rejections(v):
                st = c["steps"][rej["step"] - 1]
                rep.rejected(rej["clause"], {"kind": "dep_case", "world": c["world"], "step": st, "case_id": cid}, {})
        rep.extra["value_dispatch_cases"] = len(vv)
        rep.extra["value_dispatch_cases_with_self"] = len([j for j in vjobs if j["host"]])
    for c in res[:3]:
        rep.sample({"methods": [params_of(m) for m in c["world"]["methods"]], "steps": c["steps"][:3]})
    rep.rule = (
        "signature sets over parameters {x,y,a} (positional-only / positional-or-keyword, required / optional) and keyword-only {k,j}: "
        "every single signature of the menu exhaustively, sampled pairs and triples, functions and methods with self, leaf and raising bodies; "
        "every call shape (0..max+1 positionals x keyword subsets of size <= 2 over all names) with distinct fresh argument objects (in half of the worlds objects whose __eq__ is always true or raises). "
        "non-trivial = a body ran on a call that used a keyword or left a parameter to its default; distinct by (signatures, shape)."
    )
    return rep.finish()
