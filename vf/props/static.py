"""C01 / C02 / C07 on static (class / ABC / protocol) worlds.

C->S: exhaustive small-scope + seeded random worlds are realised, every call
is run on the real code, and the recorded observations are judged by the Doc
layer (spec/Trace_Resolve.tla).  M: spec/MC_Resolve.tla is model-checked
(Impl => Doc over every world of the bound); S->C: every world of its
discrepancy census is replayed on the real code as well.
"""

import itertools
import json
import random

from .. import pool, tlc, workers, worlds
from ..report import Report

MODULE = "Trace_Resolve"


def strip_obs(case):
    steps = []
    for st in case["steps"]:
        o = st["obs"]
        steps.append(
            {
                "call": st["call"],
                "obs": {"kind": o["kind"], "entered": o["entered"], "resolve": o["resolve"],
                        **({"display": o["display"]} if o.get("display", {}).get("kind") in ("run", "none") else {})},
            }
        )
    return {"id": case["id"], "props": case["props"], "world": case["world"], "steps": steps}


def rejections(v):
    """Parse 'clause@step#k,clause@step#k' into a list."""
    out = []
    if not v["clause"]:
        return out
    for part in v["clause"].split(","):
        body, _, k = part.rpartition("#")
        clause, _, at = body.rpartition("@")
        out.append({"clause": clause, "step": int(at), "kf": k})
    return out


def py_applicable_count(world, call):
    """Coverage statistics only (never a verdict): number of methods whose
    class-term signature admits the call."""
    anc = worlds.ancestors(world["parents"])
    n = 0
    for m in world["methods"]:
        if not (m["reqpos"] <= len(call["pos"]) <= len(m["pos"])):
            continue
        ok = True
        for t, a in zip(m["pos"], call["pos"]):
            if t["k"] == "cls" and t["c"] not in anc[a["c"]]:
                ok = False
        for kn, a in zip(call["kwn"], call["kwa"]):
            if kn not in m["kwn"]:
                ok = False
            else:
                t = m["kwt"][m["kwn"].index(kn)]
                if t["k"] == "cls" and t["c"] not in anc[a["c"]]:
                    ok = False
        for kn, req in zip(m["kwn"], m["kwreq"]):
            if req and kn not in call["kwn"]:
                ok = False
        n += ok
    return n


def set_bodies(world, rng, mode):
    for m in world["methods"]:
        if mode == "leaf":
            m["body"] = "leaf"
        elif mode == "next":
            m["body"] = "next"
        elif mode == "mixed":
            m["body"] = rng.choice(["next", "next", "next", "leaf", "fnext" if not m["kwn"] else "next"])


def gen_jobs(prop, tier, seed):
    rng = random.Random(seed * 7919 + 17)
    jobs = []
    exhaustive_parts = []

    def add(world, calls, tag):
        jobs.append({"id": f"{prop}-{tag}-{len(jobs)}", "props": [prop], "world": world, "calls": calls})

    body_mode = {"C01": "mixed", "C02": "mixed", "C07": "next"}[prop]
    thorough = tier == "thorough"
    # --- exhaustive small scope
    specs = [(3, 1, 3, (0, 1)), (2, 2, 2, (0, 1))]
    if thorough:
        specs = [(3, 1, 3, (-1, 0, 1)), (3, 2, 2, (0, 1)), (4, 1, 3, (0, 1))]
    for n_user, npos, mm, prios in specs:
        cnt = 0
        for w, calls in worlds.exhaustive_static(n_user, npos, mm, prios):
            set_bodies(w, rng, body_mode)
            add(w, calls, f"ex{n_user}{npos}{mm}")
            cnt += 1
        exhaustive_parts.append(f"all DAGs on {n_user} classes x all sets of <={mm} {npos}-position methods, prios {prios}: {cnt} worlds")
    # --- curated shapes with two positions
    for name, parents in worlds.CURATED.items():
        n = len(parents)
        k = 40 if not thorough else 400
        for _ in range(k):
            nm = rng.randint(2, 4)
            methods = []
            for j in range(nm):
                npos = rng.choice([1, 2, 2, 2])
                methods.append(
                    worlds.mkmethod(f"m{j + 1}", j + 1, [rng.randint(1, n) for _ in range(npos)], prio=rng.choice([0, 0, 1]))
                )
            w = {"parents": [list(p) for p in parents], "methods": methods}
            set_bodies(w, rng, body_mode)
            calls = list(worlds.all_calls(w, [1, 2]))
            rng.shuffle(calls)
            add(w, calls[:30], "cur-" + name)
    # --- random worlds: mixed arities, optional positionals, keywords, re-registration
    nrand = 500 if not thorough else 12000
    for q in range(nrand):
        w, calls = worlds.random_static_world(rng, abstract=(q % 2 == 0), n_user=rng.randint(2, 6 if not thorough else 8))
        if prop == "C07":
            for m in w["methods"]:
                if m["body"] == "leaf" and rng.random() < 0.7:
                    m["body"] = "next"
            if q % 4 == 1:
                # methods produced by one def in a factory: they share a code object
                for m in w["methods"]:
                    m["factory"] = True
                if q % 8 == 5 and not any(m["kwn"] for m in w["methods"]):
                    # ... delegating with f.next instead of call_next
                    for m in w["methods"]:
                        if m["body"] == "next":
                            m["body"] = "fnext"
            if q % 3 == 0 and not any(m["kwn"] for m in w["methods"]):
                # call_next with *other* arguments (other classes, possibly another arity): the continuation
                # for a type tuple the method was not entered with
                cs = worlds.concrete(w)
                argmap = {f"a{j}": rng.choice(cs) for j in range(1, 4)}
                arities = sorted({len(m["pos"]) for m in w["methods"]})
                for m in w["methods"]:
                    if rng.random() < 0.5:
                        k = rng.choice(arities)
                        m["body"] = {"k": "next_with", "pos": [rng.choice(list(argmap)) for _ in range(k)]}
                add(w, calls, "rndw")
                jobs[-1]["argmap"] = argmap
                jobs[-1]["budget"] = rng.randint(1, 3)
                continue
        add(w, calls, "rnd")
    return jobs, exhaustive_parts


def census_jobs(prop, res):
    jobs = []
    for s in res.printed:
        if s.startswith("CENSUS|"):
            w = json.loads(s[len("CENSUS|"):])
            call = w.pop("call")
            jobs.append({"id": f"{prop}-census-{len(jobs)}", "props": [prop], "world": w, "calls": [call]})
    return jobs


def run(prop, tier, seed, replay=None):
    rep = Report(prop, tier, seed)
    rep.assumptions = [
        "Python 3.12 semantics of issubclass / ABC registration / runtime protocols",
        "error kinds are classified by raise site (DESIGN 2.3)",
        "Doc layer reading decisions of DESIGN Appendix A",
    ]
    # ---- M: model check Impl => Doc, collect the discrepancy census
    cfg = "MC_Resolve_quick.cfg" if tier == "quick" else "MC_Resolve_thorough.cfg"
    mc = tlc.run_tlc("MC_Resolve", cfg, timeout=3600, extra=("-coverage", "1") if tier == "thorough" else ())
    rep.add_tlc(mc, "model check MC_Resolve " + cfg)
    if mc.violated:
        rep.machinery_failure(
            f"model-level counter-example: invariant {mc.violated} of MC_Resolve fails - the Impl layer admits a "
            "behaviour the Doc layer forbids outside the known-finding signature; replayed below if reproducible"
        )
    elif mc.rc != 0 or not mc.finished:
        rep.machinery_failure(f"MC_Resolve did not finish (rc={mc.rc}): {mc.out[-600:]}")
    mc_exhaustive = mc.finished and mc.queue == 0
    cjobs = census_jobs(prop, mc)
    # thin the census deterministically in the quick tier
    if tier == "quick" and len(cjobs) > 400:
        rng = random.Random(seed)
        cjobs = rng.sample(cjobs, 400)
    jobs, parts = gen_jobs(prop, tier, seed)
    jobs += cjobs
    if prop == "C02":
        # beyond the listed properties: f.display_resolution(*args) is recorded for every call (X2 clauses)
        for j in jobs:
            if not any(m.get("factory") for m in j["world"]["methods"]):
                j["display"] = True
    cases = pool.run(workers.static_cases, jobs)
    if prop == "C01":
        # value-dependent annotations (Literal / Dependent / unions of them, keyword-only, lookup-table shapes):
        # the same worlds as C10, judged for the accepts.* clauses only
        from . import c10

        djobs, _ = c10.gen_jobs(tier, seed), None
        dres = pool.run(workers.dep_cases, djobs)
        for c in dres:
            if "skip" in c:
                continue
            c["id"] = "C01-" + c["id"]
            c["props"] = ["C01"]
            for st in c["steps"]:
                st["obs"].setdefault("resolve", {"kind": "skip", "m": ""})
            cases.append(c)
    if prop == "C07":
        # value worlds (Dependent / Literal annotations): chains through the per-rank value dispatchers, with the
        # arguments received and with other values.  Two curated shapes (the recorded deviations) are always present.
        from . import c10

        vrng = random.Random(seed * 577 + 7)
        def plain_bounds(ms):   # the Impl layer of value dispatch (needed to attribute the known deviations) models class bounds only
            return all(t["k"] == "cls" or t["bound"]["k"] == "cls" for m in ms for t in m["pos"])

        djobs = [j for j in c10.gen_jobs(tier, seed + 500) if c10.judged_ok(j["methods"]) and all(isinstance(c, list) for c in j["calls"])
                 and plain_bounds(j["methods"])]
        for q, j in enumerate(djobs[:-1]):
            npos = len(j["methods"][0]["pos"])
            for m in j["methods"]:
                r = vrng.random()
                if r < 0.5:
                    m["body"] = "next"
                elif r < 0.68 and q % 2 == 0:
                    m["body"] = {"k": "next_with", "vals": [vrng.choice(c10.NAMES[:11]) for _ in range(npos)]}
                else:
                    m["body"] = "leaf"

        def lit(*vals):
            from .. import deprt

            return {"k": "lit", "bound": c10.cls(2), "vals": [deprt.arg_record(v)["v"] for v in vals]}

        def mm(j, t, body):
            return {"id": f"m{j}", "prio": 0, "reg": j, "pos": [t], "reqpos": 1, "kwn": [], "kwt": [], "kwreq": [], "body": body}

        # Literal[0] delegates with the value 1; a sibling Literal[1] and an int method (DESIGN 9 #11)
        djobs.append({"id": "C10-kfother", "calls": [["i0"]],
                      "methods": [mm(1, lit("i0"), {"k": "next_with", "vals": ["i1"]}), mm(2, lit("i1"), "leaf"), mm(3, c10.cls(2), "leaf")]})
        dres = pool.run(workers.dep_cases, djobs)
        nv = 0
        for c in dres:
            if "skip" in c:
                continue
            c["id"] = "C07-v" + c["id"]
            c["props"] = ["C07V"]
            for st in c["steps"]:
                st["obs"].setdefault("resolve", {"kind": "skip", "m": ""})
            cases.append(c)
            nv += 1
        rep.extra["value_world_cases"] = nv
    if prop == "C07":
        # types passed as arguments (type[...] annotations, C14's worlds without keywords): chains through call_next and f.next
        from . import c14

        trng = random.Random(seed * 271 + 7)
        tjobs = []
        for j in c14.gen_jobs(tier, seed + 900):
            if any(m["kwn"] for m in j["world"]["methods"]):
                continue
            for m in j["world"]["methods"]:
                m["body"] = trng.choice(["next", "fnext", "fnext", "leaf"])
            j["id"] = "C07-t" + j["id"]
            j["props"] = ["C07"]
            tjobs.append(j)
        tjobs = tjobs[: (90 if tier == "quick" else 2000)]
        tres = pool.run(workers.typearg_cases, tjobs)
        cases += tres
        rep.extra["type_argument_cases"] = len(tres)
    if prop == "C07":
        # f.next from a method with self (recorded deviation KF-fnext-self)
        fres = pool.run(workers.fnext_self_cases, [{"id": "C07-fnextself"}], procs=1)
        for c in fres:
            if "skip" in c:
                cases.append(c)
                continue
            ms = [worlds.mkmethod("m1", 1, [1], body="leaf"), worlds.mkmethod("m2", 2, [2], body="fnext")]
            cases.append({"id": c["id"], "props": ["C07"], "world": {"parents": [[], [1]], "methods": ms, "fnext_self": True},
                          "steps": [{"call": c["call"], "obs": c["obs"]}]})
    skipped = [c for c in cases if "skip" in c]
    harness_bugs = [c for c in skipped if c["skip"].startswith("harness")]
    if harness_bugs:
        rep.machinery_failure("harness error: " + harness_bugs[0]["skip"])
    cases = [c for c in cases if "skip" not in c]
    full = {c["id"]: c for c in cases}
    verdicts = {}
    B = 4000
    for k in range(0, len(cases), B):
        batch = [strip_obs(c) for c in cases[k : k + B]]
        v, res = tlc.judge(MODULE, batch)
        rep.add_tlc(res, f"judge {MODULE} batch {k // B}")
        verdicts.update(v)
    rep.judged = len(verdicts)
    ndrift = 0
    for cid, v in verdicts.items():
        c = full[cid]
        for st in c["steps"]:
            rep.evaluations += 1
            if py_applicable_count(c["world"], st["call"]) >= 2:
                rep.note_nontrivial(json.dumps([c["world"], st["call"]], sort_keys=True))
        if v["flags"].get("drift") == "1" and not c["world"].get("fnext_self"):   # (the Impl layer does not model Ovld.next with self)
            ndrift += 1
            if ndrift <= 1:
                rep.spec_drift(f"ResolveImpl does not predict the observation of case {cid} (first of possibly many)")
        for rej in rejections(v):
            step = c["steps"][rej["step"] - 1]
            if rej["clause"].startswith("X2:"):
                rep.extra_note(rej["clause"], {"methods": c["world"]["methods"], "parents": c["world"]["parents"], "call": step["call"],
                                               "display": step["obs"].get("display"), "observed": [e["m"] for e in step["obs"]["entered"]]})
                continue
            rep.rejected(
                rej["clause"],
                {"kind": "static_case", "world": c["world"], "step": step, "case_id": cid},
                {"kf": rej["kf"] if prop != "C06" else v["flags"].get("kf"), "fnext_self": bool(c["world"].get("fnext_self"))},
            )
    if ndrift > 1:
        rep.drift[-1] += f" [{ndrift} cases]"
    for c in cases[:3]:
        rep.sample({"world": c["world"], "first_step": c["steps"][0] if c["steps"] else None})
    rep.rule = (
        "worlds = class DAG + method set; each (world, call) is run on the real code and judged by Trace_Resolve. "
        + "; ".join(parts)
        + f"; curated shapes x random 2-position sets; seeded random worlds with ABC/protocol kinds, optional "
        f"positionals, keyword-only typed parameters, priorities and re-registrations; plus {len(cjobs)} worlds of the TLC "
        "discrepancy census replayed (S->C). non-trivial = at least two methods applicable to the call; distinct by (world, call)."
    )
    if prop == "C02":
        rep.extra_checked("X2:display_resolution", sum(1 for c in cases for st in c["steps"] if st["obs"].get("display", {}).get("kind") in ("run", "none")))
    rep.extra["skipped_unrealisable_worlds"] = len(skipped)
    rep.extra["model_check_exhaustive"] = bool(mc_exhaustive)
    rep.extra["census_worlds_replayed"] = len(cjobs)
    if tier == "thorough":
        rep.extra["action_coverage"] = {k: v[1] for k, v in mc.coverage().items()}
    rep.exhaustive = False
    return rep.finish()
