"""C15: equivalent spellings of an annotation dispatch identically.

Doc: spec/Trace_Spell.tla Canon (what a spelling denotes).  The harness builds,
for every pair of spellings and every surrounding method set (alone, with an
object fallback registered before / after, with more and less specific
competitors, and - so that 're-registration replaces' is exercised across
spellings - as a same-signature sibling), two functions that differ only in the
spelling, and calls both with a corpus of arguments; TLC checks the premise
(equal Canon) and equality of the recorded outcomes.
M: MC_Types (PermutedSame: member-permuted unions / intersections denote the
same type in the Impl order).
"""

import itertools
import random

from .. import pool, tlc, workers
from ..report import Report
from . import static


def cls(n):
    return {"s": "cls", "n": n}


NONE = {"s": "none"}


def families(rng, thorough):
    fams = []
    A, B, I, S = cls("A"), cls("B"), cls("int"), cls("str")
    for mem in ([A, B], [A, I], [B, S], [A, B, I]):
        f = []
        for perm in itertools.permutations(mem):
            perm = list(perm)
            f.append({"s": "Union", "args": perm})
            f.append({"s": "Pipe", "args": perm})
            f.append({"s": "Tuple", "args": perm})
        f.append({"s": "Annotated", "arg": {"s": "Pipe", "args": mem}})
        f.append({"s": "Str", "arg": {"s": "Union", "args": mem}})
        if len(mem) == 3:
            f.append({"s": "Union", "args": [{"s": "Union", "args": mem[:2]}, mem[2]]})
        fams.append(f)
    for X in (A, I):
        fams.append([{"s": "Optional", "arg": X}, {"s": "Pipe", "args": [X, NONE]}, {"s": "Pipe", "args": [NONE, X]},
                     {"s": "Union", "args": [X, NONE]}, {"s": "Union", "args": [NONE, X]},
                     {"s": "Tuple", "args": [X, NONE]}, {"s": "Tuple", "args": [NONE, X]}])  # (None in a tuple of types is the class of None, as in the other forms)
    fams.append([{"s": "missing"}, {"s": "any"}, {"s": "object"}, {"s": "Annotated", "arg": {"s": "object"}},
                 {"s": "Annotated", "arg": {"s": "any"}}, {"s": "Str", "arg": {"s": "any"}}])
    for X in (A, I, {"s": "list", "arg": A}):
        fams.append([X, {"s": "Annotated", "arg": X}, {"s": "Str", "arg": X}])
    for X in (A, I):
        fams.append([{"s": "list", "arg": X}, {"s": "List", "arg": X}, {"s": "Str", "arg": {"s": "list", "arg": X}}])
    # the same equivalences inside type[...] (annotations of passed classes)
    ty = lambda x: {"s": "typeof", "arg": x}   # noqa: E731
    for mem in ([A, B], [A, I]):
        f = []
        for perm in itertools.permutations(mem):
            f.append(ty({"s": "Union", "args": list(perm)}))
            f.append(ty({"s": "Pipe", "args": list(perm)}))
        f.append(ty({"s": "Annotated", "arg": {"s": "Union", "args": mem}}))
        fams.append(f)
    for X in (A, I):
        fams.append([ty({"s": "Optional", "arg": X}), ty({"s": "Pipe", "args": [X, NONE]}), ty({"s": "Union", "args": [NONE, X]})])
        fams.append([ty(X), ty({"s": "Annotated", "arg": X})])
    fams.append([ty({"s": "object"}), ty({"s": "any"}), ty({"s": "Annotated", "arg": {"s": "any"}})])
    for X in (A, I):
        fams.append([ty({"s": "list", "arg": X}), ty({"s": "List", "arg": X})])
    for vals in ([1, 2], [1, 2, 3]):
        fams.append([{"s": "Literal", "vals": list(p)} for p in itertools.permutations(vals)])
    return fams


def run(prop, tier, seed, replay=None):
    rep = Report(prop, tier, seed)
    thorough = tier == "thorough"
    rng = random.Random(seed * 7 + 15)
    rep.assumptions = ["Doc: Trace_Spell.tla Canon; literal values are small ints (no cross-type-equal values)"]
    mc = tlc.run_tlc("MC_Types", "MC_Types_quick.cfg", timeout=1800)
    rep.add_tlc(mc, "model check MC_Types (PermutedSame and the other order laws on the Impl model)")
    if mc.violated or mc.rc != 0:
        rep.machinery_failure(f"MC_Types: {mc.violated or mc.rc}")
    jobs = []
    for fam in families(rng, thorough):
        pairs = list(itertools.permutations(range(len(fam)), 2))
        rng.shuffle(pairs)
        if not thorough:
            pairs = pairs[:28]
        for a, b in pairs:
            jobs.append({"id": f"C15-{len(jobs)}", "s1": fam[a], "s2": fam[b]})
    res = pool.run(workers.spell_cases, jobs)
    skipped = [c for c in res if "skip" in c]
    for c in skipped[:1]:
        # a spelling the library refuses outright is itself a difference between spellings
        rep.rejected("C15:same_across_spellings.build_refused", {"kind": "spelling", "s1": c["s1"], "s2": c["s2"], "error": c["skip"]},
                     {"s1": c["s1"], "s2": c["s2"], "err": c["skip"]})
    res = [c for c in res if "skip" not in c]
    full = {c["id"]: c for c in res}
    verdicts = {}
    SB = 1500
    for kb in range(0, len(res), SB):
        vb, r = tlc.judge("Trace_Spell", res[kb : kb + SB])
        rep.add_tlc(r, f"judge Trace_Spell (Canon premise + same_across_spellings) batch {kb // SB}")
        verdicts.update(vb)
    rep.judged = len(verdicts)
    for cid, v in verdicts.items():
        c = full[cid]
        rep.evaluations += sum(len(x["obs1"]) for x in c["ctxs"])
        rep.note_nontrivial(cid)
        for rej in static.rejections(v):
            if rej["clause"].startswith("premise"):
                rep.machinery_failure(f"generator paired non-equivalent spellings in {cid}")
                continue
            ctx = c["ctxs"][rej["step"] - 1]
            rep.rejected(rej["clause"], {"kind": "spelling", "s1": c["s1"], "s2": c["s2"], "context": ctx, "case_id": cid},
                         {"s1": c["s1"], "s2": c["s2"], "ctx": ctx})
    for c in res[:3]:
        rep.sample({"s1": c["s1"], "s2": c["s2"], "ctx0": c["ctxs"][0]})
    rep.rule = (
        f"{len(jobs)} ordered pairs of equivalent spellings (Union[...] / A | B / tuple in every member order, nested and string forms; "
        "Optional / | None; missing / Any / object; Annotated; string annotations; list / typing.List; Literal value orders) x 6 surrounding method sets "
        "(alone; object fallback before / after; competitors; same-signature sibling with and without a priority competitor) x 12 arguments. "
        "evaluations = calls compared; every pair is non-trivial by construction (different spelling, same Canon)."
    )
    rep.extra["skipped_pairs"] = len(skipped)
    return rep.finish()
