"""C06: resolution is deterministic and ignores irrelevant context.

M: MC_Resolve (Deterministic over every tie order sigma; IrrelevantFree:
removing a method that is not applicable to the call never changes the Impl
outcome) - modulo the known level artefact.
C->S: the same call is run on the real code in many contexts - iteration
orders forced through the guarded order hook, permuted registration order,
extra methods not applicable to the call, repeated, after allocating garbage,
under several PYTHONHASHSEEDs in separate processes - and Trace_Resolve
(C06Clause) checks the premise (same applicable methods) and demands the same
outcome.
"""

import copy
import json
import random

from .. import pool, tlc, workers, worlds
from ..report import Report
from . import static


def renumber(methods):
    out = []
    for j, m in enumerate(methods):
        m = dict(m)
        m["reg"] = j + 1
        out.append(m)
    return out


def canon_term(t):
    """Union / intersection members in any order are one annotation (C15): two methods that differ only
    there have identical signatures, and their relative registration order is meaningful."""
    if isinstance(t, dict):
        t = {k: canon_term(v) for k, v in t.items()}
        if t.get("k") in ("union", "inter"):
            t["args"] = sorted(t["args"], key=lambda a: json.dumps(a, sort_keys=True))
        return t
    if isinstance(t, list):
        return [canon_term(x) for x in t]
    return t


def sig_key(m):
    return json.dumps([canon_term(m["pos"]), m["reqpos"], m["kwn"], canon_term(m["kwt"]), m["kwreq"], m["prio"]], sort_keys=True)


def permute_distinct(rng, methods):
    """Permute registration order, keeping the relative order of methods with
    an identical signature (their order is meaningful)."""
    groups = {}
    for m in methods:
        groups.setdefault(sig_key(m), []).append(m)
    keys = list(groups)
    rng.shuffle(keys)
    # interleave: draw signature keys in shuffled round-robin
    out = []
    pools = {k: list(v) for k, v in groups.items()}
    order = [k for k in keys for _ in pools[k]]
    rng.shuffle(order)
    for k in order:
        out.append(pools[k].pop(0))
    return renumber(out)


def not_applicable_extras(rng, world, base_methods, call, anc):
    """Random methods that are NOT applicable to `call` (the judge re-checks
    the premise).  Types are biased towards ancestors of the argument classes:
    such a type enters the per-position ordering although its method cannot
    be called - exactly the 'irrelevant context' the property talks about."""
    n = len(world["parents"])
    npos = len(call["pos"])
    argc = [a["c"] for a in call["pos"]]
    probe = {"parents": world["parents"], "methods": []}
    extras = []
    seen = set()
    for trial in range(40):
        if len(extras) >= 6:
            break
        np2 = rng.choice([npos, npos, npos, npos + 1] + ([npos - 1] if npos > 1 else []))
        types = []
        for p in range(np2):
            if p < npos and rng.random() < 0.75:
                types.append(rng.choice(sorted(anc[argc[p]])))
            else:
                types.append(rng.randint(1, n))
        kw = [("zz", 1, True)] if rng.random() < 0.15 else ()
        x = worlds.mkmethod(f"x{len(extras) + 1}", 0, types, prio=rng.choice([0, 0, 1]), kw=kw, body="next")
        probe["methods"] = [x]
        if static.py_applicable_count(probe, call) != 0:
            continue
        key = json.dumps([types, kw != ()])
        if key in seen:
            continue
        seen.add(key)
        reason = "arity" if np2 != npos else ("reqkw" if kw else "type")
        extras.append((reason, x))
    return extras


def gen_jobs(tier, seed):
    rng = random.Random(seed * 104729 + 6)
    thorough = tier == "thorough"
    bases = []
    nrand = 160 if not thorough else 4000
    for q in range(nrand):
        w, calls = worlds.random_static_world(rng, abstract=(q % 3 == 0), n_user=rng.randint(3, 6 if not thorough else 8),
                                              kinds_bodies=("next",), spare=True, unions=(q % 4 == 1))
        for m in w["methods"]:
            m["body"] = "next"
        rng.shuffle(calls)
        multi = [c for c in calls if static.py_applicable_count(w, c) >= 2]
        few = [c for c in calls if static.py_applicable_count(w, c) < 2]
        for call in (multi[: (2 if not thorough else 4)] or few[:1]):
            bases.append((w, call))
    for name, parents in worlds.CURATED.items():
        n = len(parents)
        for _ in range(8 if not thorough else 150):
            nm = rng.randint(2, 4)
            methods = [worlds.mkmethod(f"m{j + 1}", j + 1, [rng.randint(1, n) for _ in range(rng.choice([1, 2, 2]))],
                                       prio=rng.choice([0, 0, 1]), body="next") for j in range(nm)]
            w = {"parents": [list(p) for p in parents], "methods": methods}
            calls = list(worlds.all_calls(w, [1, 2]))
            multi = [c for c in calls if static.py_applicable_count(w, c) >= 2] or calls
            bases.append((w, rng.choice(multi)))
    jobs = []
    for w, call in bases:
        anc = worlds.ancestors(w["parents"])
        base = renumber(w["methods"])
        ctxs = [{"name": "base", "methods": base}]
        ctxs.append({"name": "again", "methods": base, "again": True})
        ctxs.append({"name": "junk", "methods": base, "junk": rng.randint(1, 5000)})
        for mode in ["sorted", "reverse", "shuffle:1", "shuffle:2", "rotate:1"] + (["shuffle:3", "shuffle:4", "rotate:2"] if thorough else []):
            ctxs.append({"name": "order." + mode.replace(":", ""), "methods": base, "order": mode})
        for k in range(2 if not thorough else 4):
            ctxs.append({"name": f"regperm{k}", "methods": permute_distinct(rng, base)})
        for tag, x in not_applicable_extras(rng, w, base, call, anc):
            pos = rng.randint(0, len(base))
            ms = base[:pos] + [x] + base[pos:]
            ctxs.append({"name": "extra." + tag, "methods": renumber(ms)})
            ctxs.append({"name": "extra." + tag + ".rev", "methods": renumber(ms), "order": "reverse"})
        wj = {k: v for k, v in w.items() if k != "methods"}
        jobs.append({"id": f"C06-{len(jobs)}", "props": ["C06"], "world": wj | {"methods": base}, "call": call, "contexts": ctxs})
    return jobs


def gen_dep_jobs(tier, seed):
    """The same contexts over value worlds (Dependent / Literal annotations): the per-rank value
    dispatcher is generated from a list of handlers whose order and number depend on the context."""
    from .. import deprt
    from . import c10

    rng = random.Random(seed * 7561 + 66)
    thorough = tier == "thorough"
    src = c10.gen_jobs(tier, seed + 1000)
    src = [j for j in src if c10.judged_ok(j["methods"])]
    rng.shuffle(src)
    src = src[: (110 if not thorough else 2500)]
    ints = ["im1", "i0", "i1", "i2", "i3", "i4", "i5"]
    # keyed groups of 3 .. 5 disjoint literals, some with a second value condition (table strategy from 4 up)
    for q in range(40 if not thorough else 800):
        rng.shuffle(ints)
        nk = rng.choice([3, 3, 4, 5])
        methods = []
        for j in range(nk):
            twodep = rng.random() < 0.4
            second = c10.rand_dep(rng, 2) if twodep else c10.cls(rng.choice([1, 2]))
            third = c10.cls(1) if twodep else c10.cls(rng.choice([1, 2]))
            methods.append({"id": f"m{j + 1}", "prio": 0, "reg": j + 1,
                            "pos": [{"k": "lit", "bound": c10.cls(2), "vals": [deprt.arg_record(ints[j])["v"]]}, second, third],
                            "reqpos": 3, "kwn": [], "kwt": [], "kwreq": [], "body": "leaf"})
        methods.append({"id": "m9", "prio": 0, "reg": 9, "pos": [c10.cls(1), c10.cls(1), c10.cls(1)], "reqpos": 3, "kwn": [], "kwt": [], "kwreq": [], "body": "leaf"})
        src.append({"id": f"k{q}", "methods": methods, "calls": [[a, b, "i1"] for a in ints[:nk] for b in ("i0", "i2", "i5", "im1")], "keyed": True})
    jobs = []
    # keyed groups whose literals have two values each and share one with the next method: a call with a shared value is
    # ambiguous whatever the order the handlers reach the generated dispatcher in (a generator of its own, run after the
    # others, so that their jobs stay what they were)
    rng2 = random.Random(seed * 6151 + 606)
    src2 = []
    for q in range(24 if not thorough else 600):
        vs = list(ints)
        rng2.shuffle(vs)
        nk = rng2.choice([2, 3, 4, 5])
        methods = []
        for j in range(nk):
            pair = sorted((deprt.arg_record(v)["v"] for v in (vs[j], vs[j + 1])), key=lambda t: str(t["v"]))
            methods.append({"id": f"m{j + 1}", "prio": 0, "reg": j + 1,
                            "pos": [{"k": "lit", "bound": c10.cls(2), "vals": pair}, c10.cls(rng2.choice([1, 2])), c10.cls(1)],
                            "reqpos": 3, "kwn": [], "kwt": [], "kwreq": [], "body": "leaf"})
        methods.append({"id": "m9", "prio": 0, "reg": 9, "pos": [c10.cls(1), c10.cls(1), c10.cls(1)], "reqpos": 3, "kwn": [], "kwt": [], "kwreq": [], "body": "leaf"})
        shared = [[vs[j], "i0", "i1"] for j in range(1, nk)]
        rng2.shuffle(shared)
        src2.append({"id": f"o{q}", "methods": methods, "calls": shared[:2] + [[vs[0], "i2", "i1"]], "keyed": True, "noshuffle": True})
    for j, rng in [(j, rng) for j in src] + [(j, rng2) for j in src2]:
        calls = [c for c in j["calls"] if isinstance(c, list)]
        if not calls:
            continue
        if not j.get("noshuffle"):
            rng.shuffle(calls)
        npos = len(j["methods"][0]["pos"])
        for call in calls[: (2 if not thorough else 4)]:
            base = renumber(j["methods"])
            ctxs = [{"name": "base", "methods": base}, {"name": "again", "methods": base, "again": True}]
            for mode in ["sorted", "reverse", "shuffle:1", "shuffle:2", "rotate:1"] + (["shuffle:3", "rotate:2"] if thorough else []):
                ctxs.append({"name": "order." + mode.replace(":", ""), "methods": base, "order": mode})
            for k in range(2 if not thorough else 4):
                ctxs.append({"name": f"regperm{k}", "methods": permute_distinct(rng, base)})
            # extras that are not applicable to the values: a literal on other values of the first argument's class,
            # or a condition that rejects it; the other positions copy an existing method (same rank)
            a0 = deprt.arg_record(call[0])
            same_cls = [n for n, c, _ in deprt.VALUES if c == a0["c"] and n != call[0]]
            extras = []
            for x in range(3):
                tmpl = rng.choice(base)
                if a0["c"] in (2, 3) and same_cls and rng.random() < 0.7:
                    vals = rng.sample(same_cls, min(len(same_cls), rng.randint(1, 2)))
                    first = {"k": "lit", "bound": c10.cls(a0["c"]), "vals": sorted((deprt.arg_record(v)["v"] for v in vals), key=lambda t: str(t["v"]))}
                else:
                    first = {"k": "dep", "bound": c10.cls(rng.choice(sorted(c10.ANC[a0["c"]]))), "holds": sorted(rng.sample(same_cls, min(len(same_cls), 2)))}
                pos = [first] + [copy.deepcopy(t) for t in tmpl["pos"][1:]]
                extras.append({"id": f"x{x + 1}", "prio": rng.choice([0, 0, 1]), "reg": 0, "pos": pos, "reqpos": npos,
                               "kwn": [], "kwt": [], "kwreq": [], "body": "leaf"})
            for n_ex in (1, 2, 3):
                ms = list(base)
                for x in extras[:n_ex]:
                    ms.insert(rng.randint(0, len(ms)), x)
                ctxs.append({"name": f"extra.value{n_ex}", "methods": renumber(ms)})
                ctxs.append({"name": f"extra.value{n_ex}.rev", "methods": renumber(ms), "order": "reverse"})
            jobs.append({"id": f"C06-d{len(jobs)}", "props": ["C06"], "call": call, "contexts": ctxs})
    return jobs


def gen_typearg_jobs(tier, seed):
    """Contexts over worlds whose arguments are types (type[...] annotations, also on a keyword-only parameter):
    permuted registration and extra methods that are not applicable to the call - on an unrelated instance class,
    with or without the keyword the others declare."""
    from . import c14

    rng = random.Random(seed * 4099 + 6)
    jobs = []
    src = c14.gen_jobs(tier, seed + 700)
    rng.shuffle(src)
    for j in src[: (60 if tier == "quick" else 1500)]:
        w = j["world"]
        els = w["elements"]
        calls = list(j["calls"])
        if not any(m["kwn"] for m in w["methods"]) and len(jobs) % 2 == 0:
            # every method requires a keyword-only parameter annotated type[...]; every call passes a type for it
            tyn = [n for n, e in enumerate(els, start=1) if e.get("k") in ("cls", "gen")]
            for m in w["methods"]:
                m["kwn"], m["kwt"], m["kwreq"] = ["k"], [worlds.cls(rng.choice(tyn))], [True]
            for c in calls:
                c["kwn"], c["kwa"] = ["k"], [{"c": rng.choice(tyn)}]
        base = renumber(w["methods"])
        haskw = any(m["kwn"] for m in base)
        rng.shuffle(calls)
        # a fresh, unrelated instance class for the extras (never an argument)
        w2 = json.loads(json.dumps({k: v for k, v in w.items() if k != "methods"}))
        w2["elbase"] = w2["elbase"] + [[1]]
        newc = len(w2["elbase"])
        w2["elements"] = els + [{"k": "inst", "c": newc}]
        w2["parents"] = w2["parents"] + [[1]]
        xnode = len(w2["elements"])
        npos = len(base[0]["pos"])
        for call in calls[: (2 if tier == "quick" else 4)]:
            ctxs = [{"name": "base", "methods": base}]
            for k in range(2):
                ctxs.append({"name": f"regperm{k}", "methods": permute_distinct(rng, base)})
            for x, withkw in enumerate([False, True] if haskw else [False]):
                xm = worlds.mkmethod(f"x{x + 1}", 0, [xnode] + [1] * (npos - 1), prio=rng.choice([0, 1]),
                                     kw=([("k", 1, False)] if withkw else ()))
                xm["bare"] = False
                ms = list(base)
                ms.insert(rng.randint(0, len(ms)), xm)
                ctxs.append({"name": "extra.unrelated" + (".kw" if withkw else ".nokw"), "methods": renumber(ms)})
            jobs.append({"id": f"C06-t{len(jobs)}", "props": ["C06"], "world": w2, "call": call, "contexts": ctxs})
    return jobs


def run(prop, tier, seed, replay=None):
    rep = Report(prop, tier, seed)
    rep.assumptions = [
        "set iteration order inside the library is only observable at the three hooked sites plus hashing (varied through PYTHONHASHSEED and fresh class objects)",
        "Doc premise: contexts keep the applicable methods (signature, priority, relative recency) unchanged - checked by the judge",
    ]
    cfg = "MC_Resolve_quick.cfg" if tier == "quick" else "MC_Resolve_thorough.cfg"
    mc = tlc.run_tlc("MC_Resolve", cfg, timeout=3600)
    rep.add_tlc(mc, "model check MC_Resolve " + cfg + " (Deterministic, IrrelevantFree)")
    if mc.violated:
        rep.machinery_failure(f"model-level counter-example: invariant {mc.violated} of MC_Resolve")
    elif mc.rc != 0 or not mc.finished:
        rep.machinery_failure(f"MC_Resolve did not finish (rc={mc.rc}): {mc.out[-600:]}")
    jobs = gen_jobs(tier, seed)
    seeds = [0, 1, 2] if tier == "quick" else list(range(16))
    merged = {}
    skipped = 0
    for hs in seeds:
        js = jobs
        if hs != seeds[0]:
            # other hash seeds: base context plus the natural-order contexts only
            js = []
            for j in jobs:
                j2 = dict(j)
                j2["contexts"] = [c for c in j["contexts"] if c["name"] in ("base", "junk") or c["name"].startswith("extra.") and not c["name"].endswith(".rev")]
                js.append(j2)
        res = pool.run(workers.context_cases, js, hashseed=hs + seed * 100)
        for c in res:
            if "skip" in c:
                skipped += hs == seeds[0]
                continue
            if hs == seeds[0]:
                merged[c["id"]] = c
            elif c["id"] in merged:
                for st in c["steps"]:
                    st = dict(st)
                    st["ctx"] = f"hashseed{hs}." + st["ctx"]
                    merged[c["id"]]["steps"].append(st)
    dres = pool.run(workers.dep_context_cases, gen_dep_jobs(tier, seed))
    for c in dres:
        if "skip" in c:
            skipped += 1
        else:
            merged[c["id"]] = c
    rep.extra["value_world_cases"] = len([c for c in dres if "skip" not in c])
    tres = pool.run(workers.typearg_context_cases, gen_typearg_jobs(tier, seed))
    for c in tres:
        if "skip" in c:
            skipped += 1
        else:
            merged[c["id"]] = c
    rep.extra["type_argument_cases"] = len([c for c in tres if "skip" not in c])
    cases = list(merged.values())
    verdicts = {}
    # batches are cut by size (every step of a case carries its own method set): TLC parses one JSON document per batch
    batch, size, nb = [], 0, 0

    def flush():
        nonlocal batch, size, nb
        if batch:
            v, res = tlc.judge("Trace_Resolve", batch)
            rep.add_tlc(res, f"judge Trace_Resolve (C06Clause) batch {nb}")
            verdicts.update(v)
            nb += 1
        batch, size = [], 0

    for c in cases:
        sc = static.strip_obs(c)
        for st, so in zip(c["steps"], sc["steps"]):
            so["methods"] = st["methods"]
            so["ctx"] = st["ctx"]
        batch.append(sc)
        size += len(json.dumps(sc))
        if size > 5_000_000 or len(batch) >= 1500:
            flush()
    flush()
    rep.judged = len(verdicts)
    ndrift = 0
    for cid, v in verdicts.items():
        c = merged[cid]
        rep.evaluations += len(c["steps"])
        if static.py_applicable_count(c["world"], c["steps"][0]["call"]) >= 2:
            rep.note_nontrivial(json.dumps([c["world"], c["steps"][0]["call"]], sort_keys=True))
        if v["flags"].get("drift") == "1":
            ndrift += 1
        for rej in static.rejections(v):
            st = c["steps"][rej["step"] - 1]
            if rej["clause"].startswith("C06:premise"):
                rep.machinery_failure(f"context generator broke the premise in {cid} ctx {st['ctx']}")
                continue
            rep.rejected(
                rej["clause"].rsplit(".hashseed", 1)[0] if False else rej["clause"],
                {"kind": "context_case", "world": c["world"], "call": st["call"], "base": c["steps"][0], "context": st, "case_id": cid},
                {"kf": v["flags"].get("kf"), "clause": rej["clause"], "case": c, "step": st},
            )
    if ndrift:
        rep.spec_drift(f"ResolveImpl does not predict {ndrift} observations")
    for c in cases[:2]:
        rep.sample({"world": c["world"], "call": c["steps"][0]["call"], "contexts": [s["ctx"] for s in c["steps"]],
                    "base_obs": c["steps"][0]["obs"]})
    rep.rule = (
        f"{len(cases)} (world, call) bases x contexts [again, junk allocation, 5-8 forced iteration orders via the order hook, "
        "permuted registration orders, extra methods not applicable to the call (other arity, missing required keyword, unrelated class, "
        f"strict subtype of a competitor, same at another arity), each also with reversed iteration] x {len(seeds)} hash seeds in fresh processes; "
        "non-trivial = at least two applicable methods; evaluations = contexts run."
    )
    rep.extra["skipped_unrealisable_worlds"] = skipped
    rep.extra["hash_seeds"] = len(seeds)
    return rep.finish()
