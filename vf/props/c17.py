"""C17: overloaded methods in classes merge per class and inherit without
leaking.

Doc  : spec/ClassOvld.tla EffMethods - the overload set of the method name in
       every class (one unmarked definition = ordinary function; several =
       one overload; extend_super = union over all bases overlaid by the body).
C->S : random hierarchies (metaclass / OvldBase roots, plain mixin classes,
       single and multiple bases, 0-3 definitions per body, extend_super on or
       off) are defined one class at a time with exec'd class statements; after
       every definition every class defined so far is probed on an instance
       with every argument class (bodies use call_next and recurse on the bound
       method).  Trace_Resolve C17Clause judges each probe with the documented
       resolution rule over EffMethods, checks self, and names re-probes of
       earlier classes bases_and_siblings_unchanged.
M    : MC_Resolve (the resolution rule) and MC_Class (Doc-level invariants of
       EffMethods over every hierarchy of the bound).
"""

import json
import random

from .. import pool, tlc, workers
from ..report import Report
from . import static

ARGPAR = [[], [1], [2], [1]]  # object, X, Y(X), Z


def gen_hierarchy(rng, nmax, allow_latemark, rename=False):
    hosts = []
    mid = [0]
    pn = ["x"]

    def defs(n, marked_first, latemark=False, ts=None):
        ts = ts or rng.sample([1, 2, 3, 4], n)
        n = len(ts)
        out = []
        for j, t in enumerate(ts):
            mid[0] += 1
            body = rng.choice(["leaf", "leaf", "next", {"to": rng.choice([2, 3, 4])}])
            out.append({"id": f"m{mid[0]}", "t": t, "pn": pn[0], "marked": bool((marked_first and j == 0) or (latemark and j == n - 1 and n > 1)), "body": body})
        return out

    n = rng.randint(2, nmax)
    for k in range(1, n + 1):
        if rename:
            # every class body names the dispatched parameter its own way
            pn[0] = rng.choice(["x", "y", "y", "z"])
        earlier = list(range(1, k))
        has_f = [b for b in earlier if hosts[b - 1]["hasf"]]
        if k == 1 or rng.random() < 0.2:
            # a root: metaclass, OvldBase, or a plain mixin class
            kind = rng.choice(["meta", "base", "plain"]) if k > 1 else rng.choice(["meta", "base"])
            if kind == "plain":
                body = defs(1, False)
                hosts.append({"bases": [], "root": "none", "mc": False, "body": body, "hasf": True})
            else:
                body = defs(rng.randint(1, 3), False)
                hosts.append({"bases": [], "root": kind, "mc": True, "body": body, "hasf": True})
            continue
        nb = rng.choice([1, 1, 2]) if len(earlier) >= 2 else 1
        bases = sorted(rng.sample(earlier, nb), reverse=True)
        mc = any(hosts[b - 1]["mc"] for b in bases)
        if not mc:
            # make sure the metaclass is in effect somewhere: add the first metaclass host if any
            mch = [b for b in earlier if hosts[b - 1]["mc"]]
            if mch and mch[0] not in bases:
                bases = sorted(set(bases) | {mch[0]}, reverse=True)
                mc = True
        nd = rng.choice([0, 1, 1, 2, 3])
        if nd == 0 and len(bases) != 1:
            # no definition of its own under two bases: only with unrelated bases that all have the name
            anc = [ancestors_of(hosts, b) for b in bases]
            if not (mc and len(bases) == 2 and not (anc[0] & anc[1]) and all(hosts[b - 1]["hasf"] for b in bases)):
                nd = 1
        basef = any(hosts[b - 1]["hasf"] for b in bases)
        marked = basef and rng.random() < 0.7
        # (also when no base has the name: the mark then has nothing to extend, the definitions still form one overload)
        latemark = allow_latemark and not marked and nd >= 2 and rng.random() < 0.3
        ts = None
        if rename and marked and mc and rng.random() < 0.6:
            # override everything inherited (same annotations, renamed parameter)
            inh = set()
            for b in bases:
                inh |= eff_types(hosts, b)
            if 1 <= len(inh) <= 3:
                ts = sorted(inh)
                rng.shuffle(ts)
        body = defs(nd, marked, latemark, ts=ts) if mc else defs(min(nd, 1), False)
        hosts.append({"bases": bases, "root": "none", "mc": mc, "body": body, "hasf": bool(body) or basef})
    # reject hierarchies where two bases contribute the same annotation and the body does not override it (statement silent)
    for H in hosts:
        if (any(d["marked"] for d in H["body"]) or not H["body"]) and len(H["bases"]) > 1:
            seen = {}
            own = {d["t"] for d in H["body"]}
            for b in H["bases"]:
                for t in eff_types(hosts, b):
                    if t in seen and seen[t] != b and t not in own:
                        return None
                    seen[t] = b
    for H in hosts:
        H.pop("hasf")
        # an ordinary function (single unmarked definition, or no metaclass) cannot use call_next / recurse
        if (not H["mc"] and not (H["body"] and H["body"][-1]["marked"])) or (len(H["body"]) == 1 and not H["body"][0]["marked"]):
            for d in H["body"]:
                d["body"] = "leaf"
    return hosts


def gen_merge_template(rng):
    """class Final(A', B'): pass  where A' / B' derive (through 0-2 pass-through classes) from two unrelated roots,
    the second of which declares the method with extend_super (cf. tests: class Four(Two, Three): pass)."""
    types = rng.sample([1, 2, 3, 4], 4)
    n1 = 2  # the first root is an overload (a single unmarked definition would be an ordinary function: no merge)
    mid = [0]

    def d(t, marked, body="leaf"):
        mid[0] += 1
        return {"id": f"m{mid[0]}", "t": t, "pn": "x", "marked": marked, "body": body}

    hosts = []
    hosts.append({"bases": [], "root": rng.choice(["meta", "base"]), "mc": True,
                  "body": [d(types[j], False, rng.choice(["leaf", "next"]) if n1 > 1 else "leaf") for j in range(n1)]})
    second_plain = rng.random() < 0.5
    marked = rng.random() < 0.8
    n2 = 1 if second_plain else rng.randint(1, 2)
    hosts.append({"bases": [], "root": "none" if second_plain else rng.choice(["meta", "base"]), "mc": not second_plain,
                  "body": [d(types[2 + j], marked and j == 0) for j in range(n2)]})
    if not marked and not second_plain and n2 == 1:
        hosts[1]["body"][0]["body"] = "leaf"
    a, b = 1, 2
    for _ in range(rng.randint(0, 2)):
        hosts.append({"bases": [a], "root": "none", "mc": True, "body": []})
        a = len(hosts)
    for _ in range(rng.randint(0, 2)):
        hosts.append({"bases": [b], "root": "none", "mc": hosts[b - 1]["mc"], "body": []})
        b = len(hosts)
    hosts.append({"bases": [a, b], "root": "none", "mc": True, "body": []})
    if rng.random() < 0.5:
        hosts.append({"bases": [len(hosts)], "root": "none", "mc": True, "body": [d(types[1] if n1 == 1 else types[3] if n2 == 1 else types[0], True)]})
    return hosts


def ancestors_of(hosts, h):
    out = {h}
    for b in hosts[h - 1]["bases"]:
        out |= ancestors_of(hosts, b)
    return out


def eff_types(hosts, h):
    H = hosts[h - 1]
    own = H["body"]
    if own:
        if not H["mc"] or (len(own) == 1 and not own[0]["marked"]) or not any(d["marked"] for d in own):
            return {d["t"] for d in own} if H["mc"] and len(own) > 1 else {own[-1]["t"]}
        s = {d["t"] for d in own}
        for b in H["bases"]:
            s |= eff_types(hosts, b)
        return s
    s = set()
    for b in H["bases"]:
        s |= eff_types(hosts, b)
    return s


def run(prop, tier, seed, replay=None):
    rep = Report(prop, tier, seed)
    thorough = tier == "thorough"
    rng = random.Random(seed * 17 + 1717)
    rep.assumptions = [
        "which of two bases wins when both contribute the same annotation, and classes without a definition under several bases, are left open by the statement and not generated",
        "an extend_super marker is placed on the first same-named definition of a body (documented usage); the late-marker shape is generated separately",
    ]
    mc = tlc.run_tlc("MC_Resolve", "MC_Resolve_quick.cfg", timeout=1800)
    rep.add_tlc(mc, "model check MC_Resolve (resolution rule)")
    if mc.violated or mc.rc != 0:
        rep.machinery_failure(f"MC_Resolve: {mc.violated or mc.rc}")
    mc2 = tlc.run_tlc("MC_Class", "MC_Class.cfg", timeout=1800)
    rep.add_tlc(mc2, "model check MC_Class (Doc-level invariants of EffMethods)")
    if mc2.violated or mc2.rc != 0:
        rep.machinery_failure(f"MC_Class: {mc2.violated or mc2.rc}: {mc2.out[-500:]}")
    n = 300 if not thorough else 6000
    jobs = []
    tries = 0
    while len(jobs) < n and tries < n * 5:
        tries += 1
        if tries % 6 == 5:
            hosts = gen_merge_template(rng)
        else:
            hosts = gen_hierarchy(rng, 4 if not thorough else 6, allow_latemark=(tries % 2 == 0), rename=(tries % 3 == 1))
        if hosts is None:
            continue
        jobs.append({"id": f"C17-{len(jobs)}", "world": {"parents": ARGPAR, "hosts": hosts, "methods": []}, "args": [1, 2, 3, 4]})
    # the recorded late-marker shape (KF-latemark), always present
    late = [{"bases": [], "root": "meta", "mc": True, "body": [{"id": "m1", "t": 2, "pn": "x", "marked": False, "body": "leaf"},
                                                             {"id": "m2", "t": 1, "pn": "x", "marked": False, "body": "leaf"}]},
            {"bases": [1], "root": "none", "mc": True, "body": [{"id": "m3", "t": 4, "pn": "x", "marked": False, "body": "leaf"},
                                                               {"id": "m4", "t": 3, "pn": "x", "marked": True, "body": "leaf"}]}]
    jobs.append({"id": f"C17-{len(jobs)}", "world": {"parents": ARGPAR, "hosts": late, "methods": []}, "args": [1, 2, 3, 4]})
    res = pool.run(workers.class_cases, jobs)
    full = {c["id"]: c for c in res}
    cases = []
    for c in res:
        steps = []
        idx = []
        for q, st in enumerate(c["steps"]):
            if st["op"] != "probe":
                continue
            o = st["obs"]
            steps.append({"call": st["call"], "host": st["host"], "after": st["after"], "bykw": st.get("bykw", ""),
                          "obs": {"kind": o["kind"], "entered": o["entered"], "resolve": o["resolve"], "slf": o["slf"]}})
            idx.append(q)
        c["_idx"] = idx
        if steps:
            cases.append({"id": c["id"], "props": ["C17"], "world": c["world"], "steps": steps})
    verdicts = {}
    B = 500
    for k in range(0, len(cases), B):
        v, r = tlc.judge("Trace_Resolve", cases[k : k + B])
        rep.add_tlc(r, f"judge Trace_Resolve (C17Clause) batch {k // B}")
        verdicts.update(v)
    rep.judged = len(verdicts)
    for c in res:
        for st in c["steps"]:
            if st["op"] == "defclass" and st["result"] != "ok":
                rep.rejected("C17:class_definition_accepted", {"kind": "class_case", "hosts": c["world"]["hosts"], "failed": st, "case_id": c["id"]},
                             {"hosts": c["world"]["hosts"], "host": st["host"]})
    for cid, v in verdicts.items():
        c = full[cid]
        for q in c["_idx"]:
            rep.evaluations += 1
            st = c["steps"][q]
            if st["after"] > st["host"] or len(st["obs"]["entered"]) > 1:
                rep.note_nontrivial(cid + "/" + str(q))
        for rej in static.rejections(v):
            st = c["steps"][c["_idx"][rej["step"] - 1]]
            rep.rejected(rej["clause"], {"kind": "class_case", "hosts": c["world"]["hosts"], "probe": st, "case_id": cid},
                         {"hosts": c["world"]["hosts"], "host": st["host"]})
    for c in res[:2]:
        rep.sample({"hosts": c["world"]["hosts"], "steps": c["steps"][:4]})
    rep.rule = (
        f"{len(res)} random hierarchies of 2-{4 if not thorough else 6} classes (metaclass or OvldBase roots, plain mixin classes, one or two bases, 0-3 same-named definitions "
        "with distinct annotations over {object, X, Y(X), Z}, extend_super on the first definition or absent, bodies leaf / call_next / recurse); after every class "
        "definition every class defined so far is probed with every argument class. evaluations = probes; non-trivial = re-probe of an earlier class or a chain of >= 2 bodies."
    )
    return rep.finish()
