"""C12 / C13: laws of the specificity order and of the subtype test, and the
documented meaning of every static type, on tables recorded from the real
library over a finite universe of types (closure of the constructors over a
class hierarchy with an ABC, multiple inheritance and builtins).

M    : spec/MC_Types.tla - the Impl transcription of typeorder for classes,
       unions and intersections (TypeImpl.tla) checked against the laws over
       every pair of a term closure.
C->S : spec/Trace_Types.tla evaluates the laws (Doc) on the recorded tables.
"""

import json
import os
import shutil

from .. import pool, tlc, typeuniv, workers
from ..report import Report
from . import static


def judge_tables(T, rows):
    """One TLC run: Tab as a single JSON object, one initial state per row."""
    n = len(T)
    order = [rows[str(i)]["order"] for i in range(1, n + 1)]
    subtt = [rows[str(i)]["subtt"] for i in range(1, n + 1)]
    tab = {"types": T, "order": order, "subtt": subtt, "parents": typeuniv.PARENTS, "attrs": typeuniv.ATTRS, "equiv": typeuniv.EQUIV,
           "rows": [{k: v for k, v in rows[str(i)].items() if k in ("clssub", "clssub_raw", "dispatch", "dispatch_alone", "twin")} for i in range(1, n + 1)],
           "rowids": {str(i): 1 for i in range(1, n + 1)}}
    return tab


def run(prop, tier, seed, replay=None):
    rep = Report(prop, tier, seed)
    thorough = tier == "thorough"
    rep.assumptions = [
        "laws only (no full 'correct order' function); the deliberately incoherent Whatever type is excluded (statement)",
        "C13 applicable_iff_sat: a satisfied type may also end in the ambiguity error against f(x: object); an unsatisfied one must run the object method",
    ]
    mc = tlc.run_tlc("MC_Types", "MC_Types_quick.cfg" if not thorough else "MC_Types_thorough.cfg", timeout=3600)
    rep.add_tlc(mc, "model check MC_Types (laws on the Impl transcription of typeorder)")
    if mc.violated:
        rep.machinery_failure(f"model-level counter-example: {mc.violated} fails in MC_Types")
    elif mc.rc != 0 or not mc.finished:
        rep.machinery_failure(f"MC_Types did not finish (rc={mc.rc}): {mc.out[-800:]}")
    T = typeuniv.universe(depth2=True, big=thorough)
    n = len(T)
    static_ok = {}

    def deep_static(i):
        t = T[i - 1]
        if t["k"] in ("cls",):
            return t["c"] != 0
        if t["k"] in ("exactly", "strict", "hasmethod"):
            return True
        if t["k"] in ("union", "inter"):
            return all(deep_static(a) for a in t["args"])
        return False

    for i in range(1, n + 1):
        static_ok[str(i)] = deep_static(i)
    idx = list(range(1, n + 1))
    chunks = pool.chunked(idx, 32)
    jobs = [{"id": f"tt{k}", "types": T, "rows": ch, "static_ok": static_ok} for k, ch in enumerate(chunks)]
    res = pool.run(workers.type_tables, jobs, chunks_per_proc=2)
    rows = {}
    for r in res:
        rows.update(r["rows"])
    tab = judge_tables(T, rows)
    ids = [{"id": f"r{i}"} for i in range(1, n + 1)]
    # the judge takes the whole table as one object; tlc.judge wants a list of cases -> wrap
    d = tlc.scratch_dir("types")
    path = os.path.join(d, "tab.json")
    with open(path, "w") as f:
        json.dump(tab, f)
    try:
        r = tlc.run_tlc("Trace_Types", "Trace_Types.cfg", env={"VF_CASES": path}, timeout=1800)
    finally:
        shutil.rmtree(d, ignore_errors=True)
    rep.add_tlc(r, "judge Trace_Types (laws on the recorded tables)")
    if r.rc != 0 or not r.finished:
        rep.machinery_failure("Trace_Types failed: " + r.out[-1500:])
        return rep.finish()
    verdicts = {}
    for s in r.printed:
        if s.startswith("VERDICT|"):
            parts = s.split("|")
            verdicts[parts[1]] = {"clause": parts[2], "flags": {}}
    if len(verdicts) != n:
        rep.machinery_failure(f"Trace_Types: {len(verdicts)} verdicts for {n} rows")
    rep.judged = len(verdicts)
    rep.evaluations = n * n if prop == "C12" else n * n + sum(1 for i in range(1, n + 1) if static_ok[str(i)]) * typeuniv.NCLS
    for i in range(1, n + 1):
        for j in range(1, n + 1):
            if T[i - 1]["k"] != "cls" or T[j - 1]["k"] != "cls":
                rep.nontrivial.add((i, j))
    for cid, v in verdicts.items():
        i = int(cid[1:])
        for rej in static.rejections(v):
            if not rej["clause"].startswith(prop):
                continue
            j = rej["step"]
            pair = {"i": i, "a": T[i - 1], "j": j, "b": T[j - 1] if j else None,
                    "order_ab": rows[str(i)]["order"][j - 1] if j else None,
                    "order_ba": rows[str(j)]["order"][i - 1] if j else None,
                    "row": {k: v for k, v in rows[str(i)].items() if k in ("clssub", "clssub_raw", "dispatch", "dispatch_alone", "twin")} if not j else None}
            rep.rejected(rej["clause"], {"kind": "type_pair", **pair, "types": T},
                         {"a": T[i - 1], "b": T[j - 1] if j else None, "T": T, "i": i, "j": j,
                          "oab": pair["order_ab"], "oba": pair["order_ba"]})
    if prop == "C13":
        # Deferred classes: declared before their module is imported (package sub-module and top-level module)
        os.makedirs(tlc.BUILD, exist_ok=True)
        dres = pool.run(workers.deferred_tables, [{"id": f"def{k}", "n": k, "dir": tlc.BUILD} for k in range(2)], procs=2)
        for dr in dres:
            n2 = len(dr["types"])
            tab2 = {"types": dr["types"], "order": [dr["rows"][str(i)]["order"] for i in range(1, n2 + 1)],
                    "subtt": [dr["rows"][str(i)]["subtt"] for i in range(1, n2 + 1)], "parents": dr["parents"], "attrs": dr["attrs"],
                    "equiv": [], "rows": [{k: v for k, v in dr["rows"][str(i)].items() if k in ("clssub", "clssub_raw", "dispatch", "dispatch_alone", "dispatch_both", "twin")} for i in range(1, n2 + 1)],
                    "rowids": {str(i): 1 for i in range(1, n2 + 1)}}
            d2 = tlc.scratch_dir("types")
            path2 = os.path.join(d2, "tab.json")
            with open(path2, "w") as f:
                json.dump(tab2, f)
            try:
                r2 = tlc.run_tlc("Trace_Types", "Trace_Types.cfg", env={"VF_CASES": path2}, timeout=600)
            finally:
                shutil.rmtree(d2, ignore_errors=True)
            rep.add_tlc(r2, "judge Trace_Types (Deferred universe)")
            if r2.rc != 0 or not r2.finished:
                rep.machinery_failure("Trace_Types (Deferred) failed: " + r2.out[-800:])
                continue
            rep.evaluations += 12
            for s_ in r2.printed:
                if s_.startswith("VERDICT|"):
                    parts = s_.split("|")
                    for rej in static.rejections({"clause": parts[2], "flags": {}}):
                        if rej["clause"].startswith("C13"):
                            i2 = int(parts[1][1:])
                            rep.rejected(rej["clause"], {"kind": "deferred", "type": dr["types"][i2 - 1], "row": dr["rows"][str(i2)], "case_id": dr["id"]}, {})
            if dr["pre"] != {"d1": "O", "d2": "O"} or dr["pre_both"] != "O":
                rep.rejected("C13:applicable_iff_sat.deferred_before_import", {"kind": "deferred", "pre": dr["pre"], "pre_both": dr["pre_both"]}, {})
            if not dr["loaded_returns_class"]:
                rep.rejected("C13:deferred_loaded_is_class", {"kind": "deferred"}, {})
    rep.sample({"types": T[:12], "order_row_1": rows["1"]["order"][:12]})
    rep.sample({"type": T[n - 1], "order_row": rows[str(n)]["order"][:20]})
    rep.rule = (
        f"universe of {n} types: 9 classes (multiple inheritance, an ABC with a registered class, int/bool/str), Exactly, StrictSubclass, HasMethod, "
        "unions and intersections (disjoint, overlapping, permuted, three members), Literal, Dependent, tuple[...], type[...], list[...] / dict[...] "
        "aliases, and depth-2 nestings; every ordered pair is recorded from typeorder and subclasscheck, every static type against every class "
        "(subclasscheck and real dispatch). evaluations = pairs (+ class rows); non-trivial = pairs not between two plain classes."
    )
    rep.exhaustive = True
    return rep.finish()
