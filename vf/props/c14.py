"""C14: types passed as arguments dispatch on type[...] by subtype.

The passed type objects (classes, parametrised generics, nested
parametrisations, typing.Any) are element terms; the Doc subtype relation
between them is Types.tla SubElem.  The poset of annotations - plain object on
top, type[e] ordered like the elements - is handed to the documented
resolution rule (Resolve.tla) as an ordinary class poset, after TLC has
checked that the poset the harness built is exactly SubElem (premise).
M: MC_Resolve (the resolution rule itself, shared with C02).
"""

import itertools
import json
import random

from .. import pool, tlc, workers, worlds
from ..report import Report
from . import static

# base classes: 1 object, 2 A, 3 B(A), 4 C, 5 Sequence, 6 list (a Sequence), 7 dict, 8 str (a Sequence)
ELBASE = [[], [1], [2], [1], [1], [5], [1], [5]]
BUILTIN = {"5": "Sequence", "6": "list", "7": "dict", "8": "str"}
SEQ, LIST, DICT, STR = 5, 6, 7, 8


def cls(c):
    return {"k": "cls", "c": c}


def gen(o, *args):
    return {"k": "gen", "o": o, "args": list(args)}


ELEMENTS = [
    cls(1), cls(2), cls(3), cls(4), cls(LIST), cls(DICT),
    gen(LIST, cls(2)), gen(LIST, cls(3)), gen(LIST, cls(4)),
    gen(DICT, cls(STR), cls(2)), gen(DICT, cls(STR), cls(3)),
    gen(LIST, gen(LIST, cls(2))), gen(LIST, gen(LIST, cls(3))),
    gen(DICT, cls(STR)), gen(LIST, cls(2), cls(3)), gen(LIST, gen(LIST, cls(2), cls(3))),   # same origin, other number of arguments
    cls(SEQ), gen(SEQ, cls(2)), gen(SEQ, cls(3)), gen(LIST, cls(1)),                          # an origin above list: Sequence[...]; list[object]
    {"k": "metaof", "m": "M1", "cs": [2, 3]},                                                  # the metaclass of A (and so of B) used as an annotation
    {"k": "metaof", "m": "M1", "cs": [2, 3], "via": "base"},                                   # an ordinary class that metaclass inherits from (like an ABC)
    # Exactly[type] (EXACTV variant only): of the classes passed there (A, B - whose class is the metaclass M1 - and C) it admits C.
    # (list, dict, ... are admitted too in reality, but not their parametrisations: they are not passed in that variant)
    {"k": "metaof", "m": "EXACT", "cs": [4]},
    # unions written inside type[...] (annotations only, never passed): type[A | C], type[B | C]
    {"k": "un", "args": [cls(2), cls(4)]}, {"k": "un", "args": [cls(3), cls(4)]},
    {"k": "any"},
]


def py_subelem(anc, x, y):
    """Mirror of Types.tla SubElem, used to *build* the poset; TLC re-checks it (premise)."""
    if y["k"] == "any":
        return py_subelem(anc, x, cls(1))
    if x["k"] == "any":
        return py_subelem(anc, cls(1), y)
    if x["k"] == "un":
        return all(py_subelem(anc, m, y) for m in x["args"])
    if y["k"] == "un":
        return any(py_subelem(anc, x, m) for m in y["args"])
    if x["k"] == "metaof":
        return (y["k"] == "cls" and y["c"] == 1 and "via" not in x) or x == y or (y["k"] == "metaof" and y["m"] == x["m"] and "via" in y and "via" not in x)
    if y["k"] == "metaof":
        return x["k"] == "cls" and x["c"] in y["cs"]
    if x["k"] == "cls" and y["k"] == "cls":
        return y["c"] in anc[x["c"]]
    if x["k"] == "gen" and y["k"] == "cls":
        return y["c"] in anc[x["o"]]
    if x["k"] == "gen" and y["k"] == "gen":
        return y["o"] in anc[x["o"]] and len(x["args"]) == len(y["args"]) and all(
            py_subelem(anc, a, b) for a, b in zip(x["args"], y["args"]))
    return False


def build_world(rng, with_inst):
    anc = worlds.ancestors(ELBASE)
    els = list(ELEMENTS)
    # `any` is the same node as cls(1) semantically (mutually subtypes): keep it only as an argument
    # order elements so that supertypes come first (more supers => later)
    tys = [e for e in els if e["k"] != "any"]
    allt = list(tys)   # (a list is empty while it is being sorted)
    tys.sort(key=lambda e: sum(1 for f in allt if f is not e and py_subelem(anc, e, f)))
    nodes = [{"k": "top"}] + tys
    parents = [[]]
    for n, e in enumerate(tys, start=2):
        ps = [1] + [m for m, f in enumerate(tys, start=2) if m < n and py_subelem(anc, e, f) and not py_subelem(anc, f, e)]
        parents.append(ps)
    inst_ids = []
    if with_inst:
        # ordinary instance classes for a second position: A and B(A)
        nodes.append({"k": "inst", "c": 2})
        parents.append([1])
        nodes.append({"k": "inst", "c": 3})
        parents.append([len(nodes) - 1])
        inst_ids = [len(nodes) - 1, len(nodes)]
    return {"elbase": ELBASE, "elbuiltin": BUILTIN, "elmeta": {"2": "M1"}, "elements": nodes, "parents": parents}, len(tys), inst_ids


def gen_jobs(tier, seed):
    rng = random.Random(seed * 1009 + 14)
    n = 220 if tier == "quick" else 5000
    jobs = []
    for q in range(n):
        with_inst = q % 3 == 0
        w, nty, inst = build_world(rng, with_inst)
        tynodes = [n_ for n_ in range(2, nty + 2) if w["elements"][n_ - 1].get("m") != "EXACT"]
        exact = next(n_ for n_ in range(2, nty + 2) if w["elements"][n_ - 1].get("m") == "EXACT")
        nm = rng.randint(2, 5)
        methods = []
        for j in range(nm):
            r = rng.random()
            t1 = 1 if r < 0.15 else rng.choice(tynodes)
            pos = [t1]
            if with_inst:
                pos.append(rng.choice([1] + inst))
            m = worlds.mkmethod(f"m{j + 1}", j + 1, pos, prio=rng.choice([0, 0, 0, 1]))
            m["bare"] = rng.random() < 0.5
            m["anyspell"] = (q % 4 == 1) and not m["bare"]
            methods.append(m)
        # not generated together: a bare class (type[list]) and a generic over a strict superclass of it
        # (type[Sequence[A]]).  The library orders the bare class below (tests/test_mro.py: inorder(Iterable[int], list))
        # although it is not a subtype; the statement's "more specific" does not settle that pair.
        els_ = w["elements"]
        anc_ = worlds.ancestors(ELBASE)

        def clash(ms):
            tt = [els_[t["c"] - 1] for m in ms for t in m["pos"] if t["c"] != 1]
            return any(x["k"] == "cls" and y["k"] == "gen" and x["c"] != y["o"] and y["o"] in anc_.get(x["c"], ())
                       for x in tt for y in tt if x.get("k") in ("cls",) and "c" in x)
        for _ in range(20):
            if not clash(methods):
                break
            for m in methods:
                for t in m["pos"]:
                    if t["c"] != 1 and els_[t["c"] - 1].get("k") == "gen" and els_[t["c"] - 1]["o"] == SEQ:
                        t["c"] = rng.choice(tynodes)
        w["methods"] = methods
        calls = []
        for a in tynodes:
            if w["elements"][a - 1]["k"] in ("metaof", "un"):
                continue
            if with_inst:
                for b in inst + [1]:
                    calls.append(worlds.mkcall([a, b]))
            else:
                calls.append(worlds.mkcall([a]))
        # typing.Any passed as an argument counts as the class object
        objnode = next(n for n, e in enumerate(w["elements"], start=1) if e == {"k": "cls", "c": 1})
        ca = worlds.mkcall([objnode] + ([inst[0]] if with_inst else []))
        ca["pos"][0]["any"] = True
        calls.append(ca)
        # an ordinary (non-type) first argument as well
        calls.append(worlds.mkcall([1] + ([inst[0]] if with_inst else [])))
        if q % 5 == 4:
            # the type-valued argument through a keyword-only parameter (optional in some methods, absent in others)
            for m in methods:
                if rng.random() < 0.7:
                    m["kwn"], m["kwt"], m["kwreq"] = ["k"], [worlds.cls(rng.choice(tynodes))], [rng.random() < 0.3]

            # the excluded pair (a bare class next to a generic over a strict superclass of it) must not come back through
            # the keyword types either (found by the thorough tier: false alarm of the generator, DESIGN 12.22)
            def kwclash(ms):
                tt = [els_[t["c"] - 1] for m in ms for t in m["kwt"] if t["c"] != 1]
                return any(x["k"] == "cls" and y["k"] == "gen" and x["c"] != y["o"] and y["o"] in anc_.get(x["c"], ())
                           for x in tt for y in tt if x.get("k") in ("cls",) and "c" in x)
            for _ in range(20):
                if not kwclash(methods):
                    break
                for m in methods:
                    for t in m["kwt"]:
                        if t["c"] != 1 and els_[t["c"] - 1].get("k") == "gen" and els_[t["c"] - 1]["o"] == SEQ:
                            t["c"] = rng.choice(tynodes)
            base_calls = list(calls)
            calls = []
            for c in base_calls[:10]:
                calls.append(c)
                for e in rng.sample([n_ for n_ in tynodes if w["elements"][n_ - 1]["k"] not in ("metaof", "un")], 3):
                    c2 = json.loads(json.dumps(c))
                    c2["kwn"], c2["kwa"] = ["k"], [{"c": e}]
                    calls.append(c2)
        if with_inst and q % 2 == 0:
            # the type-valued argument in second position
            for m in methods:
                m["pos"].reverse()
            for c in calls:
                c["pos"].reverse()
        if q % 7 == 3 and not any(m["kwn"] for m in methods):
            # every parameter positional-only
            for m in methods:
                m["posonly"] = len(m["pos"])
        if q % 11 == 5 and not with_inst:
            # a single method whose annotation is a union of type[...] arms: applicable to a passed type iff some arm admits it
            a1, a2 = rng.sample([n_ for n_ in tynodes if w["elements"][n_ - 1]["k"] not in ("metaof", "un")], 2)
            methods = [worlds.mkmethod("m1", 1, [1])]
            methods[0]["pos"] = [{"k": "union", "args": [worlds.cls(a1), worlds.cls(a2)]}]
            if q % 2 == 1:
                methods[0]["pos"][0]["litarm"] = rng.randint(1, 3)
            methods[0]["bare"] = False
            w["methods"] = methods
            calls = [c for c in calls if not c["pos"][0].get("any") and c["pos"][0]["c"] != 1]
        if q % 11 == 6 and not with_inst:
            # a single method whose annotation is Dependent[type[X], <always true>] (plus, sometimes, an ordinary int method):
            # applicable to a passed type iff type[X] admits it
            a1 = rng.choice([n_ for n_ in tynodes if w["elements"][n_ - 1]["k"] not in ("metaof", "un")])
            methods = [worlds.mkmethod("m1", 1, [a1])]
            methods[0]["bare"] = rng.random() < 0.5
            methods[0]["depwrap"] = True
            w["methods"] = methods
            calls = [c for c in calls if not c["pos"][0].get("any")]
        if q % 11 == 7 and not with_inst:
            # EXACTV: Exactly[type] next to a plain object method - and, every other time, a type[...] method that admits none
            # of the passed classes (it only changes how the argument is keyed); the Exactly method delegates
            gens = [n_ for n_ in tynodes if w["elements"][n_ - 1]["k"] == "gen" and w["elements"][n_ - 1]["o"] == LIST]
            methods = [worlds.mkmethod("m1", 1, [exact], body=rng.choice(["fnext", "next", "leaf"])), worlds.mkmethod("m2", 2, [1])]
            if q % 2 == 0:
                methods.append(worlds.mkmethod("m3", 3, [rng.choice(gens)]))
            if q % 3 == 1:
                # a plain object method of higher priority that delegates (f.next / call_next) down to the Exactly method
                methods.append(worlds.mkmethod("m4", 4, [1], prio=1, body=rng.choice(["fnext", "next"])))
            for m in methods:
                m["bare"] = False
            w["methods"] = methods
            calls = [c for c in calls if not c["pos"][0].get("any")
                     and w["elements"][c["pos"][0]["c"] - 1].get("k") in ("top", "cls") and w["elements"][c["pos"][0]["c"] - 1] in (cls(2), cls(3), cls(4))]
        jobs.append({"id": f"C14-{q}", "world": w, "calls": calls})
    return jobs


def run(prop, tier, seed, replay=None):
    rep = Report(prop, tier, seed)
    rep.assumptions = [
        "the passed objects' subtype relation is Types.tla SubElem; TLC checks that the annotation poset built by the harness equals it (premise) before judging",
        "typing.Any as an *annotation argument* (type[Any]) is not generated; Any is only passed / compared as object",
    ]
    mc = tlc.run_tlc("MC_Resolve", "MC_Resolve_quick.cfg", timeout=1800)
    rep.add_tlc(mc, "model check MC_Resolve (resolution rule shared with C02)")
    if mc.violated or mc.rc != 0:
        rep.machinery_failure(f"MC_Resolve: {mc.violated or mc.rc}")
    jobs = gen_jobs(tier, seed)
    res = pool.run(workers.typearg_cases, jobs)
    full = {c["id"]: c for c in res}
    cases = []
    for c in res:
        sc = static.strip_obs(c)
        cases.append(sc)
    verdicts = {}
    B = 600
    for k in range(0, len(cases), B):
        v, r = tlc.judge("Trace_Resolve", cases[k : k + B])
        rep.add_tlc(r, f"judge Trace_Resolve (C14Clause) batch {k // B}")
        verdicts.update(v)
    rep.judged = len(verdicts)
    for cid, v in verdicts.items():
        c = full[cid]
        for st in c["steps"]:
            rep.evaluations += 1
            if static.py_applicable_count(c["world"], st["call"]) >= 2:
                rep.note_nontrivial(json.dumps([c["world"]["methods"], st["call"]], sort_keys=True))
        for rej in static.rejections(v):
            if "premise" in rej["clause"]:
                rep.machinery_failure(f"poset built by the harness is not SubElem in {cid}")
                continue
            st = c["steps"][rej["step"] - 1]
            rep.rejected(rej["clause"], {"kind": "typearg_case", "world": c["world"], "step": st, "case_id": cid}, {"kf": rej["kf"]})
    rep.sample({"elements": res[0]["world"]["elements"], "methods": res[0]["world"]["methods"], "first_steps": res[0]["steps"][:2]})
    rep.rule = (
        "passed objects: object, A, B(A), C, list, dict, list[A], list[B], list[C], dict[str,A], dict[str,B], list[list[A]], list[list[B]] "
        "dict[str], list[A,B], list[list[A,B]] (other arities), (typing.Any handled as object); random sets of 2-5 methods annotated type[X] (X any of them; bare `type`; plain object), optionally with a "
        "second, ordinary class-dispatched position; every passed object x every second argument. non-trivial = >= 2 applicable methods."
    )
    return rep.finish()
