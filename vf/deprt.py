"""Worker-side realisation of value worlds (C10 / C11): classes with builtins,
named values, value-dependent annotations with logging user predicates."""

import json
import linecache
import typing

# classes: 1 object, 2 int, 3 str, 4 A, 5 B(A), 6 C
PARENTS = [[], [1], [1], [1], [4], [1]]
KINDS = ["object", "builtin:int", "builtin:str", "plain", "plain", "plain"]

VALUES = [
    ("im1", 2, -1), ("i0", 2, 0), ("i1", 2, 1), ("i2", 2, 2), ("i3", 2, 3), ("i4", 2, 4), ("i5", 2, 5),
    ("se", 3, ""), ("sa", 3, "a"), ("sab", 3, "ab"), ("sb", 3, "b"),
    ("a1", 4, None), ("b1", 5, None), ("c1", 6, None), ("o1", 1, None),
]


def value_term(name, c, pyv):
    if c == 2:
        return {"t": "int", "v": pyv}
    if c == 3:
        return {"t": "str", "v": [ord(ch) for ch in pyv]}
    return {"t": "obj", "v": [n for n, _, _ in VALUES].index(name)}


def arg_record(name):
    for n, c, pyv in VALUES:
        if n == name:
            return {"c": c, "name": n, "v": value_term(n, c, pyv)}
    raise KeyError(name)


KWDFLT = object()


class ValueWorld:
    def __init__(self):
        self.classes = [None, object, int, str]
        for c in range(4, len(PARENTS) + 1):
            ps = [p for p in PARENTS[c - 1] if p != 1]
            self.classes.append(type(f"K{c}", tuple(self.classes[p] for p in ps) or (object,), {"__module__": "vfworld"}))
        self.objs = {}
        self.names = {}
        for n, c, pyv in VALUES:
            o = pyv if c in (2, 3) else self.classes[c]()
            self.objs[n] = o
            self.names[(c, pyv) if c in (2, 3) else id(o)] = n
        self.predlog = []
        self.log = []
        self.preds = {}
        self.tcache = {}

    def name_of(self, o):
        if type(o) is int:
            return self.names.get((2, o), f"int:{o}")
        if type(o) is str:
            return self.names.get((3, o), f"str:{o}")
        return self.names.get(id(o), f"?{type(o).__name__}")

    def class_of(self, o):
        for c in range(len(self.classes) - 1, 0, -1):
            if type(o) is self.classes[c]:
                return c
        return 0

    def arg_of(self, o):
        n = self.name_of(o)
        try:
            return arg_record(n)
        except KeyError:
            return {"c": self.class_of(o), "name": n, "v": {"t": "obj", "v": -1}}

    def pred(self, term):
        key = (json.dumps(term["bound"], sort_keys=True), tuple(term["holds"]))
        if key in self.preds:
            return self.preds[key]
        holds = set(term["holds"])
        vw = self

        def p(v):
            vw.predlog.append({"t": term, "a": vw.arg_of(v)})
            return vw.name_of(v) in holds

        p.__name__ = "p" + str(len(self.preds))
        self.preds[key] = p
        return p

    def real_type(self, t):
        from ovld import Dependent

        k = t["k"]
        if k == "cls":
            return self.classes[t["c"]]
        if k == "dep":
            # identical terms are one annotation object (Dependent[...] creates a new type per call)
            b = t["bound"]
            if b["k"] in ("lit", "dep"):
                # a bound that is itself value-dependent
                key = ("dep", json.dumps(b, sort_keys=True), tuple(t["holds"]))
                if key not in self.tcache:
                    self.tcache[key] = Dependent[self.real_type(b), self.pred(t)]
                return self.tcache[key]
            if b["k"] == "union":
                # the bound written as a union of classes: A | B or typing.Union[A, B]
                key = ("dep", json.dumps(b, sort_keys=True), tuple(t["holds"]))
                if key not in self.tcache:
                    members = [self.classes[a["c"]] for a in b["args"]]
                    if b.get("spell") == "typing":
                        bound = typing.Union[tuple(members)]
                    else:
                        bound = members[0]
                        for m_ in members[1:]:
                            bound = bound | m_
                    self.tcache[key] = Dependent[bound, self.pred(t)]
                return self.tcache[key]
            key = ("dep", t["bound"]["c"], tuple(t["holds"]))
            if key not in self.tcache:
                self.tcache[key] = Dependent[self.classes[t["bound"]["c"]], self.pred(t)]
            return self.tcache[key]
        if k == "lit":
            vals = tuple(v["v"] if v["t"] == "int" else "".join(map(chr, v["v"])) for v in t["vals"])
            return typing.Literal[vals]
        if k == "union":
            return typing.Union[tuple(self.real_type(a) for a in t["args"])]
        if k == "inter":
            from ovld.types import Intersection

            return Intersection[tuple(self.real_type(a) for a in t["args"])]
        raise ValueError(k)

    def build(self, methods, host=False):
        """host=True: the methods are same-named definitions in the body of a class using OvldBase
        (registered in list order); the returned callable is the bound method of one instance."""
        from ovld import Ovld, OvldBase, call_next, ovld

        self.budget = [0]
        self.inst = None
        ns = {"LOG": self.log, "call_next": call_next, "__name__": "vfworld", "OBJ": self.objs, "BUDGET": self.budget,
              "OvldBase": OvldBase, "ovld": ovld}
        src = []
        ind = "    " if host else ""
        for m in (sorted(methods, key=lambda m: m["reg"]) if host else methods):
            params = ["self"] if host else []
            for i, t in enumerate(m["pos"]):
                ns[f"T_{m['id']}_{i}"] = self.real_type(t)
                params.append(f"p{i + 1}: T_{m['id']}_{i}")
            if m.get("kwn"):
                params.append("*")
            for j, kn in enumerate(m.get("kwn", [])):
                ns[f"T_{m['id']}_k{j}"] = self.real_type(m["kwt"][j])
                d = "" if m["kwreq"][j] else " = KWDFLT"
                params.append(f"{kn}: T_{m['id']}_k{j}{d}")
            ns["KWDFLT"] = KWDFLT
            names = ", ".join(f"p{i + 1}" for i in range(len(m["pos"])))
            kwd = ", ".join(f"{kn!r}: {kn}" for kn in m.get("kwn", []))
            kwpass = ", ".join(f"{kn}={kn}" for kn in m.get("kwn", []))
            body = f"    LOG.append(({m['id']!r}, [{names}], {{{kwd}}}{', self' if host else ''}))\n"
            allargs = ", ".join(x for x in (names, kwpass) if x)
            b = m.get("body")
            if b == "next":
                body += f"    return call_next({allargs})\n"
            elif isinstance(b, dict) and b.get("k") == "next_with":
                # call_next with other values (positional), a bounded number of times per outer call
                other = ", ".join(f"OBJ[{v!r}]" for v in b["vals"])
                body += f"    if BUDGET[0] <= 0:\n        return {m['id']!r}\n    BUDGET[0] -= 1\n"
                body += f"    LOG.append(('>next_with', {b['vals']!r}, {{}}))\n"
                body += f"    return call_next({other})\n"
            else:
                body += f"    return {m['id']!r}\n"
            if host:
                # the first definition starts the overload explicitly, so that later ones may carry a priority
                deco = f"    @ovld(priority={m['prio']})\n" if (m["prio"] or not src) else ""
                body = "".join(ind + line + "\n" for line in body.splitlines())
                src.append(f"{deco}    def f({', '.join(params)}):\n{body}")
            else:
                src.append(f"def {m['id']}({', '.join(params)}):\n{body}")
        if host:
            src = ["class H(OvldBase):\n"] + src
        code = "\n".join(src)
        fname = f"<vf:dep{id(self)}-{len(linecache.cache)}>"
        linecache.cache[fname] = (len(code), None, code.splitlines(True), fname)
        exec(compile(code, fname, "exec"), ns, ns)
        if host:
            self.inst = ns["H"]()
            return self.inst.f
        ov = Ovld()
        for m in sorted(methods, key=lambda m: m["reg"]):
            ov.register(ns[m["id"]], priority=m["prio"])
        return ov

    def cleanup(self):
        for k in [k for k in linecache.cache if k.startswith("<ovld:") or k.startswith("<vf:")]:
            del linecache.cache[k]
