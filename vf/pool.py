"""Run harness work in fresh worker processes that import the current /repo."""

import multiprocessing as mp
import os
import sys

REPO_SRC = "/repo/src"


def _init(env):
    os.environ.update(env)
    if REPO_SRC not in sys.path:
        sys.path.insert(0, REPO_SRC)


def chunked(items, n):
    items = list(items)
    size = max(1, (len(items) + n - 1) // n)
    return [items[i : i + size] for i in range(0, len(items), size)]


def run(fn, jobs, procs=None, env=None, chunks_per_proc=4, hashseed=None, fresh_each=False):
    """Apply fn (a module-level function taking a list of jobs and returning
    a list of results) to the jobs, split over fresh processes."""
    procs = procs or min(16, os.cpu_count() or 4)
    jobs = list(jobs)
    if not jobs:
        return []
    env = dict(env or {})
    env.setdefault("OVLD_VERIF", "1")
    old = os.environ.get("PYTHONHASHSEED")
    if hashseed is not None:
        os.environ["PYTHONHASHSEED"] = str(hashseed)
    try:
        ctx = mp.get_context("spawn")
        # fresh_each: every job runs as the very first thing a new interpreter does
        parts = [[j] for j in jobs] if fresh_each else chunked(jobs, procs * chunks_per_proc)
        with ctx.Pool(min(procs, len(parts)), initializer=_init, initargs=(env,), maxtasksperchild=(1 if fresh_each else None)) as pool:
            out = []
            for res in pool.imap(fn, parts):
                out.extend(res)
        return out
    finally:
        if hashseed is not None:
            if old is None:
                os.environ.pop("PYTHONHASHSEED", None)
            else:
                os.environ["PYTHONHASHSEED"] = old
