"""Known findings: genuine defects of the pinned tree that are recorded rather
than repaired.  The list itself is /verif/known_findings.json (committed, never
written at run time); this module holds the *matchers* - root-cause signatures
over the failing input - the entries refer to by name.

A rejected observation is a KNOWN-FINDING only if an entry with
status "known" lists the property and its matcher accepts the rejection;
anything else is a VIOLATION.  Entries with status "fixed" suppress nothing.
"""

import json
import os

VERIF = os.path.dirname(os.path.dirname(os.path.abspath(__file__)))
PATH = os.path.join(VERIF, "known_findings.json")

_MATCHERS = {}


def matcher(name):
    def deco(fn):
        _MATCHERS[name] = fn
        return fn

    return deco


def load():
    if not os.path.exists(PATH):
        return []
    with open(PATH) as f:
        return json.load(f)["findings"]


def match(prop, clause, replay, ctx):
    ctx = ctx or {}
    for e in load():
        if e.get("status") != "known":
            continue
        if prop not in e.get("properties", []):
            continue
        fn = _MATCHERS.get(e["matcher"])
        if fn is None:
            continue
        try:
            if fn(clause, replay, ctx):
                return e
        except Exception:
            continue
    return None


# ---------------------------------------------------------------------------
# Matchers.  Each documents the root-cause signature it implements.
# ---------------------------------------------------------------------------


@matcher("levels")
def _levels(clause, replay, ctx):
    """Integer-level artefact.  Decided by the TLA+ judge itself
    (Trace_Resolve: kf flag) = the input has the KF_levels signature (two
    applicable methods of equal priority, unrelated declared types at some
    supplied position, comparable-or-unrelated in one direction elsewhere) AND
    what the code did is exactly what the Impl layer (ResolveImpl.tla, which
    models the integer levels) predicts for that input."""
    if clause.startswith("C10:") and not clause.startswith("C10:value_outcome."):
        return False
    return ctx.get("kf") == "1"


@matcher("zeroargs")
def _zeroargs(clause, replay, ctx):
    """A call that supplies nothing to dispatch on (no positional argument, no
    keyword-only argument) while some method with parameters accepts it: the
    entry point builds an empty key, which only a parameterless method answers.
    Flag computed by Trace_Entry (KF_zeroargs over the Impl model)."""
    return ctx.get("kflag") == "z" and clause.startswith("C03:accept_promised_shape.got_nomethod")


@matcher("dropkw")
def _dropkw(clause, replay, ctx):
    """A named optional positional given by keyword behind an omitted optional
    positional is not forwarded.  Flag computed by Trace_Entry (KF_dropkw)."""
    return ctx.get("kflag") == "d" and clause.startswith("C03:bind.")


_FAMILY = {"union": "composite", "inter": "composite", "exactly": "exactly", "strict": "check", "hasmethod": "check",
           "lit": "dep", "dep": "dep", "prod": "dep"}


@matcher("crossfamily")
def _crossfamily(clause, replay, ctx):
    """Mirror asymmetry between two hook-defined types of different families."""
    if clause != "C12:mirror":
        return False
    a, b = ctx.get("a"), ctx.get("b")
    if not a or not b:
        return False
    fa, fb = _FAMILY.get(a["k"]), _FAMILY.get(b["k"])
    if fa is None or fb is None or fa == fb:
        return False
    # the recorded pairs: kinds of the two types and the two answers observed
    entry = next(e for e in load() if e["id"] == "KF-crossfamily-order")
    key = min([a["k"], b["k"], ctx.get("oab"), ctx.get("oba")], [b["k"], a["k"], ctx.get("oba"), ctx.get("oab")])
    return key in entry.get("combos", [])


@matcher("pullrank")
def _pullrank(clause, replay, ctx):
    """Signature computed by the TLA+ judge (Dependent.tla KF_pull_rank): a
    dependent method that is a type-level candidate but not applicable to the
    values.  Only outcome clauses (never runs_iff_holds / bound_guard)."""
    return ctx.get("kf") == "1" and (clause.startswith("C10:value_outcome.") or clause.startswith("C07:value_chain.")
                                     or clause.startswith("C06:same_across_contexts."))


@matcher("nextothervalue")
def _nextothervalue(clause, replay, ctx):
    """Signature computed by the TLA+ judge (Trace_Resolve C07VFlag = 2, Dependent.tla
    KF_next_other_value): before the first rejected chain step some method delegated
    with call_next to values other than those it received while being a candidate for
    the new argument classes, in a function where a value-dependent method is a
    candidate for those classes."""
    return ctx.get("kf") == "2" and clause.startswith("C07:value_chain.")


@matcher("latemark")
def _latemark(clause, replay, ctx):
    """extend_super on a same-named definition that is not the first one of
    its class body (first unmarked, a later one marked): the probed class or a
    class it derives from has that shape."""
    hosts, h = ctx.get("hosts"), ctx.get("host")
    if not hosts or not h:
        return False

    def late(H):
        b = H["body"]
        return len(b) >= 2 and not b[0]["marked"] and any(d["marked"] for d in b[1:])

    seen, todo = set(), [h]
    while todo:
        k = todo.pop()
        if k in seen:
            continue
        seen.add(k)
        if late(hosts[k - 1]):
            return True
        todo += hosts[k - 1]["bases"]
    return False


def _walk(t):
    if isinstance(t, dict):
        yield t
        for v in t.values():
            yield from _walk(v)
    elif isinstance(t, list):
        for v in t:
            yield from _walk(v)


def _sites(prog):
    return [t for t in _walk(prog) if t.get("n") == "C"]


@matcher("c09_dstar")
def _c09_dstar(clause, replay, ctx):
    return (clause == "C09:placement_accepted" and any(c["dstar"] and c["site"] == "N" for c in _sites(ctx["prog"]))
            and "No method" in ctx["reg"]["built"])


@matcher("c09_starnext")
def _c09_starnext(clause, replay, ctx):
    return (clause == "C09:placement_accepted" and any(c["star"] and c["site"] == "N" for c in _sites(ctx["prog"]))
            and "call_next should be called right away" in ctx["reg"]["built"])


@matcher("c09_iterable")
def _c09_iterable(clause, replay, ctx):
    def in_items(t):
        for n in _walk(t):
            if n.get("n") == "LC" and any(_sites(i) for i in n["items"]):
                return True
        return False

    return (clause == "C09:placement_accepted" and in_items(ctx["prog"])
            and "assignment expression cannot be used in a comprehension iterable" in ctx["reg"]["built"])


@matcher("internalnames")
def _internalnames(clause, replay, ctx):
    """A parameter named like a fixed identifier of the generated entry point."""
    w = (replay or {}).get("world") or {}
    bad = {"OVLD", "KWARGS", "TARGS", "MISSING"}
    return clause.startswith("C03:") and any(bad & (set(m.get("kwn", [])) | set(m.get("names") or [])) for m in w.get("methods", []))


@matcher("fnextself")
def _fnextself(clause, replay, ctx):
    """The curated class whose K2 method delegates with self.f.next(x)."""
    return clause.startswith("C07:") and bool(ctx.get("fnext_self"))
