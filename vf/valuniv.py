"""Corpus of values and built-in value-dependent types for C11, as terms the
TLA+ judge understands, with their realisation as Python objects."""

import enum
import typing
from collections.abc import Collection, Mapping, Sequence


class Mode(enum.IntEnum):
    R = 1
    W = 2


class UInt(int):
    """an int that cannot be hashed"""
    __hash__ = None


UInt.__name__ = "UInt[8]"


def mkfn(pos, req, kwreq, ret, name):
    """A function value with annotated parameters; its signature as a term rides along (vterm)"""
    names = {1: "object", 5: "int", 6: "bool", 7: "str"}
    params = [f"p{i}: {names[c]}" + ("" if i < req else " = None") for i, c in enumerate(pos)]
    if kwreq:
        params.append("*, k: int")
    ns = {}
    exec(f"def {name}({', '.join(params)}) -> {names[ret]}:\n    return None\n", ns)
    fn = ns[name]
    fn.__vfsig__ = {"t": "fn", "pos": list(pos), "req": req, "kwreq": bool(kwreq), "ret": ret}
    return fn


FUNCS = [
    mkfn([5], 1, False, 5, "f_int_int"), mkfn([1], 1, False, 7, "f_obj_str"), mkfn([5, 7], 1, False, 6, "f_int_optstr_bool"),
    mkfn([5, 5], 2, False, 1, "f_int_int_obj"), mkfn([5], 1, True, 5, "f_int_reqkw_int"), mkfn([], 0, False, 1, "f_none_obj"),
    mkfn([6], 1, False, 5, "f_bool_int"),
]

# classes: 1 object, 2 Collection, 3 Sequence, 4 Mapping, 5 int, 6 bool, 7 str, 8 tuple, 9 list, 10 dict, 11 float, 12 NoneType,
# 13 Mode (an IntEnum), 14 UInt (an unhashable int)
PARENTS = [[], [1], [2], [2], [1], [5], [3], [3], [3], [4], [1], [1], [5], [5], [1]]
CLS = {"object": 1, "Collection": 2, "Sequence": 3, "Mapping": 4, "int": 5, "bool": 6, "str": 7, "tuple": 8,
       "list": 9, "dict": 10, "float": 11, "NoneType": 12, "Mode": 13, "UInt": 14, "function": 15}
PYCLS = {1: object, 2: Collection, 3: Sequence, 4: Mapping, 5: int, 6: bool, 7: str, 8: tuple, 9: list, 10: dict,
         11: float, 12: type(None), 13: Mode, 14: UInt, 15: type(mkfn)}


def cls(name):
    return {"k": "cls", "c": CLS[name]}


def vterm(v):
    """value term (without class)"""
    if isinstance(v, bool):
        return {"t": "bool", "v": int(v)}
    if isinstance(v, int):
        return {"t": "int", "v": v}
    if isinstance(v, str):
        return {"t": "str", "v": [ord(c) for c in v]}
    if v is None:
        return {"t": "none", "v": 0}
    if isinstance(v, float):
        return {"t": "float", "v": int(v * 2) if v == v and abs(v) != float("inf") else (10 ** 6 if v > 0 else -(10 ** 6))}
    if isinstance(v, tuple):
        return {"t": "tuple", "v": [arg(x) for x in v]}
    if isinstance(v, list):
        return {"t": "list", "v": [arg(x) for x in v]}
    if isinstance(v, dict):
        return {"t": "dict", "ks": [vterm(k) for k in v], "karg": [arg(k) for k in v], "vs": [arg(x) for x in v.values()]}
    if hasattr(v, "__vfsig__"):
        return dict(v.__vfsig__)
    raise ValueError(v)


def arg(v, name=""):
    c = [k for k, pc in PYCLS.items() if type(v) is pc][0]
    return {"c": c, "name": name, "v": vterm(v)}


CORPUS = [
    0, 1, 2, -1, True, 1.5, 0.0, 1.0, float("inf"), Mode.R, Mode.W, UInt(7), UInt(0), None, "", "a", "ab", "b", "ba", "abab",
    (), (1,), (1, "a"), ("a", 1), (1, 2), (True, "a"), ("a",), (1, "a", 2),
    [], [1], ["a"], [1, "a"], ["a", 1],
    {}, {"a": 1}, {"b": "x"}, {1: "a"}, {"a": "x", "b": 2},
    *FUNCS,
]


def types(big=False):
    T = []
    I, S, O = cls("int"), cls("str"), cls("object")
    for vals in ([0], [1], [0, 1], ["a"], ["a", "b"], [0, "a"], [2, -1, 0], [1.0], [0.0, 1.0], [1.5, 2.0], [True], [2]):
        bounds = sorted({type(v).__name__ for v in vals})
        b = cls(bounds[0]) if len(bounds) == 1 else {"k": "union", "args": [cls(x) for x in bounds]}
        T.append({"k": "lit", "vals": [vterm(v) for v in vals], "bound": b, "py": ["lit", vals]})
    for args in ([I], [I, S], [S, I], [O, I], [I, I], []):
        if args or big:
            T.append({"k": "prod", "args": args, "bound": cls("tuple"), "py": ["prod", args]})
    T.append({"k": "seqof", "arg": I, "bound": cls("Sequence"), "py": ["seq", "Sequence", I]})
    T.append({"k": "seqof", "arg": S, "bound": cls("Sequence"), "py": ["seq", "Sequence", S]})
    T.append({"k": "seqof", "arg": I, "bound": cls("list"), "py": ["seq", "list", I]})
    T.append({"k": "seqof", "arg": I, "bound": cls("tuple"), "py": ["seq", "tuple", I]})     # tuple[int, ...]
    T.append({"k": "seqof", "arg": S, "bound": cls("tuple"), "py": ["seq", "tuple", S]})
    T.append({"k": "collof", "arg": S, "bound": cls("Collection"), "py": ["coll", "Collection", S]})
    T.append({"k": "mapof", "kt": S, "vt": I, "bound": cls("Mapping"), "py": ["map", "Mapping", S, I]})
    T.append({"k": "mapof", "kt": S, "vt": O, "bound": cls("dict"), "py": ["map", "dict", S, O]})
    sw = {"k": "startswith", "p": [97], "bound": S, "py": ["sw", "a"]}
    ew = {"k": "endswith", "p": [98], "bound": S, "py": ["ew", "b"]}
    T += [sw, ew, {"k": "startswith", "p": [97, 98], "bound": S, "py": ["sw", "ab"]}]
    T.append({"k": "haskey", "keys": [vterm("a")], "bound": cls("Mapping"), "py": ["hk", ["a"]]})
    T.append({"k": "haskey", "keys": [vterm("a"), vterm("b")], "bound": cls("Mapping"), "py": ["hk", ["a", "b"]]})
    T.append({"k": "regexp", "bound": S, "py": ["rx", "^a"]})
    T.append({"k": "regexp", "bound": S, "py": ["rx", "b$"]})
    T.append({"k": "regexp", "bound": S, "py": ["rx", "a.*b"]})
    T.append({"k": "inter", "args": [sw, ew], "py": ["and", sw["py"], ew["py"]]})
    T.append({"k": "union", "args": [sw, ew], "py": ["or", sw["py"], ew["py"]]})
    # a union nested in an intersection (either side): the union's alternatives must not leak out of it
    swb = {"k": "startswith", "p": [98], "bound": S, "py": ["sw", "b"]}
    ewa = {"k": "endswith", "p": [97], "bound": S, "py": ["ew", "a"]}
    u_ab = {"k": "union", "args": [sw, swb], "py": ["or", sw["py"], swb["py"]]}
    T.append({"k": "inter", "args": [ewa, u_ab], "py": ["and", ewa["py"], u_ab["py"]]})
    T.append({"k": "inter", "args": [u_ab, ewa], "py": ["and", u_ab["py"], ewa["py"]]})
    # a static (class-level) type next to a value-dependent one in a union
    exi = {"k": "exactly", "c": CLS["int"], "py": ["exactly", "int"]}
    T.append({"k": "union", "args": [exi, sw], "py": ["or", exi["py"], sw["py"]]})
    T.append({"k": "union", "args": [sw, exi], "py": ["or", sw["py"], exi["py"]]})
    # literal values that are not plain int / float / str objects (judged against isinstance only)
    T.append({"k": "opaque", "py": ["litenum", "R"]})
    T.append({"k": "opaque", "py": ["litenum2"]})
    T.append({"k": "opaque", "py": ["litinf"]})
    l0 = T[0]
    T.append({"k": "union", "args": [l0, sw], "py": ["or", l0["py"], sw["py"]]})
    # members whose bounds are nested (bool below int): each member only speaks for instances of its own bound
    lt, l2 = T[10], T[11]
    assert lt["py"] == ["lit", [True]] and l2["py"] == ["lit", [2]]
    T.append({"k": "union", "args": [lt, l2], "py": ["or", lt["py"], l2["py"]]})
    T.append({"k": "union", "args": [l2, lt], "py": ["or", l2["py"], lt["py"]]})
    T.append({"k": "prod", "args": [l0, sw], "bound": cls("tuple"), "py": ["prod", [l0, sw]]})
    # beyond C11's list (X4): Callable[[A1, .., An], R]
    B_ = cls("bool")
    for args_, ret_ in (([I], O), ([I], I), ([B_], I), ([I, S], O), ([O], O), ([], O), ([I, I], O), ([I], B_)):
        T.append({"k": "callable", "args": args_, "ret": ret_, "py": ["callable", args_, ret_]})
    # a member class whose __name__ is not an identifier ('UInt[8]', the way generic factories name specialisations)
    U = cls("UInt")
    T.append({"k": "prod", "args": [U, I], "bound": cls("tuple"), "py": ["prod", [U, I]]})
    T.append({"k": "union", "args": [U, l0], "py": ["or", U, l0["py"]]})
    return T


def twins(py):
    """Literal annotations whose values are numerically equal to those of `py` but of another type
    (1 / 1.0): other annotations that may exist anywhere in the process before this one is written."""
    if py[0] != "lit":
        return []
    vals = py[1]
    out = []
    if all(isinstance(v, int) and not isinstance(v, bool) for v in vals):
        out.append(typing.Literal[tuple(float(v) for v in vals)])
    if all(isinstance(v, float) and v == int(v) for v in vals):
        out.append(typing.Literal[tuple(int(v) for v in vals)])
    return out


def real(py):
    from ovld.dependent import EndsWith, HasKey, Regexp, StartsWith

    k = py[0]
    if k == "lit":
        return typing.Literal[tuple(py[1])]
    if k == "exactly":
        from ovld.types import Exactly

        return Exactly[{"int": int, "str": str}[py[1]]]
    if k == "litenum":
        return typing.Literal[Mode[py[1]]]
    if k == "litenum2":
        return typing.Literal[Mode.R, Mode.W]
    if k == "litinf":
        return typing.Literal[float("inf")]
    if k == "prod":
        args = tuple(real_term(a) for a in py[1])
        return tuple[args] if args else tuple[()]
    if k == "seq":
        if py[1] == "tuple":
            return tuple[real_term(py[2]), ...]
        o = {"Sequence": typing.Sequence, "list": list}[py[1]]
        return o[real_term(py[2])]
    if k == "coll":
        return typing.Collection[real_term(py[2])]
    if k == "map":
        o = {"Mapping": typing.Mapping, "dict": dict}[py[1]]
        return o[real_term(py[2]), real_term(py[3])]
    if k == "callable":
        import collections.abc

        return collections.abc.Callable[[real_term(a) for a in py[1]], real_term(py[2])]
    if k == "sw":
        return StartsWith[py[1]]
    if k == "ew":
        return EndsWith[py[1]]
    if k == "hk":
        return HasKey[tuple(py[1])] if len(py[1]) > 1 else HasKey[py[1][0]]
    if k == "rx":
        return Regexp[py[1]]
    if k == "and":
        return real(py[1]) & real(py[2])
    if k == "or":
        r = lambda x: real_term(x) if isinstance(x, dict) else real(x)   # noqa: E731
        return r(py[1]) | r(py[2])
    raise ValueError(py)


def real_term(t):
    if t["k"] == "cls":
        return PYCLS[t["c"]]
    return real(t["py"])
