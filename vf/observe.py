"""Run calls on realised worlds and record what is observable (worker side)."""

import os
import re
import sys
import traceback

_BIND_RX = re.compile(
    r"(missing \d+ required|takes (from )?\d+ (to \d+ )?positional|takes no (keyword )?arguments|"
    r"got an unexpected keyword|got multiple values|got some positional-only arguments|"
    r"positional arguments? but|keyword-only argument)"
)


def _ovld_dir():
    import ovld

    return os.path.dirname(os.path.abspath(ovld.__file__))


def innermost(tb):
    while tb.tb_next is not None:
        tb = tb.tb_next
    return tb


def tb_files(tb):
    out = []
    while tb is not None:
        co = tb.tb_frame.f_code
        out.append((co.co_filename, co.co_name))
        tb = tb.tb_next
    return out


def classify(exc, body_excs=()):
    """Error kind by raise site (DESIGN 2.3)."""
    for e in body_excs:
        if exc is e:
            return "raised"
    tb = exc.__traceback__
    frames = tb_files(tb)
    odir = _ovld_dir()
    in_build = any(fn.startswith(odir) and name in ("compile", "register_signature", "analyze_arguments") for fn, name in frames)
    ifile, iname = frames[-1]
    lib = ifile.startswith(odir) or ifile.startswith("<ovld:")
    msg = str(exc)
    if isinstance(exc, TypeError) and not in_build:
        if lib and msg.startswith("Ambiguous resolution"):
            return "ambiguous"
        if lib and msg.startswith("No method"):
            return "nomethod"
        if _BIND_RX.search(msg):
            if len(frames) == 1:
                return "rejected"
            if ifile.startswith(odir) and ifile.endswith("core.py") and len(frames) == 2:
                # first call: the bootstrap entry re-dispatches
                return "rejected"
            if ifile.startswith("<ovld:") or ifile.startswith("<vf:"):
                return "badforward"
    if in_build:
        return "config"
    return "internal"


def describe(exc):
    return f"{type(exc).__name__}: {str(exc).splitlines()[0][:160] if str(exc) else ''}"


class Observer:
    def __init__(self, bw):
        self.bw = bw

    def arg_record(self, obj):
        return {"c": self.bw.class_of(obj)}

    def make_args(self, call):
        pos = [self.bw.instance(a["c"]) for a in call["pos"]]
        kw = {n: self.bw.instance(a["c"]) for n, a in zip(call["kwn"], call["kwa"])}
        return pos, kw

    def supplied(self, mid, posobjs, kwobjs):
        """The call record a body received, defaults trimmed by identity."""
        bw = self.bw
        m = next((mm for mm in bw.world["methods"] if mm["id"] == mid), None)
        if m is None:  # a method the harness added outside the world (e.g. an offender)
            return {"pos": [self.arg_record(o) for o in posobjs], "kwn": list(kwobjs), "kwa": [self.arg_record(o) for o in kwobjs.values()]}
        names = m.get("names") or [f"p{i + 1}" for i in range(len(m["pos"]))]
        pos = []
        for nme, o in zip(names, posobjs):
            if bw.dflt.get((mid, nme)) is o:
                break
            pos.append(self.arg_record(o))
        kwn, kwa = [], []
        for kn, o in kwobjs.items():
            if bw.dflt.get((mid, kn)) is o:
                continue
            kwn.append(kn)
            kwa.append(self.arg_record(o))
        return {"pos": pos, "kwn": kwn, "kwa": kwa}

    def entered(self):
        out = []
        for mid, posobjs, kwobjs, nxt, _slf in self.bw.log:
            e = {"m": mid, "call": self.supplied(mid, posobjs, kwobjs)}
            if nxt is None:
                e["next"] = {"has": False, "call": {"pos": [], "kwn": [], "kwa": []}}
            else:
                npos, nkw = nxt
                e["next"] = {
                    "has": True,
                    "call": {
                        "pos": [self.arg_record(o) for o in npos],
                        "kwn": list(nkw.keys()),
                        "kwa": [self.arg_record(o) for o in nkw.values()],
                    },
                }
            out.append(e)
        return out

    def call(self, f, call, resolve=True):
        bw = self.bw
        pos, kw = self.make_args(call)
        del bw.log[:]
        obs = {}
        try:
            r = f(*pos, **kw)
            obs["kind"] = "run"
            obs["ret"] = getattr(r, "name", repr(r))[:60]
        except BaseException as exc:  # noqa
            obs["kind"] = classify(exc, bw.exc.values())
            obs["ret"] = ""
            obs["err"] = describe(exc)
            if obs["kind"] == "internal":
                obs["tb"] = [f"{a}:{b}" for a, b in tb_files(exc.__traceback__)][-4:]
            exc.__traceback__ = None
        obs["entered"] = self.entered()
        del bw.log[:]
        if resolve and not kw:
            try:
                h = f.resolve(*pos)
                mid = bw.method_of_handler(h)
                obs["resolve"] = {"kind": "run", "m": mid or "?"}
            except BaseException as exc:  # noqa
                obs["resolve"] = {"kind": classify(exc), "m": ""}
                exc.__traceback__ = None
        else:
            obs["resolve"] = {"kind": "skip", "m": ""}
        return obs
