"""Run calls on realised worlds and record what is observable (worker side)."""

import os
import re
import sys
import traceback

_BIND_RX = re.compile(
    r"(missing \d+ required|takes (from )?\d+ (to \d+ )?positional|takes no (keyword )?arguments|"
    r"got an unexpected keyword|got multiple values|got some positional-only arguments|"
    r"positional arguments? but|keyword-only argument)"
)


def _ovld_dir():
    import ovld

    return os.path.dirname(os.path.abspath(ovld.__file__))


def innermost(tb):
    while tb.tb_next is not None:
        tb = tb.tb_next
    return tb


def tb_files(tb):
    out = []
    while tb is not None:
        co = tb.tb_frame.f_code
        out.append((co.co_filename, co.co_name))
        tb = tb.tb_next
    return out


def classify(exc, body_excs=()):
    """Error kind by raise site (DESIGN 2.3)."""
    for e in body_excs:
        if exc is e:
            return "raised"
    tb = exc.__traceback__
    frames = tb_files(tb)
    odir = _ovld_dir()
    in_build = any(fn.startswith(odir) and name in ("compile", "register_signature", "analyze_arguments") for fn, name in frames)
    ifile, iname = frames[-1]
    lib = ifile.startswith(odir) or ifile.startswith("<ovld:")
    msg = str(exc)
    if isinstance(exc, TypeError) and not in_build:
        if lib and msg.startswith("Ambiguous resolution"):
            return "ambiguous"
        if lib and msg.startswith("No method"):
            return "nomethod"
        if _BIND_RX.search(msg):
            if len(frames) == 1:
                return "rejected"
            if ifile.startswith(odir) and ifile.endswith("core.py") and len(frames) == 2:
                # first call: the bootstrap entry re-dispatches
                return "rejected"
            if ifile.startswith("<ovld:") or ifile.startswith("<vf:"):
                return "badforward"
    if in_build:
        return "config"
    return "internal"


def describe(exc):
    return f"{type(exc).__name__}: {str(exc).splitlines()[0][:160] if str(exc) else ''}"


class Observer:
    def __init__(self, bw):
        self.bw = bw

    def arg_record(self, obj):
        return {"c": self.bw.class_of(obj)}

    def make_args(self, call):
        pos = [self.bw.instance(a["c"]) for a in call["pos"]]
        kw = {n: self.bw.instance(a["c"]) for n, a in zip(call["kwn"], call["kwa"])}
        return pos, kw

    def supplied(self, mid, posobjs, kwobjs):
        """The call record a body received, defaults trimmed by identity."""
        bw = self.bw
        m = next((mm for mm in bw.world["methods"] if mm["id"] == mid), None)
        if m is None:  # a method the harness added outside the world (e.g. an offender)
            return {"pos": [self.arg_record(o) for o in posobjs], "kwn": list(kwobjs), "kwa": [self.arg_record(o) for o in kwobjs.values()]}
        names = m.get("names") or [f"p{i + 1}" for i in range(len(m["pos"]))]
        pos = []
        for nme, o in zip(names, posobjs):
            if bw.dflt.get((mid, nme)) is o:
                break
            pos.append(self.arg_record(o))
        kwn, kwa = [], []
        for kn, o in kwobjs.items():
            if bw.dflt.get((mid, kn)) is o:
                continue
            kwn.append(kn)
            kwa.append(self.arg_record(o))
        return {"pos": pos, "kwn": kwn, "kwa": kwa}

    def entered(self):
        out = []
        for mid, posobjs, kwobjs, nxt, _slf in self.bw.log:
            e = {"m": mid, "call": self.supplied(mid, posobjs, kwobjs)}
            if nxt is None:
                e["next"] = {"has": False, "call": {"pos": [], "kwn": [], "kwa": []}}
            else:
                npos, nkw = nxt
                e["next"] = {
                    "has": True,
                    "call": {
                        "pos": [self.arg_record(o) for o in npos],
                        "kwn": list(nkw.keys()),
                        "kwa": [self.arg_record(o) for o in nkw.values()],
                    },
                }
            out.append(e)
        return out

    def display(self, f, pos, kw):
        """What f.display_resolution(*args) prints, parsed: the method announced as called first, the
        methods numbered #1, #2 .. in order, and whether ambiguity is announced.  Methods are identified
        by the source position printed next to them."""
        import contextlib
        import io
        import re

        where = {}
        for mid, fn in self.bw.mfun.items():
            key = (fn.__code__.co_filename, fn.__code__.co_firstlineno)
            where[key] = None if key in where else mid     # shared code objects: not identifiable
        buf = io.StringIO()
        try:
            with contextlib.redirect_stdout(buf):
                f.display_resolution(*pos, **kw)
        except BaseException as exc:  # noqa
            exc.__traceback__ = None
            return {"kind": "error", "first": "", "seq": [], "amb": False, "err": describe(exc)}
        lines = [re.sub(r"\x1b\[[0-9;]*m", "", ln) for ln in buf.getvalue().splitlines()]
        seq, first, amb, msg = [], "", False, ""
        for k, ln in enumerate(lines):
            m = re.match(r"^(#\d+|==|!=|--)\s", ln)
            if m and k + 1 < len(lines):
                loc = re.search(r"@ (.*):(\d+)\s*$", lines[k + 1])
                mid = where.get((loc.group(1), int(loc.group(2)))) if loc else None
                if mid is None:
                    return {"kind": "unidentified", "first": "", "seq": [], "amb": False}
                if m.group(1).startswith("#"):
                    seq.append(mid)
                    if m.group(1) == "#1":
                        first = mid
            if ln.startswith("Resolution:"):
                msg = ln
        amb = "ambiguity" in msg
        kind = "run" if "will be called first" in msg else ("none" if "No method will be called" in msg else "unparsed")
        return {"kind": kind, "first": first if kind == "run" else "", "seq": seq, "amb": amb}

    def call(self, f, call, resolve=True, display=False):
        bw = self.bw
        pos, kw = self.make_args(call)
        del bw.log[:]
        obs = {}
        try:
            r = f(*pos, **kw)
            obs["kind"] = "run"
            obs["ret"] = getattr(r, "name", repr(r))[:60]
        except BaseException as exc:  # noqa
            obs["kind"] = classify(exc, bw.exc.values())
            obs["ret"] = ""
            obs["err"] = describe(exc)
            if obs["kind"] in ("nomethod", "ambiguous"):
                # the very object an earlier call of this observer already got (kept alive here, so identity is meaningful)
                raised = self.__dict__.setdefault("raised", [])
                if any(exc is e for e in raised):
                    obs["reused"] = True
                raised.append(exc)
            if obs["kind"] == "internal":
                obs["tb"] = [f"{a}:{b}" for a, b in tb_files(exc.__traceback__)][-4:]
            exc.__traceback__ = None
        obs["entered"] = self.entered()
        del bw.log[:]
        if resolve and not kw:
            try:
                h = f.resolve(*pos)
                mid = bw.method_of_handler(h)
                obs["resolve"] = {"kind": "run", "m": mid or "?"}
            except BaseException as exc:  # noqa
                obs["resolve"] = {"kind": classify(exc), "m": ""}
                exc.__traceback__ = None
        else:
            obs["resolve"] = {"kind": "skip", "m": ""}
        if display:
            obs["display"] = self.display(f, pos, kw)
        return obs
