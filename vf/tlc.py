"""Run TLC: batch trace judge, model check, simulate; parse its output."""

import json
import os
import re
import shutil
import subprocess
import tempfile
import time

VERIF = os.path.dirname(os.path.dirname(os.path.abspath(__file__)))
SPEC = os.path.join(VERIF, "spec")
BUILD = os.path.join(VERIF, "build")
JAR = "/opt/veriftools/tla/tla2tools.jar"
DEPS = "/opt/veriftools/tla/CommunityModules-deps.jar"


class MachineryError(Exception):
    """Something in the tooling (not the code under test) failed: exit 2."""


def scratch_dir(prefix="tlc"):
    os.makedirs(BUILD, exist_ok=True)
    return tempfile.mkdtemp(prefix=prefix + "-", dir=BUILD)


class TLCResult:
    def __init__(self, rc, out, wall):
        self.rc = rc
        self.out = out
        self.wall = wall
        m = re.search(
            r"(\d+) states generated, (\d+) distinct states found, (\d+) states left on queue",
            out,
        )
        self.generated = int(m.group(1)) if m else 0
        self.distinct = int(m.group(2)) if m else 0
        self.queue = int(m.group(3)) if m else -1
        m = re.search(r"The depth of the complete state graph search is (\d+)", out)
        self.depth = int(m.group(1)) if m else 0
        self.finished = "Model checking completed" in out
        self.violated = None
        m = re.search(r"Error: Invariant (\w+) is violated", out)
        if m:
            self.violated = m.group(1)
        m = re.search(r"Error: Action property (\w+) is violated", out)
        if m:
            self.violated = m.group(1)
        if "Temporal properties were violated" in out:
            self.violated = self.violated or "temporal"

    @property
    def printed(self):
        """Every string PrintT'ed on a line of its own (quotes stripped)."""
        res = []
        for line in self.out.splitlines():
            line = line.strip()
            if len(line) >= 2 and line[0] == '"' and line[-1] == '"':
                res.append(line[1:-1].replace('\\"', '"').replace("\\\\", "\\"))
        return res

    def coverage(self):
        """action name -> (distinct, total) from -coverage output, if present."""
        cov = {}
        for m in re.finditer(
            r"<(\w+) line \d+, col \d+ to line \d+, col \d+ of module (\w+)>: (\d+):(\d+)",
            self.out,
        ):
            cov[m.group(1)] = (int(m.group(3)), int(m.group(4)))
        return cov


def run_tlc(
    module,
    cfg=None,
    env=None,
    workers=None,
    extra=(),
    timeout=1800,
    heap="6g",
    keep=False,
    jvm=(),
):
    """Run TLC on spec/<module>.tla with spec/<cfg>; returns TLCResult."""
    meta = scratch_dir("tlcmeta")
    workers = workers or min(16, os.cpu_count() or 4)
    cmd = [
        "java",
        "-XX:+UseParallelGC",
        f"-Xmx{heap}",
        "-Xss64m",
        "-Dtlc2.TLC.ide=vf",
        f"-Djava.io.tmpdir={meta}",     # (TLC unpacks its standard modules into a temporary directory: keep it in the scratch dir)
        *jvm,
        "-cp",
        f"{JAR}:{DEPS}",
        "tlc2.TLC",
        "-workers",
        str(workers),
        "-metadir",
        meta,
        "-noGenerateSpecTE",
        "-config",
        cfg or (module + ".cfg"),
        *extra,
        module + ".tla",
    ]
    e = dict(os.environ)
    e.update(env or {})
    t0 = time.time()
    try:
        p = subprocess.run(
            cmd,
            cwd=SPEC,
            env=e,
            stdout=subprocess.PIPE,
            stderr=subprocess.STDOUT,
            text=True,
            timeout=timeout,
        )
        out, rc = p.stdout, p.returncode
    except subprocess.TimeoutExpired as ex:
        out = (ex.stdout or b"").decode() if isinstance(ex.stdout, bytes) else (ex.stdout or "")
        rc = -9
    finally:
        if not keep:
            shutil.rmtree(meta, ignore_errors=True)
    return TLCResult(rc, out, time.time() - t0)


def judge(module, cases, workers=None, timeout=1800, cfg=None, heap="8g", jvm=()):
    """Hand recorded cases to the trace specification `module`.

    Returns (verdicts: {case id -> clause string}, TLCResult).  Raises
    MachineryError unless TLC ends normally with exactly one verdict per case.
    """
    if not cases:
        raise MachineryError(f"{module}: no cases to judge (vacuous run)")
    d = scratch_dir("cases")
    path = os.path.join(d, "cases.json")
    try:
        with open(path, "w") as f:
            json.dump(cases, f, separators=(",", ":"))
        res = run_tlc(
            module,
            cfg=cfg or (module + ".cfg"),
            env={"VF_CASES": path},
            workers=workers,
            timeout=timeout,
            heap=heap,
            jvm=jvm,
        )
    finally:
        shutil.rmtree(d, ignore_errors=True)
    if res.rc != 0 or not res.finished:
        raise MachineryError(
            f"{module}: TLC failed (rc={res.rc})\n" + res.out[-3000:]
        )
    verdicts = {}
    for s in res.printed:
        if s.startswith("VERDICT|"):
            parts = s.split("|")
            cid, clause = parts[1], parts[2]
            flags = {}
            if len(parts) > 3:
                for kv in parts[3].split(";"):
                    if "=" in kv:
                        k, v = kv.split("=", 1)
                        flags[k] = v
            if cid in verdicts:
                raise MachineryError(f"{module}: duplicate verdict for {cid}")
            verdicts[cid] = {"clause": clause, "flags": flags}
    ids = [c["id"] for c in cases]
    if len(set(ids)) != len(ids):
        raise MachineryError(f"{module}: duplicate case ids")
    missing = [c for c in ids if c not in verdicts]
    if missing or len(verdicts) != len(ids):
        raise MachineryError(
            f"{module}: {len(missing)} cases without verdict, e.g. {missing[:3]}\n"
            + res.out[-2000:]
        )
    return verdicts, res


def sany(module):
    p = subprocess.run(
        ["java", "-cp", f"{JAR}:{DEPS}", "tla2sany.SANY", module + ".tla"],
        cwd=SPEC,
        stdout=subprocess.PIPE,
        stderr=subprocess.STDOUT,
        text=True,
    )
    ok = p.returncode == 0 and "Semantic errors" not in p.stdout and "***Parse Error***" not in p.stdout
    return ok, p.stdout


def run_apalache(module, init, inv, length, timeout=1800):
    """One Apalache obligation on spec/<module>.tla.  Returns ("NoError" | "Error" | "failed: ...", wall seconds)."""
    import subprocess
    import time

    d = scratch_dir("apa")
    t0 = time.time()
    try:
        p = subprocess.run(["apalache-mc", "check", f"--init={init}", f"--inv={inv}", f"--length={length}", f"--out-dir={d}", f"{module}.tla"],
                           cwd=SPEC, capture_output=True, text=True, timeout=timeout)
        out = p.stdout + p.stderr
        m = re.search(r"The outcome is: (\w+)", out)
        outcome = m.group(1) if m else f"failed: rc={p.returncode} {out[-300:]}"
    except Exception as e:  # noqa
        outcome = f"failed: {type(e).__name__}: {e}"
    finally:
        shutil.rmtree(d, ignore_errors=True)
    return outcome, round(time.time() - t0, 1)
