"""Enumeration and seeded random generation of worlds (main-process side).

Pure data: nothing here imports ovld."""

import itertools
import random


def cls(c):
    return {"k": "cls", "c": c}


def arg(c):
    return {"c": c}


def mkcall(pos, kw=()):
    kw = list(kw)
    return {
        "pos": [arg(c) for c in pos],
        "kwn": [k for k, _ in kw],
        "kwa": [arg(c) for _, c in kw],
    }


def mkmethod(mid, reg, pos, prio=0, reqpos=None, kw=(), body="leaf", **extra):
    """kw: sequence of (name, type term, required)"""
    kw = list(kw)
    m = {
        "id": mid,
        "prio": prio,
        "reg": reg,
        "pos": [cls(t) if isinstance(t, int) else t for t in pos],
        "reqpos": len(pos) if reqpos is None else reqpos,
        "kwn": [k[0] for k in kw],
        "kwt": [cls(k[1]) if isinstance(k[1], int) else k[1] for k in kw],
        "kwreq": [bool(k[2]) for k in kw],
        "body": body,
    }
    m.update(extra)
    return m


# --------------------------------------------------------------------- posets
def posets(n_user):
    """All labelled DAGs on n_user classes (ids 2..n_user+1) below object:
    parents[c] is any subset of the earlier user classes (empty = object)."""
    ids = list(range(2, n_user + 2))
    choices = []
    for c in ids:
        earlier = list(range(2, c))
        subs = []
        for r in range(len(earlier) + 1):
            subs += [list(s) for s in itertools.combinations(earlier, r)]
        choices.append(subs)
    for combo in itertools.product(*choices):
        yield [[]] + [p if p else [1] for p in combo]


def reduce_parents(parents):
    """Drop redundant (transitively implied) direct parents: Python refuses
    some redundant base lists, and the Doc order is the closure anyway."""
    anc = ancestors(parents)
    out = []
    for c, ps in enumerate(parents, start=1):
        keep = [p for p in ps if not any(q != p and p in anc[q] for q in ps)]
        out.append(keep)
    return out


def ancestors(parents):
    anc = {}
    for c, ps in enumerate(parents, start=1):
        s = {c}
        for p in ps:
            s |= anc[p]
        anc[c] = s
    return anc


CURATED = {
    # diamond: 2,3 < obj ; 4 < 2,3
    "diamond": [[], [1], [1], [2, 3]],
    # diamond + tail: 5 < 4
    "diamond_tail": [[], [1], [1], [2, 3], [4]],
    # two chains under a join: 2>4, 3>5, 6<4,5
    "two_chains": [[], [1], [1], [2], [3], [4, 5]],
    # level artefact (a): X=2, Y=3, Y2=4<Y, C=5<X,Y2
    "uneven": [[], [1], [1], [3], [2, 4]],
    # W: 2,3,4 roots; 5<2,3 ; 6<3,4
    "W": [[], [1], [1], [1], [2, 3], [3, 4]],
    # N: 2,3 roots; 4<2 ; 5<2,3
    "N": [[], [1], [1], [2], [2, 3]],
    # level artefact (b): K2; K3,K4 roots; K5<K4,K3
    "K5": [[], [1], [1], [1], [4, 3]],
    "chain3": [[], [1], [2], [3]],
}


def random_poset(rng, n_user, maxpar=2):
    par = [[]]
    for c in range(2, n_user + 2):
        earlier = list(range(2, c))
        k = rng.choice([0, 0, 1, 1, 1, 2][: 3 + 3 * min(1, len(earlier))]) if earlier else 0
        k = min(k, len(earlier), maxpar)
        ps = sorted(rng.sample(earlier, k)) if k else [1]
        par.append(ps)
    return reduce_parents(par)


def abstractify(rng, parents, p=0.5):
    """Turn some root classes into ABCs / protocols and some of their edges
    into virtual ones.  Returns (kinds, virt)."""
    n = len(parents)
    kinds = ["object"] + ["plain"] * (n - 1)
    virt = []
    for c in range(2, n + 1):
        if parents[c - 1] == [1] and rng.random() < p:
            kinds[c - 1] = rng.choice(["abc", "proto"])
    for c in range(2, n + 1):
        for q in parents[c - 1]:
            if q != 1 and kinds[q - 1] in ("abc", "proto") and kinds[c - 1] == "plain":
                if kinds[q - 1] == "proto" or rng.random() < 0.6:
                    virt.append([c, q])
    return kinds, virt


def random_term(rng, n, depth=1):
    r = rng.random()
    if r < 0.45 or n < 3:
        return cls(rng.randint(1, n))
    k = rng.choice([2, 2, 3])
    members = rng.sample(range(2, n + 1), min(k, n - 1))
    if r < 0.8:
        return {"k": "union", "args": [cls(c) for c in members]}
    return {"k": "inter", "args": [cls(c) for c in members]}


def random_check(rng, n):
    k = rng.randint(1, max(1, n - 1))
    members = sorted(rng.sample(range(1, n + 1), k))
    return {"k": "check", "members": members, "tag": "t" + str(rng.randint(0, 2))}


def concrete(world):
    kinds = world.get("kinds")
    n = len(world["parents"])
    return [c for c in range(1, n + 1) if not kinds or kinds[c - 1] != "proto"]


# -------------------------------------------------------------- static worlds
def all_calls(world, npos_options, kwopts=((),)):
    cs = concrete(world)
    for n in npos_options:
        for tup in itertools.product(cs, repeat=n):
            for kws in kwopts:
                if not kws:
                    yield mkcall(tup)
                else:
                    for ktup in itertools.product(cs, repeat=len(kws)):
                        yield mkcall(tup, zip(kws, ktup))


def exhaustive_static(n_user, npos, max_methods, prios=(0, 1), bodies="next"):
    """All posets on n_user classes x all sets of <= max_methods distinct
    (types, prio) methods with exactly npos required positionals x all calls."""
    for parents in posets(n_user):
        parents = reduce_parents(parents)
        n = len(parents)
        menu = [
            (tup, pr)
            for tup in itertools.product(range(1, n + 1), repeat=npos)
            for pr in prios
        ]
        for k in range(1, max_methods + 1):
            for combo in itertools.combinations(menu, k):
                methods = [
                    mkmethod(f"m{j + 1}", j + 1, tup, prio=pr, body=bodies)
                    for j, (tup, pr) in enumerate(combo)
                ]
                w = {"parents": parents, "methods": methods}
                yield w, list(all_calls(w, [npos]))


def random_static_world(rng, n_user=None, max_methods=5, abstract=False, kinds_bodies=("next", "leaf", "fnext"), spare=False, unions=False, checks=False):
    """One random world with mixed arities, optional positionals, typed
    keyword-only parameters, priorities and re-registered signatures."""
    n_user = n_user or rng.randint(2, 6)
    shape = rng.random()
    if shape < 0.25:
        parents = [list(p) for p in rng.choice(list(CURATED.values()))]
    else:
        parents = random_poset(rng, n_user)
    n = len(parents)
    w = {"parents": parents}
    if abstract:
        kinds, virt = abstractify(rng, parents)
        w["kinds"], w["virt"] = kinds, virt
    maxpos = rng.choice([1, 2, 2, 3])
    use_kw = rng.random() < 0.3
    kwname = "k"
    nm = rng.randint(1, max_methods)
    methods = []
    prios = rng.choice([[0], [0, 1], [0, 0, 1], [-1, 0, 1]])
    body_mode = rng.choice(kinds_bodies)
    for j in range(nm):
        if methods and rng.random() < 0.15:
            # re-register an identical signature
            base = rng.choice(methods)
            m = dict(base)
            m["id"] = f"m{j + 1}"
            m["reg"] = j + 1
            if (j + base["reg"]) % 2 == 0 and not m.get("names"):
                # the same signature written with other parameter names (no extra draw from rng)
                m["names"] = [f"q{i + 1}" for i in range(len(m["pos"]))]
            elif len(m["kwn"]) == 2:
                # the same signature with its keyword-only parameters declared in the other order
                m["kwn"], m["kwt"], m["kwreq"] = m["kwn"][::-1], m["kwt"][::-1], m["kwreq"][::-1]
        else:
            npos = rng.randint(1, maxpos) if rng.random() < 0.35 else maxpos
            types = [rng.randint(1, n) for _ in range(npos)]
            if unions:
                types = [random_term(rng, n) if rng.random() < 0.5 else t for t in types]
            if checks:
                types = [random_check(rng, n) if rng.random() < 0.4 else t for t in types]
            reqpos = npos
            if npos >= 1 and rng.random() < 0.2:
                reqpos = npos - 1
            kw = ()
            if use_kw and rng.random() < 0.7:
                kw = [(kwname, rng.randint(1, n), rng.random() < 0.5)]
                if rng.random() < 0.4:
                    # a second, defaulted keyword-only parameter
                    kw.append(("m", rng.randint(1, n), False))
            elif use_kw and rng.random() < 0.3:
                kw = [("m", rng.randint(1, n), False)]
            m = mkmethod(f"m{j + 1}", j + 1, types, prio=rng.choice(prios), reqpos=reqpos, kw=kw)
        b = body_mode
        if b == "fnext" and m["kwn"]:
            b = "next"
        if rng.random() < 0.15:
            b = "leaf"
        m["body"] = b
        methods.append(m)
    # fnext cannot forward keywords: only keep it in keyword-free worlds
    if any(m["kwn"] for m in methods):
        for m in methods:
            if m["body"] == "fnext":
                m["body"] = "next"
    w["methods"] = methods
    arities = sorted({a for m in methods for a in range(m["reqpos"], len(m["pos"]) + 1)} | {maxpos})
    arities = [a for a in arities if a > 0]
    cs = concrete(w)
    calls = []
    allc = []
    for a in arities:
        for tup in itertools.product(cs, repeat=a):
            allc.append(tup)
    rng.shuffle(allc)
    for tup in allc[:24]:
        r = rng.random()
        if use_kw and r < 0.4:
            calls.append(mkcall(tup, [(kwname, rng.choice(cs))]))
        elif use_kw and r < 0.55:
            calls.append(mkcall(tup, [("m", rng.choice(cs))]))
        elif use_kw and r < 0.7:
            calls.append(mkcall(tup, [(kwname, rng.choice(cs)), ("m", rng.choice(cs))]))
        else:
            calls.append(mkcall(tup))
    return w, calls
