"""Verdict bookkeeping: VIOLATION / KNOWN-FINDING / SPEC-DRIFT lines, replay
files, evidence files, exit codes."""

import hashlib
import json
import os
import sys
import time

from . import findings

VERIF = os.path.dirname(os.path.dirname(os.path.abspath(__file__)))
EVIDENCE = os.path.join(VERIF, "evidence")
REPLAYS = os.path.join(VERIF, "replays")


class Report:
    def __init__(self, prop, tier, seed, level="model_checking"):
        self.prop = prop
        self.tier = tier
        self.seed = seed
        self.level = level
        self.t0 = time.time()
        self.states = 0
        self.transitions = 0
        self.tlc_runs = []
        self.judged = 0
        self.evaluations = 0
        self.nontrivial = set()
        self.samples = []
        self.rule = ""
        self.violations = []
        self.known = {}
        self.drift = []
        self.extras = {}
        self.extras_checked = {}
        self.extra = {}
        self.assumptions = []
        self.exhaustive = None
        self.machinery = []

    # ---------------------------------------------------------------- inputs
    def add_tlc(self, res, role):
        self.states += res.distinct
        self.transitions += res.generated
        self.tlc_runs.append(
            {"role": role, "distinct": res.distinct, "generated": res.generated,
             "depth": res.depth, "queue_empty": res.queue == 0, "wall_s": round(res.wall, 2)}
        )

    def sample(self, obj, limit=6):
        if len(self.samples) < limit:
            self.samples.append(obj)

    def note_nontrivial(self, key):
        self.nontrivial.add(key)

    # -------------------------------------------------------------- verdicts
    def rejected(self, clause, replay, kf_ctx=None):
        """A Doc-layer rejection of something observed on the real code.
        Either a listed known finding or a violation."""
        kf = findings.match(self.prop, clause, replay, kf_ctx)
        if kf is not None:
            self.known.setdefault(kf["id"], {"entry": kf, "count": 0, "example": replay})
            self.known[kf["id"]]["count"] += 1
            return False
        replay = dict(replay)
        replay["property"] = self.prop
        replay["clause"] = clause
        blob = json.dumps(replay, sort_keys=True, default=str)
        h = hashlib.sha1(blob.encode()).hexdigest()[:12]
        d = os.path.join(REPLAYS, self.prop)
        os.makedirs(d, exist_ok=True)
        path = os.path.join(d, h + ".json")
        with open(path, "w") as f:
            f.write(json.dumps(replay, indent=1, default=str))
        self.violations.append({"clause": clause, "replay": path})
        return True

    # ---- checks of the specification beyond the listed properties: reported, never a verdict
    def extra_note(self, clause, example):
        e = self.extras.setdefault(clause, {"count": 0, "example": example})
        e["count"] += 1

    def extra_checked(self, name, n):
        self.extras_checked[name] = self.extras_checked.get(name, 0) + n

    def spec_drift(self, text):
        if text not in self.drift:
            self.drift.append(text)

    def machinery_failure(self, text):
        self.machinery.append(text)

    # ---------------------------------------------------------------- output
    def finish(self):
        wall = time.time() - self.t0
        seen_clause = set()
        for v in self.violations:
            key = v["clause"]
            if key in seen_clause and len(seen_clause) > 0 and len([x for x in self.violations if x["clause"] == key]) > 3:
                pass
            seen_clause.add(key)
        shown = {}
        for v in self.violations:
            shown.setdefault(v["clause"], []).append(v)
        for clause, vs in shown.items():
            for v in vs[:3]:
                print(f"VIOLATION property={self.prop} replay={v['replay']}  clause={clause}")
            if len(vs) > 3:
                print(f"  ... and {len(vs) - 3} more rejections with clause {clause}")
        for kid, k in self.known.items():
            print(f"KNOWN-FINDING: property={self.prop} {kid}: {k['entry']['title']} (re-observed {k['count']}x)")
        for clause, e in self.extras.items():
            print(f"EXTRA (beyond the listed properties, no verdict) {clause}: {e['count']} observation(s) disagree with the specification, "
                  f"e.g. {json.dumps(e['example'], default=str)[:400]}")
        for d in self.drift:
            print(f"SPEC-DRIFT property={self.prop} {d}")
        for m in self.machinery:
            print(f"MACHINERY-FAILURE property={self.prop} {m}")
        cov = {
            "evaluations": int(self.evaluations),
            "distinct_nontrivial": len(self.nontrivial),
            "rule": self.rule,
            "samples": self.samples or ["(none)"],
            "states": int(self.states),
            "transitions": int(self.transitions),
            "traces_validated_against_impl": int(self.judged),
            "tlc_runs": self.tlc_runs,
            "known_findings_reobserved": {k: v["count"] for k, v in self.known.items()},
            "known_finding_examples": {k: json.loads(json.dumps(v["example"], default=str)) for k, v in self.known.items()},
            "spec_drift": self.drift,
        }
        if self.extras_checked or self.extras:
            cov["beyond_listed_properties"] = {"checked": self.extras_checked, "disagreements": {k: v["count"] for k, v in self.extras.items()},
                                               "examples": {k: json.loads(json.dumps(v["example"], default=str)) for k, v in self.extras.items()}}
        if self.exhaustive is not None:
            cov["exhaustive"] = bool(self.exhaustive)
        if self.level == "translation_validation":
            cov["programs"] = int(self.extra.pop("programs", self.evaluations))
            cov["disagreements_checked"] = int(self.extra.pop("disagreements_checked", 0))
        cov.update(self.extra)
        ev = {
            "property_id": self.prop,
            "tier": self.tier,
            "seed": int(self.seed),
            "level": self.level,
            "coverage": cov,
            "assumptions": self.assumptions,
            "wall_s": round(wall, 2),
            "violations": len(self.violations),
        }
        os.makedirs(EVIDENCE, exist_ok=True)
        with open(os.path.join(EVIDENCE, self.prop + ".json"), "w") as f:
            json.dump(ev, f, indent=1, default=str)
            f.write("\n")
        if self.machinery:
            code = 2
        elif self.violations:
            code = 1
        else:
            code = 0
        print(
            f"[{self.prop} {self.tier}] evaluations={self.evaluations} nontrivial={len(self.nontrivial)} "
            f"judged={self.judged} states={self.states} violations={len(self.violations)} "
            f"known={sum(k['count'] for k in self.known.values())} wall={wall:.1f}s exit={code}"
        )
        return code
