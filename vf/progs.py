"""C09: programs (terms of spec/Recode.tla), their enumeration and rendering
as Python method bodies."""

import itertools
import random

NULL = {"n": "null"}


def T(i):
    return {"n": "T", "i": i}


def B(i):
    return {"n": "B", "i": i}


def S(i):
    return {"n": "S", "i": i}


X = {"n": "X"}


def C(site, arg, kw=NULL, star=False, dstar=False, poskw=False, asvalue=False, kwfirst=False):
    # kwfirst (with poskw and a keyword): the keywords in the other order, site(k=<kw>, x=<arg>)
    # poskw: the positional parameter is given by keyword (x=<arg>)
    # asvalue: recurse / the own name used as a value and called elsewhere: list(map(recurse, [<arg>]))[0]
    return {"n": "C", "site": site, "arg": arg, "kw": kw, "star": star, "dstar": dstar, "poskw": poskw, "asvalue": asvalue, "kwfirst": kwfirst}


def sites(arg_leaves, kw_leaves, which=("R", "N", "S")):
    out = []
    for s in which:
        for a in arg_leaves:
            out.append(C(s, a))
            out.append(C(s, a, star=True))
            out.append(C(s, a, poskw=True))
            if s != "N":
                out.append(C(s, a, asvalue=True))
            for k in kw_leaves:
                out.append(C(s, a, kw=k))
                out.append(C(s, a, kw=k, dstar=True))
                out.append(C(s, a, kw=k, poskw=True))
                out.append(C(s, a, kw=k, poskw=True, kwfirst=True))
    return out


def contexts(c, cx, rng=None):
    """c: a call-site term without X; cx: a call-site term that uses X"""
    t1, t2, t0 = T(1), T(2), T(0)
    out = [
        c,
        {"n": "CX", "site": c.get("site", "R"), "val": t2},
        {"n": "Add", "a": {"n": "CX", "site": c.get("site", "N"), "val": c if no_walrus(c) else t2}, "b": t1},
        {"n": "Add", "a": c, "b": t1}, {"n": "Add", "a": t2, "b": c}, {"n": "Add", "a": c, "b": c},
        {"n": "If", "c": c, "a": t1, "b": t2}, {"n": "If", "c": t1, "a": c, "b": t2}, {"n": "If", "c": t0, "a": t1, "b": c},
        {"n": "If", "c": t0, "a": c, "b": t2},
        {"n": "And", "a": c, "b": t1}, {"n": "And", "a": t0, "b": c}, {"n": "And", "a": t1, "b": c},
        {"n": "Or", "a": c, "b": t1}, {"n": "Or", "a": t0, "b": c}, {"n": "Or", "a": t1, "b": c},
        {"n": "LC", "elt": cx, "items": [t1, t2], "cond": NULL, "gen": False},
        {"n": "LC", "elt": cx, "items": [t1, t2], "cond": NULL, "gen": True},
        {"n": "LC", "elt": X, "items": [t1, t0, t2], "cond": cx, "gen": False},
        {"n": "LC", "elt": cx, "items": [t1, t0], "cond": X, "gen": True},
        {"n": "LC", "elt": X, "items": [c, t1], "cond": NULL, "gen": False},       # call site in the iterable
        {"n": "LC", "elt": X, "items": [t1, c], "cond": NULL, "gen": True},
        {"n": "Lam", "body": cx, "arg": t1}, {"n": "Lam", "body": X, "arg": c},
        {"n": "Def", "body": cx, "arg": t2}, {"n": "Def", "body": {"n": "Add", "a": cx, "b": X}, "arg": c},
        {"n": "F", "a": c}, {"n": "W", "a": c}, {"n": "Sh", "a": c, "form": "def"}, {"n": "Sh", "a": c, "form": "lam"},
        {"n": "Sh", "a": c, "form": "dflt"}, {"n": "Add", "a": {"n": "Sh", "a": t1, "form": "dflt"}, "b": c},
        {"n": "Cls", "body": cx, "arg": t2}, {"n": "Cls", "body": cx, "arg": t2, "form": "comp"}, {"n": "Add", "a": {"n": "Sh", "a": t1, "form": "def"}, "b": c}, {"n": "Add", "a": {"n": "W", "a": c}, "b": t1},
        C("R", c), C("N", c), C("S", c, kw=t1), C("N", t1, kw=c),
        C("R", t1, kw=C("N", t2, kw=c)), C("N", C("R", c), kw=C("S", t2, kw=t1)),
        {"n": "Add", "a": B(3), "b": c}, {"n": "Add", "a": c, "b": B(3)}, C("R", B(3)), C("N", t1, kw=B(3)),
        C(c.get("site", "R"), S(4)), {"n": "Add", "a": c, "b": C("N", S(4))}, {"n": "Add", "a": C("R", S(5)), "b": c},
        {"n": "LC", "elt": cx, "items": [t1, B(3)], "cond": NULL, "gen": False},
        {"n": "Lam", "body": {"n": "Add", "a": cx, "b": B(3)}, "arg": t1},
    ]
    return out


def enumerate_programs(tier, seed):
    rng = random.Random(seed * 911 + 9)
    base = sites([T(1), T(2)], [T(2)]) + sites([T(0)], [], which=("N",))
    basex = sites([X], [T(2), X])
    progs = []
    for c in base:
        cx = rng.choice(basex) if tier == "quick" else None
        if tier == "quick":
            progs += contexts(c, cx)
        else:
            for cx in basex:
                progs += contexts(c, cx)
    # depth 3: contexts of contexts (sampled)
    n3 = 300 if tier == "quick" else 6000
    lvl2 = list(progs)
    for _ in range(n3):
        inner = rng.choice(lvl2)
        if has_x_free(inner) or "'form': 'comp'" in repr(inner):
            continue      # (a class statement is evaluated where it stands: only generated as a whole program)
        cx = rng.choice(basex)
        progs.append(rng.choice(contexts(inner, cx)))
    # dedupe
    seen = set()
    out = []
    for p in progs:
        k = repr(p)
        if k not in seen and not has_x_free(p) and valid(p) and k.count("'n': 'CX'") <= 1:   # (Eval does not thread the rebinding of x from one CX to the next)
            seen.add(k)
            out.append(p)
    if tier == "quick":
        rng.shuffle(out)
        out = out[:700]
    return out


def has_x_free(t, bound=False):
    n = t["n"]
    if n == "X":
        return not bound
    if n in ("T", "B", "S", "null"):
        return False
    if n == "CX":
        return has_x_free(t["val"], bound)
    if n == "C":
        return has_x_free(t["arg"], bound) or (t["kw"]["n"] != "null" and has_x_free(t["kw"], bound))
    if n in ("Add", "And", "Or"):
        return has_x_free(t["a"], bound) or has_x_free(t["b"], bound)
    if n == "If":
        return any(has_x_free(t[k], bound) for k in ("c", "a", "b"))
    if n == "LC":
        return any(has_x_free(i, bound) for i in t["items"]) or has_x_free(t["elt"], True) or (
            t["cond"]["n"] != "null" and has_x_free(t["cond"], True))
    if n in ("Lam", "Def", "Cls"):
        return has_x_free(t["arg"], bound) or has_x_free(t["body"], True)
    if n in ("F", "W", "Sh"):
        return has_x_free(t["a"], bound)
    return True


class Renderer:
    def __init__(self, fname="F", only_next=False, selfmode=False, kwname="k"):
        # kwname: the name the second argument of a call site is written under ("y" in the twopos wrapper, where it is a
        # second *positional* parameter given by keyword)
        self.kw = kwname
        # selfmode: the methods take self.  recurse / call_next stand for the bound method; the function's own
        # (module-level) name is not bound to anything: it is called in full, F(self, x)
        self.selfmode = selfmode
        self.prelude = []
        self.fname = fname
        self.only_next = only_next
        self.nd = 0
        self.nw = 0

    def r(self, t):
        n = t["n"]
        if n == "T":
            return f"ev({t['i']})"
        if n == "B":
            return f"boom({t['i']})"
        if n == "S":
            return f"sv({t['i']})"
        if n == "X":
            return "x_"
        if n == "C":
            site = "N" if self.only_next else t["site"]
            callee = {"R": "recurse", "N": "call_next", "S": self.fname}[site]
            own = ["self"] if self.selfmode and site == "S" else []
            if t.get("kwfirst") and t["kw"]["n"] != "null":
                k = self.r(t["kw"])       # (rendered in evaluation order: the inner-function counters follow it)
                a = self.r(t["arg"])
                return f"{callee}({', '.join(own + [f'{self.kw}={k}', f'x={a}'])})"
            a = self.r(t["arg"])
            if t.get("asvalue") and site != "N":
                return f"list(map({callee}, [self], [{a}]))[0]" if own else f"list(map({callee}, [{a}]))[0]"
            parts = own + [f"*[{a}]" if t["star"] else (f"x={a}" if t.get("poskw") else a)]
            if t["kw"]["n"] != "null":
                k = self.r(t["kw"])
                parts.append(f"**{{'{self.kw}': {k}}}" if t["dstar"] else f"{self.kw}={k}")
            return f"{callee}({', '.join(parts)})"
        if n == "CX":
            site = "N" if self.only_next else t["site"]
            callee = {"R": "recurse", "N": "call_next", "S": self.fname}[site]
            own = "self, " if self.selfmode and site == "S" else ""
            return f"{callee}({own}x, {self.kw}=(x := {self.r(t['val'])}))"
        if n == "Add":
            return f"({self.r(t['a'])} + {self.r(t['b'])})"
        if n == "If":
            return f"({self.r(t['a'])} if {self.r(t['c'])} else {self.r(t['b'])})"
        if n == "And":
            return f"({self.r(t['a'])} and {self.r(t['b'])})"
        if n == "Or":
            return f"({self.r(t['a'])} or {self.r(t['b'])})"
        if n == "LC":
            items = ", ".join(self.r(i) for i in t["items"])
            cond = "" if t["cond"]["n"] == "null" else f" if {self.r(t['cond'])}"
            body = f"{self.r(t['elt'])} for x_ in [{items}]{cond}"
            return f"sum({body})" if t["gen"] else f"sum([{body}])"
        if n == "Lam":
            return f"(lambda x_: {self.r(t['body'])})({self.r(t['arg'])})"
        if n == "Def":
            self.nd += 1
            name = f"inner{self.nd}"
            body = self.r(t["body"])
            self.prelude.append(f"def {name}(x_): return {body}")
            return f"{name}({self.r(t['arg'])})"
        if n == "Sh":
            # a nested def / lambda whose own parameters are called like recurse and the overloaded function
            if t["form"] == "def":
                self.nd += 1
                name = f"shadow{self.nd}"
                self.prelude.append(f"def {name}(recurse, {self.fname}, v_): return {self.fname}(recurse(v_))")
                return f"{name}(IDENT, IDENT, {self.r(t['a'])})"
            if t["form"] == "dflt":
                if self.only_next:
                    return f"call_next({self.r(t['a'])})"
                return f"(lambda v_, recurse=recurse: recurse(v_))({self.r(t['a'])})"
            return f"(lambda recurse, {self.fname}, v_: recurse({self.fname}(v_)))(IDENT, IDENT, {self.r(t['a'])})"
        if n == "Cls":
            self.nd += 1
            name = f"K{self.nd}_"
            body = self.r(t["body"])
            if t.get("form") == "comp":
                # the call site sits in a comprehension written directly in the class body (evaluated when the class
                # statement runs, i.e. where it is written)
                return self._cls_comp(name, body, t)
            self.prelude.append(f"class {name}: run = lambda self_, x_: {body}")
            return f"{name}().run({self.r(t['arg'])})"
        if n == "F":
            return f"int(f\"{{{self.r(t['a'])}}}\")"
        if n == "W":
            self.nw += 1
            return f"(w{self.nw}_ := {self.r(t['a'])})"
        raise ValueError(n)


def _cls_comp(self, name, body, t):
    # class K: val = sum([<body> for x_ in [<arg>]])   - a statement: goes to the prelude, in evaluation position
    arg = self.r(t["arg"])
    self.prelude.append(f"class {name}: val = sum([{body} for x_ in [{arg}]])")
    return f"{name}.val"


Renderer._cls_comp = _cls_comp


# twopos: the methods take two positional parameters (x: int, y: int = 0) and the call sites write the second argument as y=..:
# site(y=<kw>, x=<arg>) gives both positionals by keyword in the other order
WRAPPERS = ["plain", "self", "closure", "defaults", "generator", "future"]
EXTRA_WRAPPERS = ["twopos"]


def prog_hash(prog):
    import hashlib
    import json

    return int(hashlib.sha1(json.dumps(prog, sort_keys=True).encode()).hexdigest()[:6], 16)


def render(prog, wrapper):
    """Returns (source, offset): module-level source defining m_top / m_next
    (or a factory) for the given wrapper."""
    R = Renderer(only_next=(wrapper == "generator"), selfmode=(wrapper == "self"), kwname=("y" if wrapper == "twopos" else "k"))
    if wrapper == "twopos":
        expr = R.r(prog)
        L = ["def m_top(x: int, y: int = 0):", "    if DEPTH[0]:", "        LOG.append(f'R{x}k{y}')", "        return x + 10 + 3 * y",
             "    DEPTH[0] += 1", "    try:"]
        L += [f"        {p}" for p in R.prelude]
        L += [f"        return ({expr})", "    finally:", "        DEPTH[0] -= 1",
              "def m_next(x: int, y: int = 0):", "    LOG.append(f'N{x}k{y}')", "    return x + 100 + 3 * y"]
        return "\n".join(L) + "\n", 0
    expr = R.r(prog)
    slf = "self, " if wrapper == "self" else ""
    extra_pos = ", d: int = 3" if wrapper == "defaults" else ""
    extra_kw = ", e: int = 4" if wrapper == "defaults" else ""
    tail = ""
    offset = 0
    if wrapper == "closure":
        tail = " + c_"
        offset = 7
    if wrapper == "defaults":
        tail = " + d + e"
        offset = 7
    ind = "    " if wrapper == "closure" else ""
    L = []
    lit = None
    if wrapper == "future":
        # postponed evaluation of annotations: the nested function's annotations name nothing that exists
        L.append("from __future__ import annotations")
        R.prelude.append("def annotated_(v: NotDefinedAnywhere_) -> NotDefinedAnywhere_: return v")
        expr = f"annotated_({expr})"
    if wrapper == "closure":
        L.append("def make(c_):")
        L.append("    late_ = 0")
        # a multi-line string literal in an indented definition: its text belongs to the program
        # (continuation line indented deeper than the def, or not at all)
        lit = "ab\n" + (" " * 12 if prog_hash(prog) % 2 else "") + "cd"
        tail = f" + c_ + (len(ML_) - {len(lit)})"
    L.append(f"{ind}def m_top({slf}x: int{extra_pos}, *, k: int = 0{extra_kw}):")
    if wrapper != "generator":
        L.append(f"{ind}    if DEPTH[0]:")
        L.append(f"{ind}        LOG.append(f'R{{x}}k{{k}}')")
        L.append(f"{ind}        return x + 10 + 3 * k")
    if lit is not None:
        L.append(f'{ind}    ML_ = """' + lit + '"""')
    if wrapper == "defaults":
        L.append(f"{ind}    type = str     # a local that shadows the builtin the rewritten call sites rely on")
    if wrapper == "closure":
        L.append(f"{ind}    if DEPTH[0] < 0:")
        L.append(f"{ind}        late_()")
    L.append(f"{ind}    DEPTH[0] += 1")
    L.append(f"{ind}    try:")
    for p in R.prelude:
        L.append(f"{ind}        {p}")
    if wrapper == "generator":
        L.append(f"{ind}        yield ({expr}){tail}")
    else:
        L.append(f"{ind}        return ({expr}){tail}")
    L.append(f"{ind}    finally:")
    L.append(f"{ind}        DEPTH[0] -= 1")
    if wrapper == "closure":
        L.append("    del late_      # a closure variable of m_top that holds nothing when the function is built")
        L.append("    return m_top")
    L.append(f"def m_next({slf}x: int{extra_pos}, *, k: int = 0{extra_kw}):")
    L.append("    LOG.append(f'N{x}k{k}')")
    L.append("    return x + 100 + 3 * k")
    return "\n".join(L) + "\n", offset


def to_next(t):
    """the same program with every call site turned into call_next (generator wrapper)"""
    if isinstance(t, dict):
        t = {k: to_next(v) for k, v in t.items()}
        if t.get("n") in ("C", "CX"):
            t["site"] = "N"
        if t.get("n") == "Sh" and t.get("form") == "dflt":
            return C("N", t["a"])      # (a captured recurse has no call_next counterpart: a plain call_next site)
        return t
    if isinstance(t, list):
        return [to_next(x) for x in t]
    return t


def no_walrus(t):
    n = t["n"]
    if n in ("T", "B", "S", "X", "null"):
        return True
    if n in ("W", "CX"):
        return False
    if n == "C":
        return no_walrus(t["arg"]) and no_walrus(t["kw"])
    if n in ("Add", "And", "Or"):
        return no_walrus(t["a"]) and no_walrus(t["b"])
    if n == "If":
        return all(no_walrus(t[k]) for k in ("c", "a", "b"))
    if n == "LC":
        return all(no_walrus(i) for i in t["items"]) and no_walrus(t["elt"]) and no_walrus(t["cond"])
    if n in ("Lam", "Def", "Cls"):
        return no_walrus(t["arg"])
    if n in ("F", "Sh"):
        return no_walrus(t["a"])
    return False


def valid(t):
    """Python's own restriction: no assignment expression inside a comprehension iterable"""
    if not isinstance(t, dict):
        return True
    if t.get("n") == "LC" and not all(no_walrus(i) for i in t["items"]):
        return False
    return all(valid(v) if isinstance(v, dict) else all(valid(x) for x in v) if isinstance(v, list) else True for v in t.values())
