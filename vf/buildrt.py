"""Worker-side runtime for C18 (fault injection) and C19 (schedules) on the
real library: scenario construction, line / hook level fault injector,
cooperative scheduler over real threads."""

import linecache
import os
import sys
import threading
import traceback

from .observe import Observer, classify, describe
from .realize import BuiltWorld


class InjectedFault(BaseException):
    """Stands for an interrupt / arbitrary exception at an arbitrary point."""


def _libfile(fn):
    import ovld

    odir = os.path.dirname(os.path.abspath(ovld.__file__))
    return (fn.startswith(odir) and not fn.endswith("_verif.py")) or fn.startswith("<ovld:")


class ThreadLog:
    """LOG replacement: one list per thread."""

    def __init__(self):
        self.by = {}

    def cur(self):
        return self.by.setdefault(threading.get_ident(), [])

    def append(self, e):
        self.cur().append(e)

    def __iter__(self):
        return iter(self.cur())

    def __delitem__(self, k):
        del self.cur()[k]

    def __len__(self):
        return len(self.cur())

    def __bool__(self):
        return bool(self.cur())

    def __getitem__(self, k):
        return self.cur()[k]


OFFENDERS = {
    # misuse of call_next: referenced without being called right away
    "misuse": "def {name}(p1: {T}):\n    f = call_next\n    return f(p1)\n",
    # conflicting argument names: p1 is position 1 everywhere else
    "conflict": "def {name}(q0: {T}, p1: {T}):\n    return None\n",
    # keyword/positional clash
    "kwclash": "def {name}(q0: {T}, *, p1: {T}):\n    return None\n",
}


class Scenario:
    """A world whose methods can be (re-)registered on fresh Ovld objects."""

    def __init__(self, world, offender=None, threaded=False):
        self.world = world
        self.bw = BuiltWorld(world)
        self.bw.build_functions(register=False)
        self.ns = self.bw.ns
        if threaded:
            self.bw.log = ThreadLog()
            self.ns["LOG"] = self.bw.log
        self.ob = Observer(self.bw)
        if world.get("argmap"):
            self.ns["ARG"].update({k: self.bw.instance(c) for k, c in world["argmap"].items()})
        self.budget = world.get("budget", 0)
        # "object": calls are made on the Ovld object itself (what @f.variant, f.copy(), Ovld(mixins=...) hand out)
        self.via = world.get("via", "dispatch")
        self.offender = offender
        self.off_fn = None
        if offender:
            self.off_fn = self.make_offender(offender)

    def make_offender(self, off):
        kind = off["kind"]
        T = self.bw.type_expr({"k": "cls", "c": off.get("cls", 2)})
        name = "offender"
        if kind in OFFENDERS:
            src = OFFENDERS[kind].format(name=name, T=T)
            fname = f"<vf:off{id(self)}>"
            linecache.cache[fname] = (len(src), None, src.splitlines(True), fname)
            exec(compile(src, fname, "exec"), self.ns, self.ns)
            return self.ns[name]
        if kind == "nosource":
            # source cannot be read back (no file, no linecache entry) and the body needs rewriting
            src = f"def {name}(p1: {T}):\n    return recurse(p1)\n"
            exec(compile(src, f"/nonexistent/vf_{id(self)}.py", "exec"), self.ns, self.ns)
            return self.ns[name]
        if kind == "hookraise":
            from ovld import class_check

            state = {"n": 0, "armed": True, "at": off.get("n", 1)}
            self.hookstate = state
            members = frozenset(self.bw.classes[c] for c in off.get("members", [2, 3]))

            def pred(cls):
                state["n"] += 1
                if state["armed"] and state["n"] == state["at"]:
                    raise RuntimeError("user hook failure")
                return cls in members

            pred.__name__ = "raising_check"
            self.ns["RCHK"] = class_check(pred)
            src = f"def {name}(p1: RCHK):\n    LOG.append(['offender', [p1], {{}}, None, None])\n    return None\n"
            fname = f"<vf:off{id(self)}>"
            linecache.cache[fname] = (len(src), None, src.splitlines(True), fname)
            exec(compile(src, fname, "exec"), self.ns, self.ns)
            return self.ns[name]
        if kind == "subclasshook":
            import abc

            state = {"n": 0, "armed": True, "at": off.get("n", 1)}
            self.hookstate = state
            members = tuple(self.bw.classes[c] for c in off.get("members", [2, 3]))

            class HookABC(abc.ABC):
                @classmethod
                def __subclasshook__(cls, C):
                    state["n"] += 1
                    if state["armed"] and state["n"] == state["at"]:
                        raise RuntimeError("user subclass hook failure")
                    return any(issubclass(C, m) for m in members) or NotImplemented

            HookABC.__module__ = "vfworld"
            self.ns["HABC"] = HookABC
            src = f"def {name}(p1: HABC):\n    LOG.append(['offender', [p1], {{}}, None, None])\n    return None\n"
            fname = f"<vf:off{id(self)}>"
            linecache.cache[fname] = (len(src), None, src.splitlines(True), fname)
            exec(compile(src, fname, "exec"), self.ns, self.ns)
            return self.ns[name]
        raise ValueError(kind)

    def new_function(self, upto=None, with_offender_at=None):
        """A fresh Ovld with the world's methods registered in order (the
        offender inserted before position with_offender_at)."""
        from ovld import Ovld

        ov = Ovld()
        ms = sorted([m for m in self.world["methods"] if not m.get("late")], key=lambda m: m["reg"])
        for j, m in enumerate(ms):
            if with_offender_at is not None and j == with_offender_at and self.off_fn is not None:
                ov.register(self.off_fn, priority=(self.offender or {}).get("prio", 0))
            ov.register(self.ns[m["id"]], priority=m["prio"])
        if with_offender_at is not None and with_offender_at >= len(ms) and self.off_fn is not None:
            ov.register(self.off_fn, priority=(self.offender or {}).get("prio", 0))
        return ov

    def call(self, ov, call):
        # through the function object users hold (ov.dispatch), like f(...)
        self.ns["BUDGET"][0] = self.budget
        target = ov if self.via == "object" else ov.dispatch
        if self.world.get("peek"):
            # the caller looks at the function's signature first - what a Callable[[...], ...] annotation of another
            # function does with an overloaded function passed to it, on every call (dependent.Callable ->
            # Signature.extract -> LazySignature.parameters -> Ovld.analyze_arguments)
            import inspect

            inspect.signature(ov.dispatch).parameters
        return self.ob.call(target, call, resolve=False)


# ---------------------------------------------------------------------------
# fault injection
# ---------------------------------------------------------------------------
class LineInjector:
    """Raise InjectedFault at the n-th executed library line (n = 0: count)."""

    def __init__(self, n=0, only=None):
        self.n = n
        self.count = 0
        self.where = None
        self.only = set(only) if only else None    # count the lines of these library functions only (a focused sweep)

    def _local(self, frame, event, arg):
        if event == "line" and (self.only is None or frame.f_code.co_name in self.only):
            self.count += 1
            if self.n and self.count == self.n:
                self.where = f"{os.path.basename(frame.f_code.co_filename)}:{frame.f_lineno}"
                raise InjectedFault(f"line {self.count}")
        return self._local

    def _global(self, frame, event, arg):
        if event == "call" and _libfile(frame.f_code.co_filename):
            return self._local
        return None

    def __enter__(self):
        sys.settrace(self._global)
        return self

    def __exit__(self, *a):
        sys.settrace(None)
        return False


class HookInjector:
    """Raise InjectedFault at the n-th hook point (n = 0: count and record)."""

    def __init__(self, n=0):
        self.n = n
        self.count = 0
        self.names = []
        self.where = None

    def _point(self, name, fields):
        self.count += 1
        self.names.append(name)
        if self.n and self.count == self.n:
            self.where = name
            raise InjectedFault(f"hook {name}")

    def __enter__(self):
        from ovld import _verif

        _verif.install(point=self._point)
        return self

    def __exit__(self, *a):
        from ovld import _verif

        _verif.install()
        return False


def run_fault_job(job):
    """One (world, phase, offender / injection point) scenario.  Returns the
    recorded steps: the failing action and the probes after it."""
    sc = Scenario(job["world"], offender=job.get("offender"))
    phase = job["phase"]
    probes = job["probes"]
    inj = job.get("inject")
    off = job.get("offender")
    nm = len(job["world"]["methods"])
    steps = []

    def injector(n):
        if inj is None:
            return None
        return LineInjector(n, only=inj.get("only")) if inj["kind"] == "line" else HookInjector(n)

    def guarded(fn, n):
        """Run fn under the injector; returns (kind, injector)."""
        ctx = injector(n)
        try:
            if ctx is None:
                fn()
            else:
                with ctx:
                    fn()
            return "ok", ctx
        except InjectedFault:
            return "injected", ctx
        except BaseException as e:  # noqa
            k = classify(e)
            e.__traceback__ = None
            return k, ctx

    natural_build_offender = off is not None and off["kind"] not in ("hookraise", "subclasshook")
    trigger_call = job["trigger"]
    n = (inj or {}).get("n", 0)
    if phase == "first":
        ov = sc.new_function(with_offender_at=off["at"] if off else None)
        kind, ctx = guarded(lambda: sc.call_raise(ov, trigger_call), n)
    elif phase == "rebuild":
        ov = sc.new_function(with_offender_at=None)
        sc.call(ov, trigger_call)  # built successfully
        extra = sc.off_fn if off else sc.ns[job["extra"]]
        if not off:
            # the extra method is registered after the first build
            pass

        def do():
            ov.register(extra, priority=0)

        kind, ctx = guarded(do, n)
    else:  # cache miss
        ov = sc.new_function(with_offender_at=off["at"] if off else None)
        if off and off["kind"] in ("hookraise", "subclasshook"):
            sc.hookstate["armed"] = False
        sc.call(ov, job["warm"])
        if off and off["kind"] in ("hookraise", "subclasshook"):
            sc.hookstate["armed"] = True
            sc.hookstate["n"] = 0
        kind, ctx = guarded(lambda: sc.call_raise(ov, trigger_call), n)
    rec = {"op": "fault", "phase": phase, "result": kind,
           "where": getattr(ctx, "where", None), "count": getattr(ctx, "count", 0)}
    if isinstance(ctx, HookInjector):
        rec["hooks"] = ctx.names[:60]
    steps.append(rec)
    # which methods are registered now?
    reg_ids = [m["id"] for m in sorted(job["world"]["methods"], key=lambda m: m["reg"]) if not m.get("late")]
    if phase == "rebuild" and not off:
        if job["extra"] not in reg_ids:
            reg_ids.append(job["extra"])
    offender_present = bool(off)
    if off and off["kind"] == "hookraise":
        # a raising user hook stays armed for the first probe round
        pass
    for rnd in (1, 2):
        if rnd == 2:
            # remove the offender / stop the faults: the function must work normally
            if off:
                try:
                    ov.unregister(sc.off_fn)
                    steps.append({"op": "remove", "result": "ok"})
                except BaseException as e:  # noqa
                    steps.append({"op": "remove", "result": classify(e), "err": describe(e)})
                    e.__traceback__ = None
                offender_present = False
            else:
                steps.append({"op": "remove", "result": "none"})
        for call in probes:
            obs = sc.call(ov, call)
            if obs.get("err", "").endswith("hook failure"):
                # the user's hook raised again, during this probe: the fault itself, not a dispatch result
                obs["kind"] = "config"
            steps.append({"op": "probe", "round": rnd, "call": call, "obs": obs,
                          "offender_present": offender_present,
                          "offender_blocks_build": bool(natural_build_offender and offender_present),
                          "live": list(reg_ids)})
    sc.bw.cleanup()
    return {"id": job["id"], "world": job["world"], "job": {k: v for k, v in job.items() if k != "world"}, "steps": steps}


def _call_raise(self, ov, call):
    """Like call(), but lets BaseException (InjectedFault) escape."""
    pos, kw = self.ob.make_args(call)
    del self.bw.log[:]
    try:
        ov.dispatch(*pos, **kw)
    except InjectedFault:
        raise
    except BaseException as e:  # noqa: the failing call's own error is not judged
        e.__traceback__ = None
        raise


Scenario.call_raise = _call_raise


# ---------------------------------------------------------------------------
# cooperative scheduler
# ---------------------------------------------------------------------------
class Scheduler:
    """Exactly one of the worker threads runs at a time.  Scheduling points
    are library line events (granularity 'line') or hook points ('hook').
    A schedule = the scheduling-point counts of the leading thread at which
    control passes to the other thread ('switch_at'); the other thread then
    runs until it finishes or blocks (detected by lack of progress), after
    which control returns."""

    def __init__(self, names, switch_at, granularity="line", timeout=0.04):
        self.names = names
        self.switch_at = list(switch_at)
        self.gran = granularity
        self.cond = threading.Condition()
        self.turn = names[0]
        self.finished = {n: False for n in names}
        self.count = {n: 0 for n in names}
        self.progress = 0
        self.timeout = timeout
        self.trace = []
        self.marks = []
        self.tid = {}

    # called by worker threads at every scheduling point
    def point(self, me, label=None):
        with self.cond:
            self.count[me] += 1
            self.progress += 1
            if len(self.trace) < 400:
                self.trace.append((me, self.count[me], label))
            if self.switch_at:
                sw = self.switch_at[0]
                # a switch point is either a count of the leading thread or a
                # [thread, count] pair
                # (a third element names the thread that gets the turn: schedules of three threads)
                who, cnt = (self.names[0], sw) if isinstance(sw, int) else (sw[0], sw[1])
                if me == who and self.count[me] == cnt:
                    self.switch_at.pop(0)
                    nxt = self.other(me)
                    if not isinstance(sw, int) and len(sw) > 2 and not self.finished.get(sw[2], True) and sw[2] != me:
                        nxt = sw[2]
                    if nxt is not None:
                        self.turn = nxt
                        self.cond.notify_all()
            self._wait_turn(me)

    def other(self, me):
        for n in self.names:
            if n != me and not self.finished[n]:
                return n
        return None

    def _wait_turn(self, me):
        while self.turn != me:
            seen = self.progress
            self.cond.wait(self.timeout)
            if self.turn != me and self.progress == seen and not self.finished[self.turn]:
                # the thread holding the turn made no progress: it is blocked
                # (e.g. on a lock we hold) - take the turn back
                self.turn = me
                self.cond.notify_all()
            elif self.finished.get(self.turn):
                self.turn = me
                self.cond.notify_all()

    def start(self, me):
        with self.cond:
            self._wait_turn(me)

    def finish(self, me):
        with self.cond:
            self.finished[me] = True
            self.progress += 1
            nxt = self.other(me)
            if nxt is not None:
                self.turn = nxt
            self.cond.notify_all()

    def tracer_for(self, me):
        sched = self

        def local(frame, event, arg):
            if event == "line":
                sched.point(me, f"{os.path.basename(frame.f_code.co_filename)}:{frame.f_lineno}")
            return local

        def glob(frame, event, arg):
            if event == "call" and _libfile(frame.f_code.co_filename):
                return local
            return None

        return glob


EVENT_OF = {"compile.locked": "locked", "compile.newmap": "newmap", "compile.generated": "generated",
            "compile.registered": "registered", "compile.swapped": "swapped", "compile.done": "done"}


def run_schedule(sc, ov, thread_calls, switch_at, granularity="line", events=None, fault=None):
    """Run one call per thread under the schedule.  Returns per-thread obs
    and the scheduling-point counts.  `events` (a list) receives the build
    events of Trace_Build.tla in the order they happen; `fault` = {thread, n}
    raises InjectedFault at that thread's n-th build hook."""
    from ovld import _verif

    names = list(thread_calls)
    sched = Scheduler(names, switch_at, granularity)
    results = {}
    idmap = {}
    nhooks = {n: 0 for n in names}

    def log_hook(me, name):
        ev = EVENT_OF.get(name)
        if ev is None:
            return
        if events is not None:
            events.append({"ev": ev, "t": me})
        nhooks[me] += 1
        if fault and fault["thread"] == me and nhooks[me] == fault["n"]:
            raise InjectedFault(f"injected at {name}")

    def hook_point(name, fields):
        me = idmap.get(threading.get_ident())
        if me is not None:
            log_hook(me, name)
            sched.point(me, name)

    def body(me, call):
        idmap[threading.get_ident()] = me
        sched.start(me)
        if events is not None:
            events.append({"ev": "start", "t": me})
        if granularity == "line":
            sys.settrace(sched.tracer_for(me))
        try:
            if isinstance(call, list):
                # a sequence of calls made by this thread one after the other
                results[me] = [sc.call(ov, c) for c in call]
            else:
                results[me] = sc.call(ov, call)
        except InjectedFault as e:
            results[me] = {"kind": "injected", "err": describe(e), "entered": [], "resolve": {"kind": "skip", "m": ""}, "ret": ""}
        except BaseException as e:  # noqa
            results[me] = {"kind": "internal", "err": describe(e), "entered": [], "resolve": {"kind": "skip", "m": ""}, "ret": ""}
        finally:
            sys.settrace(None)
            if events is not None:
                events.append({"ev": "end", "t": me, "obs": results.get(me)})
            sched.finish(me)

    def hook_mark(name, fields):
        me = idmap.get(threading.get_ident())
        if me is not None:
            sched.marks.append((me, sched.count[me], name))
            log_hook(me, name)

    if granularity == "hook":
        _verif.install(point=hook_point)
    else:
        _verif.install(point=hook_mark)
    threads = [threading.Thread(target=body, args=(n, c), daemon=True) for n, c in thread_calls.items()]
    try:
        for t in threads:
            t.start()
        for t in threads:
            t.join(20)
        stuck = [t for t in threads if t.is_alive()]
    finally:
        _verif.install()
    for n in names:
        if n not in results:
            results[n] = {"kind": "internal", "err": "thread did not finish (deadlock?)", "entered": [], "resolve": {"kind": "skip", "m": ""}, "ret": ""}
    return results, dict(sched.count), sched.trace, bool(stuck), list(sched.marks)
