"""CLI:  check <ID> [--tier quick|thorough] [--seed N] [--replay PATH]"""

import argparse
import os
import sys
import traceback


def registry():
    from .props import build, c03, c06, c09, c10, c11, c14, c15, c17, graph, history, static, types

    reg = {}
    for p in ("C01", "C02", "C07"):
        reg[p] = static.run
    reg["C06"] = c06.run
    reg["C03"] = c03.run
    reg["C16"] = graph.run
    reg["C08"] = graph.run
    reg["C18"] = build.run
    reg["C12"] = types.run
    reg["C14"] = c14.run
    reg["C15"] = c15.run
    reg["C10"] = c10.run
    reg["C11"] = c11.run
    reg["C17"] = c17.run
    reg["C09"] = c09.run
    reg["C13"] = types.run
    reg["C19"] = build.run
    for p in ("C04", "C05", "C20"):
        reg[p] = history.run
    return reg


def main(argv=None):
    ap = argparse.ArgumentParser()
    ap.add_argument("prop")
    ap.add_argument("--tier", default=os.environ.get("VERIF_TIER", "quick"), choices=["quick", "thorough"])
    ap.add_argument("--seed", type=int, default=int(os.environ.get("VERIF_SEED", "0") or 0))
    ap.add_argument("--replay", default=None)
    a = ap.parse_args(argv)
    reg = registry()
    if a.prop not in reg:
        print(f"unknown property {a.prop}")
        return 2
    # replay files are per run: drop what an earlier run left behind
    import shutil

    shutil.rmtree(os.path.join(os.path.dirname(os.path.dirname(os.path.abspath(__file__))), "replays", a.prop), ignore_errors=True)
    try:
        return reg[a.prop](a.prop, a.tier, a.seed, replay=a.replay)
    except Exception:
        traceback.print_exc()
        print(f"MACHINERY-FAILURE property={a.prop} (exception in harness)")
        return 2


if __name__ == "__main__":
    sys.exit(main())
