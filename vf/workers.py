"""Module-level worker functions (run in fresh processes by vf.pool)."""

import traceback


def static_cases(jobs):
    """job = {id, props, world, calls}; returns recorded cases."""
    from .observe import Observer
    from .realize import BuiltWorld

    out = []
    for job in jobs:
        try:
            bw = BuiltWorld(job["world"])
            fs = bw.build_functions()
        except Exception as e:  # cannot realise (e.g. no C3 linearisation)
            out.append({"id": job["id"], "skip": f"{type(e).__name__}: {e}"})
            continue
        ob = Observer(bw)
        steps = []
        budget = job.get("budget", 0)
        try:
            for call in job["calls"]:
                bw.ns["BUDGET"][0] = budget
                if job.get("argmap"):
                    bw.ns["ARG"].update({k: bw.instance(c) for k, c in job["argmap"].items()})
                steps.append({"call": call, "obs": ob.call(fs[job.get("f", 1)], call, resolve=job.get("resolve", True))})
        except Exception as e:
            out.append({"id": job["id"], "skip": "harness: " + traceback.format_exc()[-400:]})
            bw.cleanup()
            continue
        out.append({"id": job["id"], "props": job["props"], "world": job["world"], "steps": steps})
        bw.cleanup()
    return out
