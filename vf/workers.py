"""Module-level worker functions (run in fresh processes by vf.pool)."""

import json
import traceback


def static_cases(jobs):
    """job = {id, props, world, calls}; returns recorded cases."""
    from .observe import Observer
    from .realize import BuiltWorld

    out = []
    for job in jobs:
        try:
            bw = BuiltWorld(job["world"])
            fs = bw.build_functions()
        except Exception as e:  # cannot realise (e.g. no C3 linearisation)
            out.append({"id": job["id"], "skip": f"{type(e).__name__}: {e}"})
            continue
        ob = Observer(bw)
        steps = []
        budget = job.get("budget", 0)
        try:
            for call in job["calls"]:
                bw.ns["BUDGET"][0] = budget
                if job.get("argmap"):
                    bw.ns["ARG"].update({k: bw.instance(c) for k, c in job["argmap"].items()})
                steps.append({"call": call, "obs": ob.call(fs[job.get("f", 1)], call, resolve=job.get("resolve", True), display=job.get("display", False))})
        except Exception as e:
            out.append({"id": job["id"], "skip": "harness: " + traceback.format_exc()[-400:]})
            bw.cleanup()
            continue
        out.append({"id": job["id"], "props": job["props"], "world": job["world"], "steps": steps})
        bw.cleanup()
    return out


def _order_fn(mode):
    """Harness-chosen iteration order for the order hook: canonicalise by a
    stable key first so that the chosen order does not depend on hashing."""
    import random as _r

    def key(x):
        if isinstance(x, tuple) and x and callable(x[0]):
            x = x[0]
        return (getattr(x, "__name__", None) or repr(x), repr(x))

    def fn(site, xs):
        try:
            li = sorted(list(xs), key=key)
        except Exception:
            li = list(xs)
        if mode == "sorted":
            return li
        if mode == "reverse":
            return li[::-1]
        if mode.startswith("shuffle:"):
            _r.Random(mode + site + str(len(li))).shuffle(li)
            return li
        if mode.startswith("rotate:"):
            k = int(mode.split(":")[1]) % max(1, len(li))
            return li[k:] + li[:k]
        return li

    return fn


def context_cases(jobs):
    """job = {id, world, call, contexts:[{name, methods, order}]}: the same call
    in several contexts; returns a case whose steps are the contexts."""
    from ovld import _verif

    from .observe import Observer
    from .realize import BuiltWorld

    out = []
    keep = []
    for job in jobs:
        steps = []
        skip = None
        for ctx in job["contexts"]:
            w = dict(job["world"])
            w["methods"] = ctx["methods"]
            if ctx.get("junk"):
                keep.append([object() for _ in range(ctx["junk"])])
            try:
                bw = BuiltWorld(w)
                fs = bw.build_functions()
            except Exception as e:
                skip = f"{type(e).__name__}: {e}"
                break
            ob = Observer(bw)
            if ctx.get("order"):
                _verif.install(order=_order_fn(ctx["order"]))
            try:
                obs = ob.call(fs[1], job["call"], resolve=False)
                if ctx.get("again"):
                    obs = ob.call(fs[1], job["call"], resolve=False)
            finally:
                _verif.install()
            steps.append({"call": job["call"], "methods": ctx["methods"], "ctx": ctx["name"], "obs": obs})
            bw.cleanup()
        if skip:
            out.append({"id": job["id"], "skip": skip})
        else:
            out.append({"id": job["id"], "props": job["props"], "world": {k: v for k, v in job["world"].items() if k != "methods"} | {"methods": job["contexts"][0]["methods"]}, "steps": steps})
    return out


# ---------------------------------------------------------------------------
# Table-level replay of TLC behaviours (spec -> code): MultiTypeMap driven
# directly, projection compared after every step.
# ---------------------------------------------------------------------------
def _mk_classes(par, metas=None):
    """metas: {class id (str): metaclass name}: that class is created with a metaclass of its own (inherited by subclasses)"""
    classes = [None, object]
    mcs = {}
    for c in range(2, len(par) + 1):
        ps = sorted([p for p in par[c - 1] if p != 1], reverse=True)
        bases = tuple(classes[p] for p in ps) or (object,)
        name = (metas or {}).get(str(c))
        if name:
            if name not in mcs:
                # the metaclass also inherits from an ordinary class (as EnumMeta is Iterable / Sized)
                mcs["base:" + name] = type("B" + name, (), {"__module__": "vfworld"})
                mcs[name] = type(name, (type, mcs["base:" + name]), {"__module__": "vfworld"})
            classes.append(mcs[name](f"K{c}", bases, {"__module__": "vfworld"}))
        else:
            classes.append(type(bases[0])(f"K{c}", bases, {"__module__": "vfworld"}) if type(bases[0]) is not type and len(bases) == 1 and bases[0] is not object
                           else type(f"K{c}", bases, {"__module__": "vfworld"}))
    classes_meta = mcs
    _mk_classes.last_metas = classes_meta
    return classes


def rawtable_cases(jobs):
    """Random histories on the public MultiTypeMap itself whose signatures use
    hook-defined types (value-dependent types, unions, class predicates) next
    to plain classes.  job = {id, par, menu:[{pos:[term], prio}], steps:[
    {op:'register', mi} | {op:'get', key:[cls], vals:[int]}]}.  Every lookup is
    repeated on a brand-new table built from the methods registered so far;
    a handler that is a generated value dispatcher is called with the values."""
    from ovld import Dependent, class_check
    from ovld.core import Signature
    from ovld.typemap import MultiTypeMap
    from ovld.types import Union as OUnion

    def key_error(key, poss=None):
        return TypeError("Ambiguous resolution" if poss else "No method")

    out = []
    for job in jobs:
        try:
            classes = _mk_classes(job["par"])
            cache = {}

            def mk_type(t):
                k = json.dumps(t, sort_keys=True)
                if k in cache:
                    return cache[k]
                if t["k"] == "cls":
                    r = classes[t["c"]]
                elif t["k"] == "dep":
                    def mk_chk(thr):
                        def chk(value):
                            return getattr(value, "v", 0) >= thr

                        return chk

                    chk = mk_chk(t["thr"])

                    r = Dependent[classes[t["c"]], chk]
                elif t["k"] == "union":
                    r = OUnion[tuple(mk_type(a) for a in t["args"])]
                elif t["k"] == "check":
                    members = frozenset(classes[m] for m in t["members"])
                    r = class_check(lambda cls, _m=members: cls in _m)
                else:
                    raise ValueError(t)
                cache[k] = r
                return r

            def mk_sig(m):
                types = tuple(mk_type(t) for t in m["pos"])
                return Signature(types=types, return_type=object, req_pos=len(types), max_pos=len(types),
                                 req_names=frozenset(), vararg=False, priority=m["prio"], tiebreak=0, is_method=False)

            def mk_handler(j):
                ns = {}
                exec(f"def h{j}(*a, **k):\n    return {j}\n", ns)
                return ns[f"h{j}"]

            def lookup(mtm, handlers, key, vals):
                try:
                    h = mtm[tuple(classes[c] for c in key)]
                except TypeError as e:
                    return {"kind": "ambiguous" if str(e).startswith("Ambiguous") else "nomethod", "entered": [], "ret": ""}
                except Exception as e:  # noqa
                    return {"kind": "internal", "entered": [], "ret": f"{type(e).__name__}: {e}"[:200]}
                try:
                    args = []
                    for c, v in zip(key, vals):
                        a = classes[c]() if classes[c] is not object else object()
                        if classes[c] is not object:
                            a.v = v
                        args.append(a)
                    r = h(*args)
                    return {"kind": "run", "entered": [{"m": f"h{r}"}], "ret": ""}
                except TypeError as e:
                    return {"kind": "ambiguous" if str(e).startswith("Ambiguous") else "nomethod", "entered": [], "ret": ""}
                except Exception as e:  # noqa
                    return {"kind": "internal", "entered": [], "ret": f"{type(e).__name__}: {e}"[:200]}

            mtm = MultiTypeMap(name="T", key_error=key_error)
            handlers, regs, steps = [], [], []
            for st in job["steps"]:
                if st["op"] == "register":
                    m = job["menu"][st["mi"]]
                    h = mk_handler(len(handlers) + 1)
                    handlers.append(h)
                    regs.append(m)
                    mtm.register(mk_sig(m), h)
                    steps.append({"op": "register", "m": f"h{len(handlers)}"})
                else:
                    obs = lookup(mtm, handlers, st["key"], st["vals"])
                    fresh_t = MultiTypeMap(name="T", key_error=key_error)
                    for m, h in zip(regs, handlers):
                        fresh_t.register(mk_sig(m), h)
                    fr = lookup(fresh_t, handlers, st["key"], st["vals"])
                    steps.append({"op": "call", "call": {"key": st["key"], "vals": st["vals"]}, "obs": obs, "fresh": fr,
                                  "fresh_methods": [f"h{j}" for j in range(1, len(handlers) + 1)],
                                  "counts": {"user": 0, "tm_miss": 0, "mtm_miss": 0, "plain_miss": 0}})
            out.append({"id": job["id"], "props": ["C05"], "steps": steps, "job": job})
        except Exception as e:  # noqa
            import traceback

            out.append({"id": job["id"], "skip": "harness: " + traceback.format_exc()[-600:]})
    return out


def table_replay(jobs):
    """job = {id, world:{par, menu, keys}, steps:[{obs, proj}]} as printed by
    Gen_Table.  Returns per behaviour the observed results / projections and
    the result of the same lookup on a brand-new table (the Doc oracle)."""
    from ovld.core import Signature
    from ovld.typemap import MultiTypeMap

    def key_error(key, poss=None):
        return TypeError("Ambiguous resolution" if poss else "No method")

    out = []
    for job in jobs:
        w = job["world"]
        classes = _mk_classes(w["par"])
        clsid = {c: i for i, c in enumerate(classes) if c is not None}

        def mk_sig(m):
            types = [classes[t["c"]] for t in m["pos"]]
            types += [(kn, classes[t["c"]]) for kn, t in zip(m["kwn"], m["kwt"])]
            return Signature(
                types=tuple(types), return_type=object, req_pos=m["reqpos"], max_pos=len(m["pos"]),
                req_names=frozenset(kn for kn, r in zip(m["kwn"], m["kwreq"]) if r), vararg=False,
                priority=m["prio"], tiebreak=0, is_method=False,
            )

        def mk_handler(j):
            ns = {}
            exec(f"def h{j}(*a, **k):\n    return {j}\n", ns)
            return ns[f"h{j}"]

        def real_key(k, handlers):
            t = [classes[c] for c in k["pos"]] + [(n, classes[c]) for n, c in zip(k["kwn"], k["kwa"])]
            if k["m"]:
                t = [handlers[k["m"] - 1].__code__] + t
            return tuple(t)

        def lookup(mtm, handlers, k):
            try:
                h = mtm[real_key(k, handlers)]
                return {"kind": "run", "m": handlers.index(h) + 1}
            except TypeError as e:
                return {"kind": "ambiguous" if str(e).startswith("Ambiguous") else "nomethod"}
            except Exception as e:  # noqa
                return {"kind": "internal", "err": f"{type(e).__name__}: {e}"[:200]}

        def proj(mtm, handlers):
            codes = {h.__code__: j + 1 for j, h in enumerate(handlers)}

            def kj(t):
                m = 0
                t = list(t)
                if t and hasattr(t[0], "co_code"):
                    m = codes.get(t[0], -1)
                    t = t[1:]
                pos = [clsid[x] for x in t if not isinstance(x, tuple)]
                kws = [x for x in t if isinstance(x, tuple)]
                return {"m": m, "pos": pos, "kwn": [n for n, _ in kws], "kwa": [clsid[c] for _, c in kws]}

            tmc = []
            for i, tm in mtm.maps.items():
                name = f"p{i + 1}" if isinstance(i, int) else f"k:{i}"
                for c in tm.keys():
                    tmc.append([name, clsid[c]])
            return {"dict": [kj(t) for t in mtm.keys()], "errs": [kj(t) for t in mtm.errors.keys()], "tmc": tmc}

        mtm = MultiTypeMap(name="T", key_error=key_error)
        handlers = []
        regs = []
        steps = []
        for st in job["steps"]:
            o = st["obs"]
            rec = {"obs": o}
            if o["op"] == "register":
                m = w["menu"][o["mi"] - 1]
                h = mk_handler(len(handlers) + 1)
                handlers.append(h)
                regs.append(m)
                mtm.register(mk_sig(m), h)
            else:
                rec["real"] = lookup(mtm, handlers, o["key"])
                fresh = MultiTypeMap(name="T", key_error=key_error)
                for m, h in zip(regs, handlers):
                    fresh.register(mk_sig(m), h)
                rec["fresh"] = lookup(fresh, handlers, o["key"])
            rec["proj"] = proj(mtm, handlers)
            rec["model_proj"] = st["proj"]
            steps.append(rec)
        out.append({"id": job["id"], "wid": job["wid"], "steps": steps})
    return out


# ---------------------------------------------------------------------------
# Function-level histories (code -> spec): register / unregister / call on a
# real Ovld; every call is also made on a brand-new function built from the
# tracked method set (the oracle C04 / C05 name).
# ---------------------------------------------------------------------------
def history_cases(jobs):
    """job = {id, props, world (methods = menu), steps:[{op,...}], budget, argmap}"""
    from ovld import Ovld, _verif

    from .observe import Observer
    from .realize import BuiltWorld

    out = []
    for job in jobs:
        try:
            bw = BuiltWorld(job["world"])
            bw.build_functions(register=False)
        except Exception as e:
            out.append({"id": job["id"], "skip": f"{type(e).__name__}: {e}"})
            continue
        ob = Observer(bw)
        ns = bw.ns
        byid = {m["id"]: m for m in job["world"]["methods"]}
        if job.get("argmap"):
            ns["ARG"].update({k: bw.instance(c) for k, c in job["argmap"].items()})
        # (noreplace: beyond the listed properties - Ovld(allow_replacement=False) refuses a method whose signature a
        # registered method already has; X3 clauses of Trace_Table)
        ov = Ovld(allow_replacement=False) if job.get("noreplace") else Ovld()
        live = []
        # priority each live method is expected to have (X5: a hot-reloaded method keeps the priority of the version it replaces)
        prio = {mid: m["prio"] for mid, m in byid.items()}
        prio_code = dict(prio)     # (what the code does today: the new version is registered with priority 0)
        if job.get("x5"):
            _install_codefind_stub()
        counters = {"tm": 0, "mtm": 0, "plain": 0}

        def point(name, fields):
            if name == "tm.miss":
                counters["tm"] += 1
            elif name == "mtm.miss":
                counters["mtm"] += 1
                k = fields.get("key")
                if not (k and hasattr(k[0], "co_code")):
                    counters["plain"] += 1

        def user_count():
            return sum(ns.get("COUNTS", {}).values())

        steps = []
        err = None
        try:
            for st in job["steps"]:
                rec = dict(st)
                if st["op"] == "register":
                    try:
                        ov.register(ns[st["m"]], priority=byid[st["m"]]["prio"])
                        live.append(st["m"])
                        prio[st["m"]] = prio_code[st["m"]] = byid[st["m"]]["prio"]    # (a plain registration: the method's own priority)
                        rec["out"] = "ok"
                    except TypeError as e:
                        if not (job.get("noreplace") and str(e).startswith("There is already a method")):
                            raise
                        rec["out"] = "refused"
                elif st["op"] == "unregister":
                    if st["m"] not in live:
                        continue      # (its registration had been refused)
                    ov.unregister(ns[st["m"]])
                    live.remove(st["m"])
                elif st["op"] == "conform":
                    # beyond the listed properties (X5): hot reload through the Conformer the registered method carries
                    # (what jurigged / codefind call when the source of a method is edited); to = "" removes the method
                    ov.ensure_compiled()
                    hs = [h for h in ov.map.type_tuples if getattr(h, "_conformer", None) is not None and h._conformer.orig_fn is ns[st["m"]]]
                    if len(hs) != 1:
                        raise RuntimeError(f"conformer of {st['m']} not found ({len(hs)})")
                    try:
                        hs[0]._conformer.__conform__(ns[st["to"]] if st["to"] else None)
                        rec["out"] = "ok"
                    except Exception as e:
                        rec["out"] = f"raised {type(e).__name__}: {e}"[:200]
                    live.remove(st["m"])
                    if st["to"]:
                        live.append(st["to"])
                        prio[st["to"]] = prio[st["m"]]
                        prio_code[st["to"]] = 0
                    prio[st["m"]] = prio_code[st["m"]] = byid[st["m"]]["prio"]
                else:
                    ns["BUDGET"][0] = st.get("budget", job.get("budget", 3))
                    u0 = user_count()
                    counters["tm"] = counters["mtm"] = counters["plain"] = 0
                    _verif.install(point=point)
                    try:
                        rec["obs"] = ob.call(ov.dispatch, st["call"], resolve=False)
                    finally:
                        _verif.install()
                    rec["counts"] = {"user": user_count() - u0, "tm_miss": counters["tm"], "mtm_miss": counters["mtm"], "plain_miss": counters["plain"]}
                    fresh = Ovld()
                    for mid in live:
                        fresh.register(ns[mid], priority=prio[mid])
                    ns["BUDGET"][0] = st.get("budget", job.get("budget", 3))
                    rec["fresh"] = ob.call(fresh.dispatch, st["call"], resolve=False) if live else None
                    if rec["fresh"] is None:
                        # a function without methods cannot be built; skip the step
                        continue
                    rec["fresh_methods"] = list(live)
                    if job.get("x5") and any(prio[mid] != prio_code[mid] for mid in live):
                        # second oracle, only to name the disagreement: the brand-new function with the priorities the code registered
                        fresh0 = Ovld()
                        for mid in live:
                            fresh0.register(ns[mid], priority=prio_code[mid])
                        ns["BUDGET"][0] = st.get("budget", job.get("budget", 3))
                        rec["fresh0"] = ob.call(fresh0.dispatch, st["call"], resolve=False)
                steps.append(rec)
        except Exception:
            err = traceback.format_exc()[-500:]
        bw.cleanup()
        if err:
            out.append({"id": job["id"], "skip": "harness: " + err})
        else:
            out.append({"id": job["id"], "props": job["props"], "world": job["world"], "steps": steps, "noreplace": bool(job.get("noreplace")),
                        "x5": bool(job.get("x5"))})
    return out


def _install_codefind_stub():
    """codefind is not installed in this sandbox (the repository's test_conform fails at the import for that reason); the
    Conformer only tells it that a code object was replaced, so a recording stand-in is enough to let a hot reload finish"""
    import sys
    import types

    if "codefind" in sys.modules:
        return
    mod = types.ModuleType("codefind")

    class _Registry:
        def __init__(self):
            self.updates = []

        def update_cache_entry(self, obj, old, new):
            self.updates.append((obj, old, new))

    mod.code_registry = _Registry()
    sys.modules["codefind"] = mod


# ---------------------------------------------------------------------------
# C03: argument / default / result / exception pass-through
# ---------------------------------------------------------------------------
def entry_cases(jobs):
    """job = {id, world (chain classes, methods with names/posonly/self), shapes}"""
    from ovld.utils import MISSING

    from .observe import classify, describe
    from .realize import BuiltWorld, Sentinel

    out = []
    for job in jobs:
        w = job["world"]
        try:
            bw = BuiltWorld(w)
        except Exception as e:
            out.append({"id": job["id"], "skip": f"{type(e).__name__}: {e}"})
            continue
        build_err = None
        try:
            fs = bw.build_functions()
            f = fs[1]
        except Exception as e:  # registration itself refused
            build_err = e
        steps = []
        top = len(w["parents"])
        is_meth = any(m.get("self") for m in w["methods"])
        host = None
        if build_err is None and is_meth:
            Host = type("Host", (), {"f": f, "__module__": "vfworld"})
            host = Host()
        dflt_owner = {id(v): k for k, v in bw.dflt.items()}
        # beyond the listed properties: what inspect.signature() reports for the function
        import inspect

        sig = None
        sigrec = None
        if build_err is None:
            try:
                sig = inspect.signature(f)
                kinds = {inspect.Parameter.POSITIONAL_ONLY: "po", inspect.Parameter.POSITIONAL_OR_KEYWORD: "pk", inspect.Parameter.KEYWORD_ONLY: "kw"}
                sigrec = [{"name": p.name, "kind": kinds.get(p.kind, "other"), "req": p.default is inspect.Parameter.empty}
                          for p in sig.parameters.values() if not (is_meth and p.name == "self")]
            except Exception:  # noqa: no signature available (e.g. the analyser refuses the method set)
                sig = None
        for sh in job["shapes"]:
            obs = {"kind": "", "m": "", "bind": [], "ret": "", "slf": "ok"}
            if build_err is not None:
                obs["kind"] = "config"
                obs["err"] = describe(build_err)
                steps.append({"shape": sh, "obs": obs})
                continue
            if job.get("eqmode"):
                # argument objects with a permissive / raising __eq__: the dispatcher must only ever use identity
                def _eq_true(self, other):
                    return True

                def _eq_raise(self, other):
                    raise ValueError("ambiguous truth value")

                Wcls = type("Weird", (bw.classes[top],), {"__eq__": _eq_true if job["eqmode"] == "true" else _eq_raise,
                                                           "__hash__": object.__hash__, "__module__": "vfworld"})
                bw.clsid[Wcls] = top
                mk_arg = Wcls
            else:
                mk_arg = lambda: bw.instance(top, fresh=True)  # noqa
            args = [mk_arg() for _ in range(sh["np"])]
            kw = {k: mk_arg() for k in sh["kws"]}
            del bw.log[:]
            ret = exc = None
            try:
                ret = host.f(*args, **kw) if host is not None else f(*args, **kw)
                obs["kind"] = "run"
            except BaseException as e:  # noqa
                exc = e
                obs["kind"] = classify(e, bw.exc.values())
                obs["err"] = describe(e)
            if bw.log:
                mid, posobjs, kwobjs, _nxt, slf = bw.log[0]
                m = next(mm for mm in w["methods"] if mm["id"] == mid)
                obs["m"] = mid
                names = m.get("names") or [f"p{i + 1}" for i in range(len(m["pos"]))]
                vals = list(zip(names, posobjs)) + list(kwobjs.items())
                toks = []
                for pname, o in vals:
                    tok = "other"
                    for i, a in enumerate(args):
                        if o is a:
                            tok = f"arg:{i + 1}"
                    for k, a in kw.items():
                        if o is a:
                            tok = f"kw:{k}"
                    if o is bw.dflt.get((mid, pname)):
                        tok = "dflt"
                    elif id(o) in dflt_owner and isinstance(o, Sentinel):
                        tok = "otherdflt"
                    elif o is MISSING:
                        tok = "placeholder"
                    toks.append(tok)
                obs["bind"] = toks
                if m.get("self"):
                    obs["slf"] = "ok" if slf is host else "bad"
                if obs["kind"] == "run":
                    obs["ret"] = "ok" if ret is bw.ret.get(mid) else "bad"
                elif obs["kind"] == "raised":
                    obs["ret"] = "ok" if exc is bw.exc.get(mid) else "bad"
            elif obs["kind"] == "run":
                obs["kind"] = "internal"
                obs["err"] = "returned without entering a method body"
            if exc is not None:
                exc.__traceback__ = None
            st_ = {"shape": sh, "obs": obs}
            if sig is not None:
                try:
                    sig.bind(*([host] if host is not None else []), *args, **kw)
                    st_["bindok"] = True
                except TypeError:
                    st_["bindok"] = False
                except Exception:  # noqa
                    pass
            steps.append(st_)
        bw.cleanup()
        rec_ = {"id": job["id"], "world": w, "steps": steps}
        if sigrec is not None:
            rec_["sig"] = sigrec
        out.append(rec_)
    return out


# ---------------------------------------------------------------------------
# C16 / C08: graphs of functions.  TLC behaviours of Ovld.tla replayed on real
# Ovld objects; probes compared with a brand-new function holding Eff(n).
# ---------------------------------------------------------------------------
class _Graph:
    """Real objects + the Python-side record of what was accepted (used only
    to build the fresh oracle; the judge re-derives it and checks)."""

    def __init__(self, nsig=2, sigmode="cls"):
        import linecache
        import typing

        from ovld import call_next, recurse

        # sigmode "mixedlit": signature s is the annotation Literal[s, 'z<s>'] (written anew in every definition:
        # a literal of mixed types gets a fresh Union bound per annotation); probes pass the value s
        self.sigmode = sigmode
        self.linecache = linecache
        self.classes = _mk_classes([[], [1]] + [[k] for k in range(2, nsig + 1)])
        self.leafcls = type("Leaf", (), {"__module__": "vfworld"})
        self.log = []
        self.ns = {"LOG": self.log, "call_next": call_next, "recurse": recurse, "Leaf": self.leafcls,
                   "__name__": "vfworld", "LEAF": self.leafcls(), "Literal": typing.Literal}
        for c, k in enumerate(self.classes):
            if c >= 2:
                self.ns[f"K{c}"] = k
        self.nodes = {}
        self.mix = {}
        self.own = {}
        self.fns = {}
        self.fnc = {}
        self.serial = 0

    def make_fn(self, name, src):
        self.serial += 1
        fname = f"<vf:g{id(self)}-{self.serial}>"
        self.linecache.cache[fname] = (len(src), None, src.splitlines(True), fname)
        exec(compile(src, fname, "exec"), self.ns, self.ns)
        return self.ns[name]

    def method(self, mid, sid):
        # a refused registration does not consume the id: key by (id, signature)
        if (mid, sid) not in self.fnc:
            ann = f"K{sid + 1}" if self.sigmode == "cls" else f"Literal[{sid}, 'z{sid}']"
            src = f"def m{mid}(x: {ann}):\n    LOG.append({mid})\n    return call_next(x)\n"
            if sid == getattr(self, "badsig", 0):
                # Ovld.tla BadSig: a method under this signature cannot be built (call_next used as a value)
                src = f"def m{mid}(x: {ann}):\n    LOG.append({mid})\n    nxt = call_next\n    return nxt(x)\n"
            self.fnc[(mid, sid)] = self.make_fn(f"m{mid}", src)
        return self.fnc[(mid, sid)]

    def eff(self, n):
        # (Ovld.tla Overlay: a signature of the upper layer replaces the lower layer's whole chain under it)
        def overlay(e, g):
            sigs = {k[0] for k in g}
            for k in [k for k in e if k[0] in sigs]:
                del e[k]
            e.update(g)

        e = {}
        for p in self.mix[n]:
            overlay(e, self.eff(p))
        overlay(e, self.own[n])
        return e

    def pushdown(self, t, s, r, m):
        if (s, r) in t:
            self.pushdown(t, s, r - 1, t[(s, r)])
        t[(s, r)] = m

    def fresh(self, n):
        from ovld import Ovld

        e = self.eff(n)
        ov = Ovld()
        for (s, r) in sorted(e, key=lambda k: (k[0], k[1])):
            ov.register(self.fns[e[(s, r)]])
        return ov, [[s, r, e[(s, r)]] for (s, r) in sorted(e)]

    def probe(self, ov, cls):
        from .observe import classify

        del self.log[:]
        try:
            ov(self.classes[cls]() if self.sigmode == "cls" else cls - 1)
            kind = "run"
        except BaseException as exc:  # noqa
            kind = classify(exc)
            exc.__traceback__ = None
        return {"kind": kind, "chain": list(self.log)}

    def cleanup(self):
        for k in [k for k in self.linecache.cache if k.startswith("<ovld:") or k.startswith("<vf:")]:
            del self.linecache.cache[k]

    # --- C08: every node gets, at creation, a marker method on Leaf, a
    # recursive method on its own class R<n> (-> recurse(MID)) and, for roots,
    # a method on Mid (-> recurse(LEAF)): R<a> -> Mid -> Leaf through recurse.
    def add_extras(self, n, root):
        ns = self.ns
        if "Mid" not in ns:
            ns["Mid"] = type("Mid", (), {"__module__": "vfworld"})
            ns["MID"] = ns["Mid"]()
        ns[f"R{n}"] = type(f"R{n}", (), {"__module__": "vfworld"})
        ov = self.nodes[n]
        # every function of the graph is called `f` (the usual `@f.variant def f(...)` idiom): per-function state
        # keyed by name would collide
        ov.register(self.make_fn("f", f"def f(x: Leaf):\n    return {n}\n"))
        if n % 2:
            ov.register(self.make_fn(f"rec{n}", f"def rec{n}(x: R{n}):\n    return recurse(MID)\n"))
        else:
            # recurse used as a value / with starred arguments
            ov.register(self.make_fn(f"rec{n}", f"def rec{n}(x: R{n}):\n    return list(map(recurse, [MID]))[0] if x else recurse(*[MID])\n"))
        if root:
            ov.register(self.make_fn(f"mid{n}", f"def mid{n}(x: Mid):\n    return recurse(LEAF)\n"))
        # a recursion into the most specific K class: must walk the very chain a direct call walks
        ns[f"RK{n}"] = type(f"RK{n}", (), {"__module__": "vfworld"})
        ns["KTOP"] = self.classes[len(self.classes) - 1]() if self.sigmode == "cls" else len(self.classes) - 2
        ov.register(self.make_fn(f"rk{n}", f"def rk{n}(x: RK{n}):\n    return recurse(KTOP)\n"))
        # two-argument recursion nested in an argument of another recursion, on one source line:
        # recurse(a, recurse(b, c)) must be f(a, f(b, c)) for the function the call came through
        if "Tag" not in ns:
            ns["Tag"] = type("Tag", (), {"__module__": "vfworld", "__init__": lambda self_, t: setattr(self_, "t", t)})
            ns["TA"], ns["TB"], ns["TC"] = ns["Tag"]("A"), ns["Tag"]("B"), ns["Tag"]("C")
        ns[f"RN{n}"] = type(f"RN{n}", (), {"__module__": "vfworld"})
        ov.register(self.make_fn("f", f"def f(x: Tag, y: object):\n    return [{n}, x.t, y.t if isinstance(y, Tag) else y]\n"))
        ov.register(self.make_fn(f"rn{n}", f"def rn{n}(x: RN{n}):\n    return recurse(TA, recurse(TB, TC))\n"))

    def ancestors(self, n):
        out = set()
        for p in self.mix[n]:
            out |= {p} | self.ancestors(p)
        return out

    def rprobe2(self, n, a):
        from .observe import classify

        del self.log[:]
        try:
            self.nodes[n](self.ns[f"RK{a}"]())
            kind = "run"
        except BaseException as exc:  # noqa
            kind = classify(exc)
            exc.__traceback__ = None
        via = {"kind": kind, "chain": list(self.log)}
        direct = self.probe(self.nodes[n], len(self.classes) - 1)
        return {"op": "rprobe2", "n": n, "via": f"RK{a}", "rec": via, "direct": direct}

    def rprobe3(self, n, a):
        def run(fn):
            try:
                return {"kind": "run", "ret": json.dumps(fn())}
            except BaseException as exc:  # noqa
                exc.__traceback__ = None
                return {"kind": "error", "ret": type(exc).__name__}

        f = self.nodes[n]
        ns = self.ns
        via = run(lambda: f(ns[f"RN{a}"]()))
        direct = run(lambda: f(ns["TA"], f(ns["TB"], ns["TC"])))
        return {"op": "rprobe3", "n": n, "via": f"RN{a}", "rec": via, "direct": direct}

    def rprobe(self, n, a):
        try:
            marker = self.nodes[n](self.ns[f"R{a}"]())
        except BaseException as exc:  # noqa
            marker = 0
            exc.__traceback__ = None
        if not isinstance(marker, int):
            marker = -1
        return {"op": "rprobe", "n": n, "via": f"R{a}", "marker": marker}


def graph_replay(jobs):
    from ovld import Ovld

    out = []
    for job in jobs:
        nsig = job.get("nsig", 2)
        g = _Graph(nsig, job.get("sigmode", "cls"))
        g.badsig = job.get("badsig", 0)

        def unbuildable(k):
            return any(s_ == g.badsig for (s_, _r) in g.eff(k))

        def config_error(e):
            # the rebuild of a node in use failed: the change itself stays, the error is reported
            return g.badsig and type(e).__name__ == "UsageError"

        steps = []
        drift = None
        N = job["n"]
        for j, st in enumerate(job["steps"]):
            o = st["obs"]
            rec = {k: v for k, v in o.items()}
            n = o["n"]
            try:
                if o["op"] == "create":
                    g.nodes[n] = Ovld(mixins=[g.nodes[p] for p in o["mixins"]], linkback=o["linkback"])
                    g.mix[n] = list(o["mixins"])
                    g.own[n] = {}
                    if job.get("recurse", True):
                        g.add_extras(n, root=not o["mixins"])
                elif o["op"] == "register":
                    fn = g.method(o["m"], o["sid"])
                    try:
                        g.nodes[n].register(fn)
                        rec["out"] = "ok"
                        g.fns[o["m"]] = fn
                        g.pushdown(g.own[n], o["sid"], 0, o["m"])
                    except Exception as e:
                        if config_error(e):
                            rec["out"] = "config"
                            g.fns[o["m"]] = fn
                            g.pushdown(g.own[n], o["sid"], 0, o["m"])
                        elif "locked" not in str(e):
                            raise
                        else:
                            rec["out"] = "refused"
                elif o["op"] == "unregister" and o["m"] not in g.fns:
                    # the model registered this method; the code had refused it (already reported as drift at that step)
                    rec["out"] = "absent"
                elif o["op"] == "unregister":
                    try:
                        g.nodes[n].unregister(g.fns[o["m"]])
                        rec["out"] = "ok"
                        kept = {k: v for k, v in g.own[n].items() if v != o["m"]}
                        # the gap in the signature's chain is closed (Ovld.tla DropClose)
                        g.own[n] = {(s, -sum(1 for (s2, r2) in kept if s2 == s and r2 > r)): v for (s, r), v in kept.items()}
                    except Exception as e:
                        if config_error(e):
                            rec["out"] = "config"
                            kept = {k: v for k, v in g.own[n].items() if v != o["m"]}
                            g.own[n] = {(s, -sum(1 for (s2, r2) in kept if s2 == s and r2 > r)): v for (s, r), v in kept.items()}
                        elif "locked" not in str(e):
                            raise
                        else:
                            rec["out"] = "refused"
                elif o["op"] == "conform" and o["old"] not in g.fns:
                    rec["out"] = "absent"
                elif o["op"] == "conform":
                    # X5 (beyond the listed properties): hot reload through the Conformer of a method the node registered itself
                    _install_codefind_stub()
                    fn = g.method(o["m"], o["sid"])
                    hs = [h for h in g.nodes[n].map.type_tuples
                          if getattr(h, "_conformer", None) is not None and h._conformer.orig_fn is g.fns[o["old"]] and h._conformer.ovld is g.nodes[n]]
                    if len(hs) != 1:
                        raise RuntimeError(f"conformer of method {o['old']} in node {n}: {len(hs)} found")

                    def reloaded():
                        kept = {k: v for k, v in g.own[n].items() if v != o["old"]}
                        g.own[n] = {(s, -sum(1 for (s2, r2) in kept if s2 == s and r2 > r)): v for (s, r), v in kept.items()}
                        g.fns[o["m"]] = fn
                        g.pushdown(g.own[n], o["sid"], 0, o["m"])

                    try:
                        hs[0]._conformer.__conform__(fn)
                        rec["out"] = "ok"
                        reloaded()
                    except Exception as e:
                        if config_error(e):
                            rec["out"] = "config"
                            reloaded()
                        elif "locked" not in str(e):
                            raise
                        else:
                            rec["out"] = "refused"
                elif o["op"] == "add_mixins":
                    try:
                        g.nodes[n].add_mixins(*[g.nodes[p] for p in o["mixins"]])
                        rec["out"] = "ok"
                        g.mix[n] += list(o["mixins"])
                    except Exception as e:
                        if config_error(e):
                            rec["out"] = "config"
                            g.mix[n] += list(o["mixins"])
                        elif "locked" not in str(e):
                            raise
                        else:
                            rec["out"] = "refused"
                elif o["op"] == "use" and g.badsig:
                    # the outcome of putting the node to use: built, or a configuration error
                    try:
                        g.nodes[n].compile() if not g.nodes[n]._compiled else None
                        rec["out"] = "ok"
                    except Exception as e:
                        if not config_error(e):
                            raise
                        rec["out"] = "config"
                steps.append(rec)
                # probes: the used node, and every node already built (no side effect)
                targets = [n] if o["op"] == "use" and not (g.badsig and unbuildable(n)) else []
                if not job.get("sparse"):
                    # (sparse: only the node put to use is probed, so that nodes in use are rebuilt several times in a row
                    # without serving a call in between)
                    targets += [k for k, ov in g.nodes.items() if ov._compiled and k not in targets]
                for k in targets:
                    if job.get("recurse", True):
                        for a in sorted(g.ancestors(k) | {k}):
                            steps.append(g.rprobe(k, a))
                            steps.append(g.rprobe3(k, a))
                            if g.eff(k):
                                steps.append(g.rprobe2(k, a))
                    if not g.eff(k):
                        continue
                    fr, fe = g.fresh(k)
                    for cls in range(nsig + 1, 1, -1):
                        steps.append({"op": "probe", "n": k, "cls": cls, "obs": g.probe(g.nodes[k], cls),
                                      "fresh": g.probe(fr, cls), "fresh_eff": fe})
            except Exception:
                steps.append({"op": "error", "n": n, "err": traceback.format_exc()[-600:]})
                break
            proj = {"locked": [bool(g.nodes[k]._locked) if k in g.nodes else False for k in range(1, N + 1)],
                    "compiled": [bool(g.nodes[k]._compiled) if k in g.nodes else False for k in range(1, N + 1)]}
            if drift is None and (proj != st["proj"] or rec.get("out") != o.get("out")):
                drift = {"step": j, "op": o, "real_out": rec.get("out"), "real": proj, "model": st["proj"]}
        g.cleanup()
        out.append({"id": job["id"], "n": N, "steps": steps, "drift": drift})
    return out


# ---------------------------------------------------------------------------
# C18 / C19
# ---------------------------------------------------------------------------
def fault_cases(jobs):
    """Each job is a (world, phase, fault source) family; injection sweeps are
    expanded here: a dry run counts the points, then one run per chosen point."""
    from . import buildrt

    out = []
    for job in jobs:
        try:
            inj = job.get("inject")
            if inj and inj.get("n") == "sweep":
                dry = dict(job)
                dry["inject"] = {"kind": inj["kind"], "n": 0, **({"only": inj["only"]} if inj.get("only") else {})}
                d = buildrt.run_fault_job(dry)
                total = d["steps"][0]["count"]
                limit = inj.get("limit")
                if limit and total > limit:
                    off = inj.get("offset", 0)
                    pts = sorted({1 + ((off + (i * total) // limit) % total) for i in range(limit)})
                else:
                    pts = list(range(1, total + 1))
                for n in pts:
                    j2 = dict(job)
                    j2["id"] = f"{job['id']}@{n}"
                    j2["inject"] = {"kind": inj["kind"], "n": n, **({"only": inj["only"]} if inj.get("only") else {})}
                    r = buildrt.run_fault_job(j2)
                    r["points_total"] = total
                    out.append(r)
            else:
                out.append(buildrt.run_fault_job(job))
        except Exception:
            out.append({"id": job["id"], "skip": "harness: " + traceback.format_exc()[-700:]})
    return out


def sched_cases(jobs):
    """job = {id, world, scenario, threads:{name: call}, warm: [calls], after: [calls],
    granularity, switches: 'sweep1' | 'sweep2' | [[k..],..], limit}"""
    import itertools

    from . import buildrt

    out = []
    for job in jobs:
        try:
            sc = buildrt.Scenario(job["world"], threaded=True)
            names = list(job["threads"])

            def fresh():
                ov = sc.new_function()
                for c in job.get("warm", []):
                    sc.call(ov, c)
                return ov

            # dry run: leading thread alone, to count its scheduling points
            ov = fresh()
            _, counts, _, _, marksa = buildrt.run_schedule(sc, ov, {names[0]: job["threads"][names[0]]}, [], job["granularity"])
            total = counts[names[0]]
            sw = job["switches"]
            limit = job.get("limit")
            if sw == "sweepab":
                # leading thread runs to a, the other to b, then the leading one resumes
                ov = fresh()
                _, cb, _, _, marksb = buildrt.run_schedule(sc, ov, {names[1]: job["threads"][names[1]]}, [], job["granularity"])
                totb = cb[names[1]]
                if job.get("pattern") == "late_rebuild":
                    # A is pre-empted inside its build (B runs up to the build lock or to
                    # its own check of the built flag), A is pre-empted again after its
                    # build is done, B runs to b, A resumes: covers a second build racing
                    # with a dispatch of the first thread.
                    done = [c for (_, c, n) in marksa if n == "compile.done"]
                    inside = [c + 1 for (_, c, n) in marksa if n in ("compile.locked", "compile.newmap", "compile.registered")][:3]
                    bv = sorted({min(totb, max(1, c + d)) for (_, c, _) in marksb for d in (0, 1)})
                    if done and inside:
                        pts = [[a1, a2, [names[1], b]] for a1 in inside for a2 in range(done[0], total + 1) for b in bv]
                    else:
                        pts = []
                elif job.get("near_hooks"):
                    # pre-emption points adjacent to the linearisation points (hook events)
                    r = job["near_hooks"]
                    av = sorted({min(total, max(1, c + d)) for (_, c, _) in marksa for d in range(-r, r + 2)})
                    bv = sorted({min(totb, max(1, c + d)) for (_, c, _) in marksb for d in (0, 1)})
                    pts = [[a, [names[1], b]] for a in av for b in bv]
                else:
                    pts = [[a, [names[1], b]] for a in range(1, total + 1) for b in range(1, totb + 1)]
            elif sw == "sample3":
                # three threads: sampled schedules - the first runs to a and hands over to the second, which runs to b and
                # hands over to the third, which runs to c and hands back to the first (each then runs on when it gets the turn)
                import random as _random

                tot = {}
                for nme in names:
                    ov = fresh()
                    _, cn, _, _, _ = buildrt.run_schedule(sc, ov, {nme: job["threads"][nme]}, [], job["granularity"])
                    tot[nme] = cn[nme]
                r3 = _random.Random(job.get("offset", 0) * 7919 + 3)
                pts = []
                for _ in range(limit or 50):
                    order = list(names)
                    r3.shuffle(order)
                    first = names[0]
                    rest = [x for x in order if x != first]
                    a = r3.randint(1, tot[first])
                    b = r3.randint(1, tot[rest[0]])
                    c = r3.randint(1, tot[rest[1]])
                    cand = [[first, a, rest[0]], [rest[0], b, rest[1]], [rest[1], c, first]]
                    if cand not in pts:
                        pts.append(cand)
                limit = None
            elif sw == "sweep1":
                pts = [[k] for k in range(1, total + 1)]
            elif sw == "sweep2":
                pts = [[a, b] for a in range(1, total + 1) for b in range(a + 1, total + 1)]
            else:
                pts = sw
            if limit and len(pts) > limit:
                off = job.get("offset", 0)
                pts = [pts[(off + (i * len(pts)) // limit) % len(pts)] for i in range(limit)]
            for p in pts:
                ov = fresh()
                res, counts, trace, stuck, _ = buildrt.run_schedule(sc, ov, dict(job["threads"]), list(p), job["granularity"])
                steps = []
                for nme in names:
                    steps.append({"op": "thread", "thread": nme, "call": job["threads"][nme], "obs": res[nme]})
                for c in job.get("after", []):
                    steps.append({"op": "after", "call": c, "obs": sc.call(ov, c)})
                out.append({"id": f"{job['id']}@{'-'.join(str(x if isinstance(x, int) else (x[1] if len(x) == 2 else f'{x[0]}{x[1]}{x[2]}')) for x in p)}", "world": job["world"], "schedule": p,
                            "points_total": total, "steps": steps, "stuck": stuck,
                            "preempted_in": [t for t in trace if t[0] == names[0] and t[1] in [x for x in p if isinstance(x, int)]][:2]})
            sc.bw.cleanup()
        except Exception:
            out.append({"id": job["id"], "skip": "harness: " + traceback.format_exc()[-700:]})
    return out


def sched_count_cases(jobs):
    """C20 with two threads racing the first call: job = {id, world, a_calls:[...], b_call, after:[...]}.
    Thread A makes the first call and then warms every combination; thread B makes its first call while A is
    building (every hook-level pre-emption of A's build).  Afterwards every combination is called again and the
    user hooks consulted during each of those calls are counted."""
    from . import buildrt

    out = []
    for job in jobs:
        try:
            sc = buildrt.Scenario(job["world"], threaded=True)
            ids = [m["id"] for m in sorted(job["world"]["methods"], key=lambda m: m["reg"]) if not m.get("late")]
            ov = sc.new_function()
            _, counts, _, _, _ = buildrt.run_schedule(sc, ov, {"A": job["a_calls"][0]}, [], "hook")
            total = counts["A"]
            for k in range(0, total + 1):
                ov = sc.new_function()
                res, _, _, stuck, _ = buildrt.run_schedule(sc, ov, {"A": list(job["a_calls"]), "B": job["b_call"]}, [k] if k else [], "hook")
                steps = [{"op": "register", "m": mid} for mid in ids]

                def rec(call, obs, counts):
                    fresh = sc.new_function()
                    return {"op": "call", "call": call, "obs": obs, "fresh": sc.call(fresh, call), "fresh_methods": ids, "counts": counts}

                zero = {"user": 0, "tm_miss": 0, "mtm_miss": 0, "plain_miss": 0}
                ra = res["A"] if isinstance(res["A"], list) else [res["A"]]
                for c, o in zip(job["a_calls"], ra):
                    steps.append(rec(c, o, zero))
                steps.append(rec(job["b_call"], res["B"], zero))
                for c in job["after"]:
                    u0 = sum(sc.ns.get("COUNTS", {}).values())
                    o = sc.call(ov, c)
                    u1 = sum(sc.ns.get("COUNTS", {}).values())
                    steps.append(rec(c, o, {"user": u1 - u0, "tm_miss": 0, "mtm_miss": 0, "plain_miss": 0}))
                out.append({"id": f"{job['id']}@{k}", "props": ["C20"], "world": job["world"], "steps": steps, "stuck": stuck, "switch": k})
            sc.bw.cleanup()
        except Exception:
            out.append({"id": job["id"], "skip": "harness: " + traceback.format_exc()[-700:]})
    return out


def inflight_cases(jobs):
    """A method set that changes while a call is in flight: the running method (entered for a K4 argument)
    registers / unregisters a method - on its own function, or on the parent of the linked variant it was
    inherited into - and then recurses with a K3 argument.  job = {id, prop, mode: plain | variant | variant2,
    change: register | unregister, via: recurse | name, warm: bool}.  The recursion is recorded as a call of
    its own, to be judged against the method set after the change."""
    import linecache

    from ovld import Ovld, recurse

    from .observe import classify, describe

    out = []
    for job in jobs:
        try:
            log = []
            K2 = type("K2", (), {"__module__": "vfworld"})
            K3 = type("K3", (K2,), {"__module__": "vfworld"})
            K4 = type("K4", (), {"__module__": "vfworld"})
            state = {"armed": False}
            from ovld import call_next

            ns = {"LOG": log, "K2": K2, "K3": K3, "K4": K4, "recurse": recurse, "call_next": call_next, "STATE": state, "TARGET": K3(),
                  "__name__": "vfworld"}
            again = {"recurse": "recurse(TARGET)", "name": "f(TARGET)", "next": "call_next(x)"}[job["via"]]
            typearg = bool(job.get("typearg"))
            if typearg:
                # the changing method is the function's first type[...] method and the recursion passes a class: from
                # that change on, a class at this position is looked up as type[cls] (the same poset: type[K3] below type[K2])
                ns["TARGET"] = K3
            src = (
                "def f(x: K4):\n    LOG.append('fb')\n    if STATE['armed']:\n        STATE['armed'] = False\n"
                "        STATE['change']()\n        LOG.append('>split')\n        return " + again + "\n    return 'fb'\n"
                "def m1(x: object):\n    LOG.append('m1')\n    return 'm1'\n"
                + ("def m2(x: type[K2]):\n    LOG.append('m2')\n    return 'm2'\n" if typearg else
                   "def m2(x: K2):\n    LOG.append('m2')\n    return 'm2'\n") +
                "def mv(x: K3, y: object):\n    LOG.append('mv')\n    return 'mv'\n"
            )
            fname = f"<vf:inflight{job['id']}>"
            linecache.cache[fname] = (len(src), None, src.splitlines(True), fname)
            exec(compile(src, fname, "exec"), ns, ns)
            P = Ovld()
            f_fn = ns["f"]
            P.register(ns["f"])
            P.register(ns["m1"])
            ns["f"] = P.dispatch      # as the decorator form leaves it: the name denotes the overloaded function
            if job.get("selfunreg"):
                # the running method unregisters *itself* (no other method of the module is rewritten) and recurses
                # with an argument of its own class: the recursion must not come back to it
                ns["TARGET"] = K4()
            if job["change"] == "unregister":
                P.register(ns["m2"])
            target = P
            if job["mode"] in ("variant", "variant2"):
                V = P.copy(linkback=True)
                V.register(ns["mv"])          # the variant's own (two-argument) method
                target = V
                if job["mode"] == "variant2":
                    V2 = V.copy(linkback=True)
                    target = V2
            state["change"] = (lambda: P.register(ns["m2"])) if job["change"] == "register" else (lambda: P.unregister(ns["m2"]))
            if job.get("selfunreg"):
                state["change"] = lambda: P.unregister(f_fn)
            # build (and warm) the function the call goes through
            target(K2())
            if job["warm"]:
                target(K3())
            del log[:]
            state["armed"] = True
            obs = {"resolve": {"kind": "skip", "m": ""}}
            try:
                target(K4())
                obs["kind"] = "run"
            except BaseException as e:  # noqa
                obs["kind"] = classify(e)
                obs["err"] = describe(e)
                e.__traceback__ = None
            after = log[log.index(">split") + 1:] if ">split" in log else None
            call = {"pos": [{"c": 4 if job.get("selfunreg") else 3}], "kwn": [], "kwa": []}
            ent = [{"m": mid, "call": call, "next": {"has": False, "call": {"pos": [], "kwn": [], "kwa": []}}} for mid in (after or [])]
            if job["via"] == "next":
                # the running activation delegates with the arguments it received: the chain continues below it,
                # over the method set after the change
                call = {"pos": [{"c": 4}], "kwn": [], "kwa": []}
                for e in ent:
                    e["call"] = call
                ent = [{"m": "fb", "call": call, "next": {"has": True, "call": call}}] + ent
            obs["entered"] = ent
            ids = ["fb", "m1"] + (["m2"] if job["change"] == "register" else [])
            if job.get("selfunreg"):
                ids = ["m1"] + (["m2"] if job["change"] == "unregister" else [])
            if job["mode"] != "plain":
                ids.append("mv")
            for k in [k for k in linecache.cache if k.startswith("<ovld:") or k.startswith("<vf:")]:
                del linecache.cache[k]
            out.append({"id": job["id"], "job": job, "split_seen": after is not None, "live_after": ids, "call": call, "obs": obs})
        except Exception:
            out.append({"id": job["id"], "skip": "harness: " + traceback.format_exc()[-700:]})
    return out


def mixed_history_cases(jobs):
    """C04 on a function one position of which takes both types (a type[...] method) and ordinary instances, the
    instances of different classes comparing and hashing equal: job = {id, seq: [arg names]}.  Every call is
    repeated on a brand-new function."""
    from ovld import Ovld

    from .observe import classify

    out = []
    for job in jobs:
        try:
            eq = {"__module__": "vfworld", "__eq__": lambda self, other: True, "__hash__": lambda self: 7}
            A = type("A", (), dict(eq))
            B = type("B", (A,), dict(eq))
            C = type("C", (), dict(eq))
            ns = {"A": A, "B": B, "C": C, "LOG": []}
            src = ("def mt(x: type[A]):\n    LOG.append('mt')\ndef ma(x: A):\n    LOG.append('ma')\n"
                   "def mc(x: C):\n    LOG.append('mc')\ndef mf(x: float):\n    LOG.append('mf')\n"
                   "def mb(x: bool):\n    LOG.append('mb')\ndef mi(x: int):\n    LOG.append('mi')\n")
            exec(src, ns, ns)
            ids = ["mt", "ma", "mc", "mf", "mb", "mi"]
            args = {"a": A(), "b": B(), "c": C(), "A": A, "B": B, "C": C, "one": 1, "true": True, "onef": 1.0, "s": "s"}

            def build():
                f = Ovld()
                for m in ids:
                    f.register(ns[m])
                return f

            def call(f, name):
                del ns["LOG"][:]
                try:
                    f(args[name])
                    kind = "run"
                except BaseException as e:  # noqa
                    kind = classify(e)
                    e.__traceback__ = None
                return {"kind": kind, "entered": [{"m": m} for m in ns["LOG"]], "ret": ""}

            f = build()
            steps = [{"op": "register", "m": m} for m in ids]
            ref = job.get("reference")
            for name in job["seq"]:
                # oracle: the same call as the first call ever made in a new interpreter (job["reference"], computed by
                # jobs with a one-element seq run with fresh_each); a fresh function in this process when absent
                steps.append({"op": "call", "call": {"arg": name}, "obs": call(f, name),
                              "fresh": ref[name] if ref else call(build(), name),
                              "fresh_methods": ids, "counts": {"user": 0, "tm_miss": 0, "mtm_miss": 0, "plain_miss": 0}})
            out.append({"id": job["id"], "props": ["C04"], "steps": steps})
        except Exception:
            out.append({"id": job["id"], "skip": "harness: " + traceback.format_exc()[-700:]})
    return out


def linkfail_cases(jobs):
    """C16 / C18: a change on a parent whose propagation fails in one linked child.  P has two linked children in
    use; the new method is valid for P and for C2 but clashes with one of C1's own methods (a name that is
    keyword-only there).  job = {id, order: 'c1first' | 'c2first', change: 'register'}.  Afterwards P and C2 are
    probed: the change shows up in both, or in neither."""
    import linecache

    from ovld import Ovld

    from .observe import classify, describe

    out = []
    for job in jobs:
        try:
            log = []
            K2 = type("K2", (), {"__module__": "vfworld"})
            K3 = type("K3", (K2,), {"__module__": "vfworld"})
            K4 = type("K4", (), {"__module__": "vfworld"})
            ns = {"LOG": log, "K2": K2, "K3": K3, "K4": K4, "__name__": "vfworld"}
            src = ("def m1(x: K2):\n    LOG.append('m1')\n"
                   "def own1(x: K3, *, w: object = None):\n    LOG.append('own1')\n"
                   "def own2(x: K3):\n    LOG.append('own2')\n"
                   "def late(w: K4):\n    LOG.append('late')\n")
            fname = f"<vf:linkfail{job['id']}>"
            linecache.cache[fname] = (len(src), None, src.splitlines(True), fname)
            exec(compile(src, fname, "exec"), ns, ns)
            if job.get("kind") == "child_first_invalid":
                # C18: the offending method sits on a parent; the first function put to use is a (not linked) copy / variant.
                # The failed build of the child must leave the parent repairable: once the offender is removed from the
                # parent, both work according to their complete method sets.
                from ovld import call_next

                ns["call_next"] = call_next
                src2 = "def bad(x: K4):\n    nxt = call_next\n    return nxt(x)\n"
                fname2 = fname + "c"
                linecache.cache[fname2] = (len(src2), None, src2.splitlines(True), fname2)
                exec(compile(src2, fname2, "exec"), ns, ns)
                P = Ovld()
                P.register(ns["m1"])
                P.register(ns["bad"])
                C = P.copy() if job.get("how", "copy") == "copy" else P.variant(ns["own2"])
                if job.get("how", "copy") == "copy":
                    C.register(ns["own2"])

                def probe(f, cls):
                    del log[:]
                    try:
                        f(cls())
                        kind = "run"
                    except BaseException as e:  # noqa
                        kind = classify(e)
                        e.__traceback__ = None
                    return {"kind": kind, "entered": list(log)}

                first = {"child": C, "parent": P}[job["first"]]
                rec = {"id": job["id"], "job": job, "first_call": probe(first, K3)}
                try:
                    P.unregister(ns["bad"])
                    rec["removal"] = "ok"
                except BaseException as e:  # noqa
                    rec["removal"] = "error:" + describe(e)
                    e.__traceback__ = None
                rec["P"] = {"K3": probe(P, K3), "K4": probe(P, K4)}
                rec["C"] = {"K3": probe(C, K3), "K2": probe(C, K2)}
                for k in [k for k in linecache.cache if k.startswith("<ovld:") or k.startswith("<vf:")]:
                    del linecache.cache[k]
                out.append(rec)
                continue
            P = Ovld()
            P.register(ns["m1"])
            kids = {}
            for name in (("C1", "C2") if job["order"] == "c1first" else ("C2", "C1")):
                c = P.copy(linkback=True)
                c.register(ns["own1"] if name == "C1" else ns["own2"])
                kids[name] = c
            for f in (P, kids["C1"], kids["C2"]):
                f(K3())
            if job.get("kind") == "parent_invalid":
                # the new method cannot be built at all (misuse of call_next): the parent's own rebuild fails
                from ovld import call_next

                ns["call_next"] = call_next
                src2 = "def late(x: K4):\n    nxt = call_next\n    return nxt(x)\n"
                fname2 = fname + "b"
                linecache.cache[fname2] = (len(src2), None, src2.splitlines(True), fname2)
                exec(compile(src2, fname2, "exec"), ns, ns)
            interrupt = job.get("kind") == "interrupt"
            if interrupt:
                # the new method is fine for everybody; the parent's own rebuild is interrupted (an interrupt is a
                # BaseException) at its first build hook: the linked children must still be told about the change
                from ovld import _verif

                from .buildrt import InjectedFault

                src3 = "def late(x: K4):\n    LOG.append('late')\n"
                fname3 = fname + "i"
                linecache.cache[fname3] = (len(src3), None, src3.splitlines(True), fname3)
                exec(compile(src3, fname3, "exec"), ns, ns)
                fired = {"n": 0}

                def point(name, fields):
                    if name == "compile.newmap" and not fired["n"]:
                        fired["n"] = 1
                        raise InjectedFault("interrupt in the parent's rebuild")

                _verif.install(point=point)
            try:
                P.register(ns["late"])
                outcome = "ok"
            except BaseException as e:  # noqa
                outcome = "error:" + describe(e)
                e.__traceback__ = None
            finally:
                if interrupt:
                    _verif.install()

            def probe(f, cls):
                del log[:]
                try:
                    f(cls())
                    kind = "run"
                except BaseException as e:  # noqa
                    kind = classify(e)
                    e.__traceback__ = None
                return {"kind": kind, "entered": list(log)}

            rec = {"id": job["id"], "job": job, "register": outcome,
                   "P": {"K4": probe(P, K4), "K3": probe(P, K3)},
                   "C2": {"K4": probe(kids["C2"], K4), "K3": probe(kids["C2"], K3)},
                   "C1": {"K4": probe(kids["C1"], K4)}}
            for k in [k for k in linecache.cache if k.startswith("<ovld:") or k.startswith("<vf:")]:
                del linecache.cache[k]
            out.append(rec)
        except Exception:
            out.append({"id": job["id"], "skip": "harness: " + traceback.format_exc()[-700:]})
    return out


def fnext_self_cases(jobs):
    """f.next from a method with self (C07 names f.next as the equivalent of call_next, from functions and from
    methods with self): class K(OvldBase) with f(self, x: K2) delegating through self.f.next(x) to f(self, x: object)."""
    import linecache

    from ovld import OvldBase

    from .observe import classify, describe

    out = []
    for job in jobs:
        try:
            log = []
            K2 = type("K2", (), {"__module__": "vfworld"})
            ns = {"LOG": log, "K2": K2, "OvldBase": OvldBase, "__name__": "vfworld"}
            src = ("class Host(OvldBase):\n"
                   "    def f(self, x: K2):\n        LOG.append(('m2', self))\n        return self.f.next(x)\n"
                   "    def f(self, x: object):\n        LOG.append(('m1', self))\n        return 'm1'\n")
            fname = f"<vf:fnself{job['id']}>"
            linecache.cache[fname] = (len(src), None, src.splitlines(True), fname)
            exec(compile(src, fname, "exec"), ns, ns)
            inst = ns["Host"]()
            obs = {"resolve": {"kind": "skip", "m": ""}}
            try:
                inst.f(K2())
                obs["kind"] = "run"
            except BaseException as e:  # noqa
                obs["kind"] = classify(e)
                obs["err"] = describe(e)
                e.__traceback__ = None
            call = {"pos": [{"c": 2}], "kwn": [], "kwa": []}
            ent = []
            for mid, slf in log:
                ent.append({"m": mid, "call": call, "next": {"has": mid == "m2", "call": call if mid == "m2" else {"pos": [], "kwn": [], "kwa": []}}})
            obs["entered"] = ent
            obs["slf"] = "ok" if all(slf is inst for _, slf in log) else "bad"
            for k in [k for k in linecache.cache if k.startswith("<ovld:") or k.startswith("<vf:")]:
                del linecache.cache[k]
            out.append({"id": job["id"], "call": call, "obs": obs})
        except Exception:
            out.append({"id": job["id"], "skip": "harness: " + traceback.format_exc()[-700:]})
    return out


def build_trace_cases(jobs):
    """Executions of the lazy build recorded as event traces for Trace_Build.tla.
    job = {id, world, threads:{A: call, B: call}, granularity, switches ('sweep1' | 'sweepab' | [[..]]),
    limit, offset, faults: [None | {thread, n}], after: [calls]}.  One case per (schedule, fault)."""
    from . import buildrt

    def rank(call):
        return call["pos"][0]["c"]

    def res_of(obs):
        if obs is None:
            return None
        if obs["entered"]:
            return int(obs["entered"][0]["m"][1:])
        return {"nomethod": 0, "ambiguous": -1}.get(obs["kind"])

    out = []
    for job in jobs:
        try:
            sc = buildrt.Scenario(job["world"], threaded=True)
            names = list(job["threads"])
            tnum = {n: j + 1 for j, n in enumerate(names)}
            gran = job["granularity"]
            ov = sc.new_function()
            _, counts, _, _, _ = buildrt.run_schedule(sc, ov, {names[0]: job["threads"][names[0]]}, [], gran)
            total = counts[names[0]]
            sw = job["switches"]
            if sw == "sweep1":
                pts = [[]] + [[k] for k in range(1, total + 1)]
            elif sw == "sweepab":
                ov = sc.new_function()
                _, cb, _, _, _ = buildrt.run_schedule(sc, ov, {names[1]: job["threads"][names[1]]}, [], gran)
                pts = [[a, [names[1], b]] for a in range(1, total + 1) for b in range(1, cb[names[1]] + 1)]
            else:
                pts = sw
            limit = job.get("limit")
            if limit and len(pts) > limit:
                off = job.get("offset", 0)
                pts = [pts[(off + (i * len(pts)) // limit) % len(pts)] for i in range(limit)]
            for fault in job.get("faults", [None]):
                for p in pts:
                    ov = sc.new_function()
                    events = []
                    res, _, _, stuck, _ = buildrt.run_schedule(sc, ov, dict(job["threads"]), list(p), gran, events=events, fault=fault)
                    for c in job.get("after", []):
                        # the calls made afterwards are recorded like the others, build events included: when a fault rolled the
                        # build back after the other thread had already been served, this call is the one that builds again
                        buildrt.run_schedule(sc, ov, {names[0]: c}, [], gran, events=events)
                        events[-1]["call"] = c
                    evs = []
                    bad = None
                    for e in events:
                        r = {"ev": e["ev"], "t": tnum[e["t"]], "res": 0, "arg": 0}
                        if e["ev"] == "end":
                            obs = e["obs"]
                            call = e.get("call") or job["threads"][e["t"]]
                            if obs is None or obs["kind"] in ("config", "injected"):
                                r["ev"] = "failed"
                            else:
                                v = res_of(obs)
                                if v is None:
                                    bad = f"unexpected outcome {obs.get('kind')} {obs.get('err')}"
                                    v = -9
                                r["res"], r["arg"] = v, rank(call)
                        evs.append(r)
                    tag = "-".join(str(x if isinstance(x, int) else x[1]) for x in p) or "none"
                    ftag = f"f{fault['thread']}{fault['n']}" if fault else "nofault"
                    out.append({"id": f"{job['id']}@{tag}@{ftag}", "events": evs, "schedule": p, "fault": fault, "stuck": stuck, "odd": bad})
            sc.bw.cleanup()
        except Exception:
            out.append({"id": job["id"], "skip": "harness: " + traceback.format_exc()[-700:]})
    return out


# ---------------------------------------------------------------------------
# C12 / C13: tables of typeorder / subclasscheck / applicability
# ---------------------------------------------------------------------------
def type_tables(jobs):
    """job = {id, types (index terms), rows: [i...]}: order row i against every
    type; for static types also subclasscheck and dispatch applicability."""
    from ovld import Ovld, subclasscheck, typeorder

    from . import typeuniv

    out = []
    for job in jobs:
        T = job["types"]
        R = typeuniv.Realizer()
        n = len(T)
        rows = {}
        for i in job["rows"]:
            a = R.real(T, i)
            orow, srow = [], []
            for j in range(1, n + 1):
                b = R.real(T, j)
                try:
                    o = typeorder(a, b)
                    orow.append(o.name)
                except Exception as e:  # noqa
                    orow.append("ERR:" + type(e).__name__)
                try:
                    srow.append(bool(subclasscheck(a, b)))
                except Exception as e:  # noqa
                    srow.append("ERR:" + type(e).__name__)
            rec = {"order": orow, "subtt": srow}
            # the same type written twice (two annotations) is the same type
            if True:
                # (a Dependent written twice with the same condition function included)
                try:
                    tw = R.real_twin(T, i)
                    rec["twin"] = [typeorder(a, tw).name, typeorder(tw, a).name]
                except Exception as e:  # noqa
                    rec["twin"] = ["ERR:" + type(e).__name__, "ERR"]
            # C13: classes against the (static) type i
            t = T[i - 1]
            if t["k"] in ("cls", "exactly", "strict", "hasmethod", "union", "inter") and job.get("static_ok", {}).get(str(i), False):
                sc, dp, da = [], [], []
                ov = Ovld()
                ns = {"TT": a}
                exec("def mt(x: TT):\n    return 'T'\ndef mo(x: object):\n    return 'O'\ndef md(x: TT = None):\n    return 'T'\n", ns)
                ov.register(ns["mt"])
                ov.register(ns["mo"])
                # the method alone, its parameter optional: a value it does not admit finds no method
                ov2 = Ovld()
                ov2.register(ns["md"])
                for c in range(1, typeuniv.NCLS + 1):
                    cls = R.classes[c]
                    try:
                        sc.append(bool(subclasscheck(cls, a)))
                    except Exception as e:  # noqa
                        sc.append("ERR:" + type(e).__name__)
                    if typeuniv.KINDS[c - 1] == "abc" or typeuniv.KINDS[c - 1].startswith("proto"):
                        dp.append("skip")
                        da.append("skip")
                        continue
                    inst = {7: 5, 8: True, 9: "s"}.get(c) if c >= 7 else cls()
                    for f_, acc in ((ov, dp), (ov2, da)):
                        try:
                            acc.append(f_(inst))
                        except TypeError as e:
                            acc.append("AMB" if str(e).startswith("Ambiguous") else ("O" if str(e).startswith("No method") and f_ is ov2 else "ERR:" + str(e)[:40]))
                        except Exception as e:  # noqa
                            acc.append("ERR:" + type(e).__name__)
                rec["clssub"] = sc
                if t["k"] == "union" and all(T[x - 1]["k"] == "cls" and T[x - 1]["c"] != 0 for x in t["args"]):
                    # the same union handed to the helper as Python writes it (A | B, not normalised), plain and inside type[...]
                    import functools
                    import operator

                    raw = functools.reduce(operator.or_, [R.real(T, x) for x in t["args"]])
                    rr = []
                    for c in range(1, typeuniv.NCLS + 1):
                        try:
                            rr.append([bool(subclasscheck(R.classes[c], raw)), bool(subclasscheck(type[R.classes[c]], type[raw]))])
                        except Exception as e:  # noqa
                            rr.append(["ERR:" + type(e).__name__, "ERR"])
                    rec["clssub_raw"] = rr
                rec["dispatch"] = dp
                rec["dispatch_alone"] = da
            rows[str(i)] = rec
        out.append({"id": job["id"], "rows": rows})
    return out


# ---------------------------------------------------------------------------
# C14: types passed as arguments
# ---------------------------------------------------------------------------
def typearg_cases(jobs):
    """job = {id, world:{elbase, elements, parents, methods}, calls}: node ids
    index `elements`; node 1 = plain object annotation; elements with
    k in cls/gen/any are type objects (annotation type[...], argument = the
    object itself), k = inst are ordinary classes (argument = an instance)."""
    import linecache
    import typing

    from ovld import Ovld

    from .observe import classify, describe

    out = []
    for job in jobs:
        w = job["world"]
        base = _mk_classes(w["elbase"], w.get("elmeta"))
        metas_ = dict(_mk_classes.last_metas)
        builtin = w.get("elbuiltin", {})
        for k, name in builtin.items():
            import collections.abc

            base[int(k)] = {"list": list, "dict": dict, "str": str, "int": int, "tuple": tuple, "Sequence": collections.abc.Sequence}[name]

        def real(e, anyspell=False):
            if anyspell:
                # the same element with every `object` written typing.Any
                if e["k"] == "cls" and e["c"] == 1:
                    return typing.Any
                if e["k"] == "gen":
                    return base[e["o"]][tuple(real(a, True) for a in e["args"])]
            if e["k"] == "cls":
                return base[e["c"]]
            if e["k"] == "any":
                return typing.Any
            if e["k"] == "gen":
                return base[e["o"]][tuple(real(a) for a in e["args"])]
            if e["k"] == "inst":
                return base[e["c"]]
            if e["k"] == "un":
                import functools
                import operator

                return functools.reduce(operator.or_, [real(a) for a in e["args"]])
            if e["k"] == "metaof":
                if e["m"] == "EXACT":
                    from ovld.types import Exactly

                    return Exactly[type]
                return metas_[("base:" if e.get("via") == "base" else "") + e["m"]]
            raise ValueError(e)

        from ovld import call_next as _call_next

        els = w["elements"]
        from ovld import Dependent as _Dependent
        ns = {"LOG": [], "typing": typing, "call_next": _call_next, "Dependent": _Dependent, "ALWAYS": (lambda v: True)}
        objs = {}
        for n, e in enumerate(els, start=1):
            if n == 1:
                continue
            objs[n] = real(e)
            ns[f"E{n}"] = objs[n]
            if e["k"] in ("cls", "gen"):
                ns[f"A{n}"] = real(e, True)
        src = []
        for m in w["methods"]:
            params = []
            for i, t in enumerate(m["pos"]):
                if t.get("k") == "union":
                    # a union whose arms are type[...] annotations
                    arms = [f"type[E{a['c']}]" for a in t["args"]]
                    if t.get("litarm"):
                        # one more arm that no passed object satisfies: a Literal (a value-dependent member next to type[...] arms)
                        arms.insert(t["litarm"] - 1, "typing.Literal['zz']")
                    params.append(f"p{i + 1}: typing.Union[" + ", ".join(arms) + "]")
                    continue
                n = t["c"]
                if n == 1:
                    ann = "object"
                elif els[n - 1]["k"] in ("inst", "metaof"):
                    ann = f"E{n}"            # an ordinary class annotation (a metaclass: the passed class is its instance)
                elif m.get("bare") and els[n - 1] == {"k": "cls", "c": 1}:
                    ann = "type"
                elif m.get("anyspell") and els[n - 1]["k"] in ("cls", "gen"):
                    ann = f"type[A{n}]"      # object written typing.Any: type[Any], type[list[Any]]
                else:
                    ann = f"type[E{n}]"
                if m.get("depwrap") and ann.startswith("type"):
                    # the same annotation as the bound of a value-dependent type whose condition always holds
                    ann = f"Dependent[{ann}, ALWAYS]"
                params.append(f"p{i + 1}: {ann}")
            if m.get("posonly"):
                # positional-only parameters (every method of the world alike)
                params.insert(m["posonly"], "/")
            if m["kwn"]:
                params.append("*")
            for kn, t, req in zip(m["kwn"], m["kwt"], m["kwreq"]):
                n = t["c"]
                ann = "object" if n == 1 else (f"E{n}" if els[n - 1]["k"] in ("inst", "metaof") else f"type[E{n}]")
                params.append(f"{kn}: {ann}" + ("" if req else " = None"))
            fwd = ", ".join([f"p{i + 1}" for i in range(len(m["pos"]))] + [f"{kn}={kn}" for kn in m["kwn"]])
            body = m.get("body", "leaf")
            ret = {"next": f"call_next({fwd})", "fnext": f"F.next({fwd})"}.get(body, repr(m["id"]))
            src.append(f"def {m['id']}({', '.join(params)}):\n    LOG.append({m['id']!r})\n    return {ret}\n")
        code = "\n".join(src)
        fname = f"<vf:ta{job['id']}>"
        linecache.cache[fname] = (len(code), None, code.splitlines(True), fname)
        exec(compile(code, fname, "exec"), ns, ns)
        ov = Ovld()
        for m in sorted(w["methods"], key=lambda m: m["reg"]):
            ov.register(ns[m["id"]], priority=m["prio"])
        ns["F"] = ov
        delegating = {m["id"] for m in w["methods"] if m.get("body", "leaf") in ("next", "fnext")}
        steps = []
        for call in job["calls"]:
            args = []
            for a in call["pos"]:
                n = a["c"]
                if a.get("any"):
                    args.append(typing.Any)
                elif n == 1:
                    args.append(object())
                elif els[n - 1]["k"] == "inst":
                    args.append(objs[n]())
                else:
                    args.append(objs[n])
            kwargs = {}
            for kn, a in zip(call["kwn"], call["kwa"]):
                n = a["c"]
                kwargs[kn] = typing.Any if a.get("any") else (object() if n == 1 else (objs[n]() if els[n - 1]["k"] == "inst" else objs[n]))
            del ns["LOG"][:]
            obs = {"resolve": {"kind": "skip", "m": ""}}
            try:
                ov(*args, **kwargs)
                obs["kind"] = "run"
            except BaseException as e:  # noqa
                obs["kind"] = classify(e)
                obs["err"] = describe(e)
                e.__traceback__ = None
            # delegations forward the arguments received (keywords only when they were supplied: a defaulted None is not forwarded as a call shape)
            obs["entered"] = [{"m": mid, "call": call,
                               "next": {"has": mid in delegating, "call": call if mid in delegating else {"pos": [], "kwn": [], "kwa": []}}}
                              for mid in ns["LOG"]]
            steps.append({"call": call, "obs": obs})
        for k in [k for k in linecache.cache if k.startswith("<ovld:") or k.startswith("<vf:")]:
            del linecache.cache[k]
        out.append({"id": job["id"], "props": job.get("props", ["C14"]), "world": w, "steps": steps})
    return out


def typearg_context_cases(jobs):
    """C06 over worlds whose arguments are types: job = {id, world, call, contexts:[{name, methods}]}."""
    out = []
    for job in jobs:
        steps = []
        skip = None
        for ctx in job["contexts"]:
            w = dict(job["world"])
            w["methods"] = ctx["methods"]
            r = typearg_cases([{"id": job["id"], "world": w, "calls": [job["call"]]}])[0]
            if "skip" in r:
                skip = r["skip"]
                break
            st = r["steps"][0]
            steps.append({"call": st["call"], "methods": ctx["methods"], "ctx": ctx["name"], "obs": st["obs"]})
        if skip:
            out.append({"id": job["id"], "skip": skip})
        else:
            w = dict(job["world"])
            w["methods"] = job["contexts"][0]["methods"]
            out.append({"id": job["id"], "props": ["C06"], "world": w, "steps": steps})
    return out


# ---------------------------------------------------------------------------
# C15: equivalent spellings
# ---------------------------------------------------------------------------
def spell_cases(jobs):
    """job = {id, s1, s2}: for every surrounding method set build one function
    with the target annotation spelled s1 and one with s2; same arguments."""
    import linecache
    import typing

    from ovld import Ovld

    from .observe import classify

    out = []
    for job in jobs:
        A = type("A", (), {"__module__": "vfworld"})
        B = type("B", (), {"__module__": "vfworld"})
        Asub = type("Asub", (A,), {"__module__": "vfworld"})
        C = type("C", (), {"__module__": "vfworld"})
        base = {"A": A, "B": B, "C": C, "Asub": Asub, "int": int, "str": str, "typing": typing,
                "Union": typing.Union, "Optional": typing.Optional, "Annotated": typing.Annotated,
                "List": typing.List, "Literal": typing.Literal, "Any": typing.Any}

        def expr(t):
            s = t["s"]
            if s == "cls":
                return t["n"]
            if s == "none":
                return "None"
            if s == "any":
                return "Any"
            if s == "object":
                return "object"
            if s == "Union":
                return "Union[" + ", ".join(expr(a) for a in t["args"]) + "]"
            if s == "Pipe":
                return "(" + " | ".join(expr(a) for a in t["args"]) + ")"
            if s == "Tuple":
                return "(" + ", ".join(expr(a) for a in t["args"]) + ",)"
            if s == "Optional":
                return f"Optional[{expr(t['arg'])}]"
            if s == "Annotated":
                return f"Annotated[{expr(t['arg'])}, 'meta']"
            if s == "Str":
                return repr(expr(t["arg"]))
            if s == "List":
                return f"List[{expr(t['arg'])}]"
            if s == "list":
                return f"list[{expr(t['arg'])}]"
            if s == "Literal":
                return "Literal[" + ", ".join(repr(v) for v in t["vals"]) + "]"
            if s == "typeof":
                return f"type[{expr(t['arg'])}]"
            raise ValueError(s)

        def param(t):
            return "x" if t["s"] == "missing" else f"x: {expr(t)}"

        argvals = [A(), B(), Asub(), C(), None, 1, 2, 3, "s", [A()], [1], []]
        if "typeof" in json.dumps(job["s1"]):
            # annotations of passed classes: the arguments are classes
            argvals = [A, B, Asub, C, int, bool, str, type(None), object, A(), 1, list[A], list[Asub], list[int], typing.List[A], list]

        def build(ctx, sa, sb):
            ns = dict(base)
            src = []
            order = []
            if ctx == "alone":
                src.append(f"def mt({param(sa)}):\n    return 'mt'\n")
                order = [("mt", 0)]
            elif ctx == "fallback":
                src.append(f"def mo(x: object):\n    return 'mo'\n")
                src.append(f"def mt({param(sa)}):\n    return 'mt'\n")
                order = [("mo", 0), ("mt", 0)]
            elif ctx == "fallback_first":
                src.append(f"def mt({param(sa)}):\n    return 'mt'\n")
                src.append(f"def mo(x: object):\n    return 'mo'\n")
                order = [("mt", 0), ("mo", 0)]
            elif ctx == "competitors":
                src.append(f"def mo(x: object):\n    return 'mo'\n")
                src.append(f"def ms(x: Asub):\n    return 'ms'\n")
                src.append(f"def mt({param(sa)}):\n    return 'mt'\n")
                src.append(f"def mi(x: int):\n    return 'mi'\n")
                order = [("mo", 0), ("ms", 0), ("mt", 0), ("mi", 0)]
            elif ctx == "sibling":
                # an identical signature registered twice: the later one replaces the first
                src.append(f"def mo(x: object):\n    return 'mo'\n")
                src.append(f"def m1({param(sa)}):\n    return 'm1'\n")
                src.append(f"def m2({param(sb)}):\n    return 'm2'\n")
                order = [("mo", 0), ("m1", 0), ("m2", 0)]
            elif ctx == "sibling_prio":
                src.append(f"def m1({param(sa)}):\n    return 'm1'\n")
                src.append(f"def mp(x: object):\n    return 'mp'\n")
                src.append(f"def m2({param(sb)}):\n    return 'm2'\n")
                order = [("m1", 0), ("mp", -1), ("m2", 0)]
            code = "\n".join(src)
            fname = f"<vf:sp{id(ns)}>"
            linecache.cache[fname] = (len(code), None, code.splitlines(True), fname)
            exec(compile(code, fname, "exec"), ns, ns)
            ov = Ovld()
            for name, pr in order:
                ov.register(ns[name], priority=pr)
            return ov

        def observe(ov):
            res = []
            for v in argvals:
                try:
                    res.append("run:" + str(ov(v)))
                except BaseException as e:  # noqa
                    res.append(classify(e))
                    e.__traceback__ = None
            return res

        ctxs = []
        err = None
        for ctx in ("alone", "fallback", "fallback_first", "competitors", "sibling", "sibling_prio"):
            try:
                if ctx.startswith("sibling"):
                    o1 = observe(build(ctx, job["s1"], job["s1"]))
                    o2 = observe(build(ctx, job["s1"], job["s2"]))
                else:
                    o1 = observe(build(ctx, job["s1"], None))
                    o2 = observe(build(ctx, job["s2"], None))
            except Exception as e:
                err = f"{ctx}: {type(e).__name__}: {e}"
                break
            ctxs.append({"name": ctx, "obs1": o1, "obs2": o2})
        for k in [k for k in linecache.cache if k.startswith("<ovld:") or k.startswith("<vf:")]:
            del linecache.cache[k]
        if err:
            out.append({"id": job["id"], "skip": err, "s1": job["s1"], "s2": job["s2"]})
        else:
            out.append({"id": job["id"], "s1": job["s1"], "s2": job["s2"], "ctxs": ctxs})
    return out


# ---------------------------------------------------------------------------
# C10: value-dependent methods
# ---------------------------------------------------------------------------
def _dep_call(vw, ov, methods, cspec):
    from . import deprt
    from .observe import classify, describe

    names = cspec if isinstance(cspec, list) else cspec["pos"]
    kwspec = {} if isinstance(cspec, list) else cspec.get("kw", {})
    args = [vw.objs[n] for n in names]
    kwargs = {k: vw.objs[n] for k, n in kwspec.items()}
    call = {"pos": [deprt.arg_record(n) for n in names], "kwn": list(kwspec), "kwa": [deprt.arg_record(n) for n in kwspec.values()]}
    del vw.log[:]
    del vw.predlog[:]
    vw.budget[0] = 2
    obs = {"resolve": {"kind": "skip", "m": ""}}
    try:
        ov(*args, **kwargs)
        obs["kind"] = "run"
    except BaseException as e:  # noqa
        obs["kind"] = classify(e)
        obs["err"] = describe(e)
        e.__traceback__ = None
    ent = []
    slf = "ok"
    for j, rec_ in enumerate(vw.log):
        mid, a, kws = rec_[0], rec_[1], rec_[2]
        if len(rec_) > 3 and rec_[3] is not vw.inst:
            slf = "bad"
        if mid == ">next_with":
            # the body entered just before delegates with other values
            ent[-1]["next"] = {"has": True, "call": {"pos": [deprt.arg_record(n) for n in a], "kwn": [], "kwa": []}}
            continue
        m = next(x for x in methods if x["id"] == mid)
        nxt = m.get("body") == "next"
        kws = {k: v for k, v in kws.items() if v is not deprt.KWDFLT}
        c = {"pos": [vw.arg_of(x) for x in a], "kwn": list(kws), "kwa": [vw.arg_of(x) for x in kws.values()]}
        ent.append({"m": mid, "call": c, "next": {"has": nxt, "call": c if nxt else {"pos": [], "kwn": [], "kwa": []}}})
    obs["entered"] = ent
    obs["predlog"] = list(vw.predlog)
    obs["slf"] = slf
    return call, obs


def dep_context_cases(jobs):
    """C06 over value worlds: job = {id, call, contexts:[{name, methods, order?, again?}]}."""
    from ovld import _verif

    from . import deprt

    out = []
    for job in jobs:
        steps = []
        skip = None
        for ctx in job["contexts"]:
            vw = deprt.ValueWorld()
            if ctx.get("order"):
                _verif.install(order=_order_fn(ctx["order"]))
            try:
                ov = vw.build(ctx["methods"])
                call, obs = _dep_call(vw, ov, ctx["methods"], job["call"])
                if ctx.get("again"):
                    call, obs = _dep_call(vw, ov, ctx["methods"], job["call"])
            except Exception as e:
                skip = f"{type(e).__name__}: {e}"
                break
            finally:
                _verif.install()
                vw.cleanup()
            steps.append({"call": call, "methods": ctx["methods"], "ctx": ctx["name"], "obs": obs})
        if skip:
            out.append({"id": job["id"], "skip": skip})
        else:
            out.append({"id": job["id"], "props": ["C06"], "world": {"parents": deprt.PARENTS, "methods": job["contexts"][0]["methods"]},
                        "steps": steps})
    return out


def dep_cases(jobs):
    """job = {id, methods, calls:[[value names]]}"""
    import linecache

    from . import deprt

    out = []
    for job in jobs:
        vw = deprt.ValueWorld()
        try:
            ov = vw.build(job["methods"], host=job.get("host", False))
        except Exception as e:
            out.append({"id": job["id"], "skip": f"{type(e).__name__}: {e}"})
            continue
        steps = []
        for cspec in job["calls"]:
            call, obs = _dep_call(vw, ov, job["methods"], cspec)
            # the emitted dispatcher source (strategy) for the evidence file
            steps.append({"call": call, "obs": obs})
        strategies = set()
        for k, v in linecache.cache.items():
            if k.startswith("<ovld:"):
                text = "".join(v[2])
                if "__DEPENDENT_DISPATCH__" in text:
                    strategies.add("keyed" if "HANDLER = " in text else ("counting" if "SUMMATION" in text else "exclusive"))
        vw.cleanup()
        out.append({"id": job["id"], "props": ["C10"], "world": {"parents": deprt.PARENTS, "methods": job["methods"]},
                    "steps": steps, "strategies": sorted(strategies)})
    return out


# ---------------------------------------------------------------------------
# C11: built-in value types
# ---------------------------------------------------------------------------
COMPANIONS = ["plain", "lits4", "deps", "overlap", "lits_then_T", "keyed3"]


def value_cases(jobs):
    import linecache
    import typing

    from ovld import Dependent, Ovld
    from ovld.dependent import generate_checking_code
    from ovld.types import normalize_type

    from . import valuniv

    out = []
    for job in jobs:
        t = job["t"]
        try:
            for tw in valuniv.twins(t["py"]):
                normalize_type(tw, None)
            RT = valuniv.real(t["py"])
            NT = normalize_type(RT, None)
        except Exception as e:
            out.append({"id": job["id"], "skip": f"{type(e).__name__}: {e}"})
            continue

        def never(x):
            return False

        def build3():
            # three positions: >= 4 disjoint Literal methods keyed on the first argument, one of them
            # (registered first, second or third) also constrains the second argument with T
            ns = {"TT": RT, "Literal": typing.Literal}
            src = ["def mo(x: object, y: object, z: object):\n    return 'O'\n",
                   "def mt(x: Literal[0], y: TT, z: object):\n    return 'T'\n"]
            for j in range(1, 5):
                src.append(f"def l{j}(x: Literal[{100 + j}], y: object, z: int):\n    return 'L'\n")
            code = "\n".join(src)
            fname = f"<vf:val3{id(ns)}>"
            linecache.cache[fname] = (len(code), None, code.splitlines(True), fname)
            exec(compile(code, fname, "exec"), ns, ns)
            ov = Ovld()
            pos = job.get("k3pos", 1)
            order = ["mo", "l1", "l2", "l3", "l4"]
            order.insert(1 + pos % 5, "mt")
            for name in order:
                ov.register(ns[name])
            return lambda v: ov(0, v, 5)

        def build(comp):
            if comp == "keyed3":
                return build3()
            ns = {"TT": RT, "Literal": typing.Literal, "Dependent": Dependent, "never": never}
            src = ["def mo(x: object):\n    return 'O'\n", "def mt(x: TT):\n    return 'T'\n"]
            order = ["mo", "mt"]
            if comp in ("lits4", "lits_then_T"):
                for j in range(4):
                    src.append(f"def li{j}(x: Literal[{100 + j}]):\n    return 'L'\n")
                    src.append(f"def ls{j}(x: Literal['zz{j}']):\n    return 'L'\n")
                    order += [f"li{j}", f"ls{j}"]
                src.append("def lt(x: Literal[(100,)]):\n    return 'L'\n") if False else None
                if comp == "lits_then_T":
                    order = [o for o in order if o != "mt"] + ["mt"]
            elif comp == "deps":
                for j, b in enumerate(["int", "str", "tuple", "dict", "object"]):
                    src.append(f"def dp{j}(x: Dependent[{b}, never]):\n    return 'D'\n")
                    order.append(f"dp{j}")
            elif comp == "overlap":
                src.append("def lo1(x: Literal[100, 101]):\n    return 'L'\n")
                src.append("def lo2(x: Literal[101, 102]):\n    return 'L'\n")
                src.append("def lo3(x: Literal['zz0', 'zz1']):\n    return 'L'\n")
                src.append("def lo4(x: Literal['zz1', 'zz2']):\n    return 'L'\n")
                order += ["lo1", "lo2", "lo3", "lo4"]
            code = "\n".join(s for s in src if s)
            fname = f"<vf:val{id(ns)}>"
            linecache.cache[fname] = (len(code), None, code.splitlines(True), fname)
            exec(compile(code, fname, "exec"), ns, ns)
            ov = Ovld()
            for name in order:
                ov.register(ns[name])
            return ov

        try:
            ovs = [build(c) for c in COMPANIONS]
        except Exception as e:
            out.append({"id": job["id"], "skip": f"build: {type(e).__name__}: {e}"})
            continue
        try:
            cg = generate_checking_code(NT)
            names = {k: f"S_{k}" for k in cg.substitutions}
            expr = cg.template.format(arg="ARG", **names)
            env = {f"S_{k}": v for k, v in cg.substitutions.items()}
        except Exception:
            expr = None
        bound = getattr(NT, "bound", None)
        steps = []
        for v in valuniv.CORPUS:
            try:
                isinst = bool(isinstance(v, NT))
            except Exception as e:  # noqa
                isinst = False
            emitted = "skip"
            if expr is not None and (bound is None or isinstance(v, bound)):
                try:
                    emitted = "T" if eval(expr, dict(env, ARG=v)) else "F"
                except Exception:
                    emitted = "skip" if bound is None else "ERR"
            disp = []
            for ov in ovs:
                try:
                    disp.append(ov(v))
                except TypeError as e:
                    disp.append("AMB" if str(e).startswith("Ambiguous") else "ERR:" + str(e)[:50])
                except Exception as e:  # noqa
                    disp.append("ERR:" + type(e).__name__)
            steps.append({"a": valuniv.arg(v, repr(v)[:20]), "isinst": isinst, "emitted": emitted, "disp": disp})
        for k in [k for k in linecache.cache if k.startswith("<ovld:") or k.startswith("<vf:")]:
            del linecache.cache[k]

        def strip(tt):
            if isinstance(tt, dict):
                return {k: strip(x) for k, x in tt.items() if k != "py"}
            if isinstance(tt, list):
                return [strip(x) for x in tt]
            return tt

        out.append({"id": job["id"], "world": {"parents": valuniv.PARENTS}, "t": strip(t), "py": t["py"],
                    "companions": COMPANIONS, "steps": steps})
    return out


# ---------------------------------------------------------------------------
# C17: overloaded methods in classes
# ---------------------------------------------------------------------------
def class_cases(jobs):
    """job = {id, world:{parents, hosts}, args:[arg class ids]}"""
    import linecache

    from ovld import OvldBase, OvldMC, call_next, extend_super, recurse

    from .observe import classify, describe

    out = []
    for job in jobs:
        w = job["world"]
        argcls = _mk_classes(w["parents"])
        clsid = {c: i for i, c in enumerate(argcls) if c is not None}
        log = []
        ns = {"LOG": log, "OvldMC": OvldMC, "OvldBase": OvldBase, "extend_super": extend_super,
              "call_next": call_next, "recurse": recurse, "ARGS": {}, "BUDGET": [0], "__name__": "vfworld"}
        for c in range(2, len(argcls)):
            ns[f"K{c}"] = argcls[c]
        ns["ARGS"] = {c: (argcls[c]() if c > 1 else object()) for c in range(1, len(argcls))}
        hosts = w["hosts"]
        steps = []
        defined = {}
        bodies = {}
        for k, H in enumerate(hosts, start=1):
            if any(b not in defined for b in H["bases"]):
                break
            bases = [f"H{b}" for b in H["bases"]]
            if H["root"] == "base":
                bases.append("OvldBase")
            head = f"class H{k}({', '.join(bases + (['metaclass=OvldMC'] if H['root'] == 'meta' else []))}):"
            lines = [head, f"    hid = {k}", f"    __tag = {k}"]
            for d in H["body"]:
                bodies[d["id"]] = d
                ann = "object" if d["t"] == 1 else f"K{d['t']}"
                if d["marked"]:
                    lines.append("    @extend_super")
                pn = d.get("pn", "x")
                lines.append(f"    def f(self, {pn}: {ann}):")
                lines.append("        _t = self.__tag        # a private name of the defining class")
                lines.append(f"        _e = [{d['id']!r}, {pn}, None, self]")
                lines.append("        LOG.append(_e)")
                if d["body"] == "next":
                    lines.append(f"        _e[2] = ('next', {pn})")
                    lines.append(f"        return call_next({pn})")
                elif isinstance(d["body"], dict):
                    z = d["body"]["to"]
                    lines.append("        if BUDGET[0] <= 0:")
                    lines.append(f"            return {d['id']!r}")
                    lines.append("        BUDGET[0] -= 1")
                    lines.append(f"        _e[2] = ('recurse', ARGS[{z}])")
                    lines.append(f"        return recurse(ARGS[{z}])")
                else:
                    lines.append(f"        return {d['id']!r}")
            code = "\n".join(lines) + "\n"
            fname = f"<vf:cls{job['id']}-{k}>"
            linecache.cache[fname] = (len(code), None, code.splitlines(True), fname)
            try:
                exec(compile(code, fname, "exec"), ns, ns)
                defined[k] = ns[f"H{k}"]
            except BaseException as e:  # noqa
                steps.append({"op": "defclass", "host": k, "after": k, "result": "config", "err": describe(e)})
                e.__traceback__ = None
                break
            steps.append({"op": "defclass", "host": k, "after": k, "result": "ok"})
            # probe every class defined so far
            for j in sorted(defined):
                cls_ = defined[j]
                if not hasattr(cls_, "f"):
                    continue
                try:
                    inst = cls_()
                except Exception:
                    continue
                names = sorted({d.get("pn", "x") for d in bodies.values()})
                modes = [""] + (names if names != ["x"] else [])
                for a, bykw in [(a, n_) for n_ in modes for a in job["args"]]:
                    del log[:]
                    ns["BUDGET"][0] = 2
                    obs = {"resolve": {"kind": "skip", "m": ""}, "slf": "ok"}
                    try:
                        if bykw:
                            # the dispatched parameter given by keyword (judged only when every method of the
                            # class's overload set calls it that)
                            inst.f(**{bykw: ns["ARGS"][a]})
                        else:
                            inst.f(ns["ARGS"][a])
                        obs["kind"] = "run"
                    except BaseException as e:  # noqa
                        obs["kind"] = classify(e)
                        obs["err"] = describe(e)
                        e.__traceback__ = None
                    ent = []
                    for mid, x, nxt, slf in log:
                        if slf is not inst:
                            obs["slf"] = "bad"
                        c1 = {"pos": [{"c": clsid.get(type(x), 0)}], "kwn": [], "kwa": []}
                        if nxt is None:
                            nd = {"has": False, "via": "", "call": {"pos": [], "kwn": [], "kwa": []}}
                        else:
                            nd = {"has": True, "via": nxt[0], "call": {"pos": [{"c": clsid.get(type(nxt[1]), 0)}], "kwn": [], "kwa": []}}
                        ent.append({"m": mid, "call": c1, "next": nd})
                    obs["entered"] = ent
                    steps.append({"op": "probe", "host": j, "after": k, "bykw": bykw, "call": {"pos": [{"c": a}], "kwn": [], "kwa": []}, "obs": obs})
        for kk in [kk for kk in linecache.cache if kk.startswith("<ovld:") or kk.startswith("<vf:")]:
            del linecache.cache[kk]
        out.append({"id": job["id"], "props": ["C17"], "world": w, "steps": steps})
    return out


# ---------------------------------------------------------------------------
# C09: source rewriting
# ---------------------------------------------------------------------------
def recode_cases(jobs):
    """job = {id, prog, wrapper}: render once; run registered on a real Ovld
    and unregistered with recurse / call_next / own name as ordinary callables."""
    import linecache

    from ovld import Ovld, call_next, recurse

    from . import progs

    class Boom(Exception):
        def __init__(self, i):
            super().__init__(i)
            self.i = i

    out = []
    for job in jobs:
        src, offset = progs.render(job["prog"], job["wrapper"])
        wrapper = job["wrapper"]

        def run(registered):
            log = []
            depth = [0]

            def ev(i):
                log.append(f"L{i}")
                return i

            def boom(i):
                log.append(f"L{i}")
                raise Boom(i)

            def sv(i):
                log.append(f"L{i}")
                return f"s{i}"

            ns = {"LOG": log, "DEPTH": depth, "ev": ev, "boom": boom, "sv": sv, "IDENT": (lambda v: v), "__name__": "vfprog"}
            fname = f"<vf:prog{job['id']}-{int(registered)}>"
            linecache.cache[fname] = (len(src), None, src.splitlines(True), fname)
            res = {"ev": [], "val": 0, "err": 0, "built": "ok", "tb": "none", "lines": []}
            host = None
            try:
                if registered:
                    ns["recurse"] = recurse
                    ns["call_next"] = call_next
                    exec(compile(src, fname, "exec"), ns, ns)
                    top = ns["make"](7) if wrapper == "closure" else ns["m_top"]
                    ov = Ovld()
                    ov.register(top, priority=1)
                    ov.register(ns["m_next"], priority=0)
                    ns["F"] = ov.dispatch
                    if wrapper == "self":
                        host = type("Host", (), {"f": ov.dispatch, "__module__": "vfprog"})()
                        call = lambda: host.f(5)  # noqa
                    else:
                        call = lambda: ov.dispatch(5)  # noqa
                    # force the build (a refused placement shows here)
                    ov.compile()
                else:
                    holder = {}

                    def o_recurse(x, y=0, *, k=0):
                        if not isinstance(x, int):
                            raise TypeError("No method (oracle)")
                        if wrapper == "twopos":
                            return holder["top"](x, y)
                        return holder["top"](x, k=k) if host is None else holder["top"](host, x, k=k)

                    def o_next(x, y=0, *, k=0):
                        if not isinstance(x, int):
                            raise TypeError("No method (oracle)")
                        if wrapper == "twopos":
                            return ns["m_next"](x, y)
                        return ns["m_next"](x, k=k) if host is None else ns["m_next"](host, x, k=k)

                    ns["recurse"] = o_recurse
                    ns["call_next"] = o_next
                    # (with self: the function's own name is not bound - it is called in full, F(self, x))
                    ns["F"] = (lambda h_, *a_, **k_: o_recurse(*a_, **k_)) if wrapper == "self" else o_recurse
                    exec(compile(src, fname, "exec"), ns, ns)
                    holder["top"] = ns["make"](7) if wrapper == "closure" else ns["m_top"]
                    if wrapper == "self":
                        host = object()
                        call = lambda: holder["top"](host, 5)  # noqa
                    else:
                        call = lambda: holder["top"](5)  # noqa
            except BaseException as e:  # noqa
                res["built"] = f"{type(e).__name__}: {str(e)[:120]}"
                return res
            try:
                v = call()
                if wrapper == "generator":
                    v = next(v)
                res["val"] = int(v)
            except (Boom, TypeError) as e:
                if isinstance(e, TypeError) and not str(e).startswith("No method"):
                    res["built"] = f"run: TypeError: {str(e)[:120]}"
                    res["ev"] = list(log)
                    e.__traceback__ = None
                    return res
                res["err"] = e.i if isinstance(e, Boom) else 77
                tb = e.__traceback__
                lines = []
                while tb is not None:
                    if tb.tb_frame.f_code.co_filename == fname:
                        lines.append(tb.tb_lineno)
                    tb = tb.tb_next
                res["lines"] = lines
                e.__traceback__ = None
            except BaseException as e:  # noqa
                res["built"] = f"run: {type(e).__name__}: {str(e)[:120]}"
                e.__traceback__ = None
            res["ev"] = list(log)
            return res

        u = run(False)
        r = run(True)
        if r["err"] == 77 and (u["err"] != 77 or len(r["ev"]) < len(u["ev"])):
            # the library could not dispatch a call the program's meaning dispatches: a refused placement
            r["built"] = "run: TypeError: No method (call site could not be dispatched)"
            r["err"] = 0
        if r["err"] and u["err"]:
            # file and line of every frame, down to the raising leaf; a frame the rewriting adds at the *same* line (call sites
            # in a comprehension iterable become an immediately applied lambda) still points at the original line
            def squeeze(ls):
                return [x for j, x in enumerate(ls) if j == 0 or ls[j - 1] != x]

            r["tb"] = "ok" if squeeze(r["lines"]) == squeeze(u["lines"]) and r["lines"] else "bad"
        for k in [k for k in linecache.cache if k.startswith("<ovld:") or k.startswith("<vf:")]:
            del linecache.cache[k]
        out.append({"id": job["id"], "prog": job["prog"], "wrapper": wrapper, "offset": offset, "src": src,
                    "reg": {k: r[k] for k in ("ev", "val", "err", "built", "tb")},
                    "unreg": {k: u[k] for k in ("ev", "val", "err", "built", "tb")}})
    return out


def deferred_tables(jobs):
    """C13: Deferred["pkg.sub.Cls"] / Deferred["mod.Cls"] declared before the
    module is imported; tables recorded after the import.  Universe:
    classes 1 object, 2 Shape, 3 Square(Shape), 4 Other (same package module),
    5 Thing (top-level module), 6 int; types = the classes + the two deferred."""
    import importlib
    import os
    import shutil
    import sys
    import tempfile

    from ovld import Ovld, subclasscheck, typeorder
    from ovld.types import Deferred

    out = []
    for job in jobs:
        tag = f"{os.getpid()}_{job['n']}"
        root = tempfile.mkdtemp(prefix="vfdef-", dir=job["dir"])
        pkg, top = f"vfdp_{tag}", f"vfdt_{tag}"
        os.mkdir(os.path.join(root, pkg))
        open(os.path.join(root, pkg, "__init__.py"), "w").write("")
        open(os.path.join(root, pkg, "sub.py"), "w").write("class Shape:\n    pass\nclass Square(Shape):\n    pass\nclass Other:\n    pass\n")
        open(os.path.join(root, top + ".py"), "w").write("class Thing:\n    pass\n")
        sys.path.insert(0, root)
        try:
            assert pkg not in sys.modules and top not in sys.modules
            D1 = Deferred[f"{pkg}.sub.Shape"]
            D2 = Deferred[f"{top}.Thing"]
            # functions declared while the modules are not imported
            fs = {}
            for nme, D in (("d1", D1), ("d2", D2)):
                ns = {"TT": D}
                exec("def mt(x: TT):\n    return 'T'\ndef mo(x: object):\n    return 'O'\n", ns)
                ov = Ovld()
                ov.register(ns["mt"])
                ov.register(ns["mo"])
                fs[nme] = ov
            # both deferred classes on one function (two types that are not resolved yet, at the same position)
            nsb = {"T1": D1, "T2": D2}
            exec("def mt1(x: T1):\n    return 'T1'\ndef mt2(x: T2):\n    return 'T2'\ndef mo(x: object):\n    return 'O'\n", nsb)
            both = Ovld()
            for nme in ("mt1", "mt2", "mo"):
                both.register(nsb[nme])
            pre = {nme: fs[nme](5) for nme in fs}  # a first use before the import
            pre_both = both(5)
            sub = importlib.import_module(f"{pkg}.sub")
            topm = importlib.import_module(top)
            classes = [None, object, sub.Shape, sub.Square, sub.Other, topm.Thing, int]
            types = [{"k": "cls", "c": c} for c in range(1, 7)] + [{"k": "deferred", "c": 2}, {"k": "deferred", "c": 5}]
            real = classes[1:] + [D1, D2]
            rows = {}
            for i, a in enumerate(real, start=1):
                orow, srow = [], []
                for b in real:
                    try:
                        orow.append(typeorder(a, b).name)
                    except Exception as e:  # noqa
                        orow.append("ERR:" + type(e).__name__)
                    try:
                        srow.append(bool(subclasscheck(a, b)))
                    except Exception as e:  # noqa
                        srow.append("ERR:" + type(e).__name__)
                rec = {"order": orow, "subtt": srow}
                if i in (7, 8):
                    ov = fs["d1" if i == 7 else "d2"]
                    sc, dp = [], []
                    for c in range(1, 7):
                        try:
                            sc.append(bool(subclasscheck(classes[c], a)))
                        except Exception as e:  # noqa
                            sc.append("ERR:" + type(e).__name__)
                        try:
                            dp.append(ov(5 if c == 6 else classes[c]()))
                        except TypeError as e:
                            dp.append("AMB" if str(e).startswith("Ambiguous") else "ERR:" + str(e)[:40])
                        except Exception as e:  # noqa
                            dp.append("ERR:" + type(e).__name__)
                    rec["clssub"] = sc
                    rec["dispatch"] = dp
                    mine, other = ("T1", "T2") if i == 7 else ("T2", "T1")
                    db = []
                    for c in range(1, 7):
                        try:
                            v = both(5 if c == 6 else classes[c]())
                            db.append("T" if v == mine else "X" if v == other else v)
                        except TypeError as e:
                            db.append("AMB" if str(e).startswith("Ambiguous") else "ERR:" + str(e)[:40])
                        except Exception as e:  # noqa
                            db.append("ERR:" + type(e).__name__)
                    rec["dispatch_both"] = db
                rows[str(i)] = rec
            loaded = Deferred[f"{pkg}.sub.Shape"] is sub.Shape
            out.append({"id": job["id"], "types": types, "rows": rows, "parents": [[], [1], [2], [1], [1], [1]],
                        "attrs": [[], [], [], [], [], []], "pre": pre, "pre_both": pre_both, "loaded_returns_class": loaded})
        finally:
            sys.path.remove(root)
            for m in [m for m in sys.modules if m.startswith(pkg) or m == top]:
                del sys.modules[m]
            shutil.rmtree(root, ignore_errors=True)
    return out
