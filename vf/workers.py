"""Module-level worker functions (run in fresh processes by vf.pool)."""

import traceback


def static_cases(jobs):
    """job = {id, props, world, calls}; returns recorded cases."""
    from .observe import Observer
    from .realize import BuiltWorld

    out = []
    for job in jobs:
        try:
            bw = BuiltWorld(job["world"])
            fs = bw.build_functions()
        except Exception as e:  # cannot realise (e.g. no C3 linearisation)
            out.append({"id": job["id"], "skip": f"{type(e).__name__}: {e}"})
            continue
        ob = Observer(bw)
        steps = []
        budget = job.get("budget", 0)
        try:
            for call in job["calls"]:
                bw.ns["BUDGET"][0] = budget
                if job.get("argmap"):
                    bw.ns["ARG"].update({k: bw.instance(c) for k, c in job["argmap"].items()})
                steps.append({"call": call, "obs": ob.call(fs[job.get("f", 1)], call, resolve=job.get("resolve", True))})
        except Exception as e:
            out.append({"id": job["id"], "skip": "harness: " + traceback.format_exc()[-400:]})
            bw.cleanup()
            continue
        out.append({"id": job["id"], "props": job["props"], "world": job["world"], "steps": steps})
        bw.cleanup()
    return out


def _order_fn(mode):
    """Harness-chosen iteration order for the order hook: canonicalise by a
    stable key first so that the chosen order does not depend on hashing."""
    import random as _r

    def key(x):
        if isinstance(x, tuple) and x and callable(x[0]):
            x = x[0]
        return (getattr(x, "__name__", None) or repr(x), repr(x))

    def fn(site, xs):
        try:
            li = sorted(list(xs), key=key)
        except Exception:
            li = list(xs)
        if mode == "sorted":
            return li
        if mode == "reverse":
            return li[::-1]
        if mode.startswith("shuffle:"):
            _r.Random(mode + site + str(len(li))).shuffle(li)
            return li
        if mode.startswith("rotate:"):
            k = int(mode.split(":")[1]) % max(1, len(li))
            return li[k:] + li[:k]
        return li

    return fn


def context_cases(jobs):
    """job = {id, world, call, contexts:[{name, methods, order}]}: the same call
    in several contexts; returns a case whose steps are the contexts."""
    from ovld import _verif

    from .observe import Observer
    from .realize import BuiltWorld

    out = []
    keep = []
    for job in jobs:
        steps = []
        skip = None
        for ctx in job["contexts"]:
            w = dict(job["world"])
            w["methods"] = ctx["methods"]
            if ctx.get("junk"):
                keep.append([object() for _ in range(ctx["junk"])])
            try:
                bw = BuiltWorld(w)
                fs = bw.build_functions()
            except Exception as e:
                skip = f"{type(e).__name__}: {e}"
                break
            ob = Observer(bw)
            if ctx.get("order"):
                _verif.install(order=_order_fn(ctx["order"]))
            try:
                obs = ob.call(fs[1], job["call"], resolve=False)
                if ctx.get("again"):
                    obs = ob.call(fs[1], job["call"], resolve=False)
            finally:
                _verif.install()
            steps.append({"call": job["call"], "methods": ctx["methods"], "ctx": ctx["name"], "obs": obs})
            bw.cleanup()
        if skip:
            out.append({"id": job["id"], "skip": skip})
        else:
            out.append({"id": job["id"], "props": job["props"], "world": {k: v for k, v in job["world"].items() if k != "methods"} | {"methods": job["contexts"][0]["methods"]}, "steps": steps})
    return out
