"""Single source for MANIFEST.json (bin/mkmanifest writes the file)."""

TITLES = {}

HOOK_COMMITS = ["9144a7f", "269897c", "35d9d57"]

LEVEL = {
    "category": "model_checking",
}

CHECKS = {
    "C01": dict(
        technique="TLA+ Doc-layer trace judge (Trace_Resolve: accepts.*) over recorded method-body entries + TLC model check EnterSound/ChainSound of MC_Resolve",
        text="Every method body entered on the real code (direct, call_next, f.next) over exhaustive small-scope and seeded random worlds is judged by TLC against the Doc-layer Applicable predicate; MC_Resolve proves within its bound that the Impl-layer resolution (levels, sort key, _pull, continuation entries) only ever selects applicable methods. Bounded exhaustive + random, so model_checking rather than proof.",
        note="Trusts: the harness's generated method bodies report what they receive; Python's issubclass; the Doc reading of Appendix A. Bounds in DESIGN 3.3.",
        ref="5 C01",
    ),
    "C02": dict(
        technique="TLC model check Impl=>Doc (MC_Resolve: DocImplAgree, Deterministic) + discrepancy census replayed on the real code + TLA+ Doc-layer trace judge (Trace_Resolve: winner/ambiguous/nomethod/resolve_agrees/no_body_on_error)",
        text="The documented priority-then-specificity rule is written once in TLA+ (Resolve.tla). TLC checks the implementation-shaped model against it over every class DAG / method set / call of the bound, and judges every outcome recorded from the real code (exhaustive small scope, curated shapes, seeded random worlds with ABCs, protocols, optional positionals, keyword-only parameters, priorities, re-registrations).",
        note="Trusts: error-kind classification by raise site; Doc reading decisions (Rejected accepted for NoMethod only for unknown call shapes). Known finding KF-levels is matched by input signature AND Impl-layer prediction.",
        ref="5 C02",
    ),
    "C07": dict(
        technique="TLA+ Doc-layer chain semantics (Resolve.tla NextOutcome) judged by TLC on recorded call_next/f.next chains + TLC model check ChainAgree of MC_Resolve",
        text="Bodies that delegate with call_next / f.next record the order in which they are entered; TLC checks each chain against the Doc definition (next = outcome with the caller and everything above it removed; ends with NoMethod / Ambiguous; each method at most once) and model-checks the continuation-entry logic of the table against it.",
        note="Trusts: as C02. A caller lying under a tied rank is unspecified by the statement: any error kind accepted there.",
        ref="5 C07",
    ),
}

CHECKS["C06"] = dict(
    technique="TLC model check over all tie orders (MC_Resolve: Deterministic, IrrelevantFree) + real code run in forced iteration orders (order hook), permuted registration, added non-applicable methods, hash seeds; compared by the TLA+ judge (Trace_Resolve C06Clause, premise checked by the Doc layer)",
    text="The set-iteration order is an explicit nondeterministic choice in the Impl layer and TLC checks that every choice gives one outcome and that removing a non-applicable method never changes it; on the real code the guarded order hook forces sorted / reversed / shuffled / rotated iteration at the three set-iteration sites, and the same call is repeated under permuted registration, irrelevant extra methods, garbage allocation and several PYTHONHASHSEEDs in fresh processes. TLC verifies the premise (same applicable methods) with the Doc layer and demands equal outcomes.",
    note="Trusts: the three hooked sites are the only order-sensitive iteration in the resolution path (hash seeds and fresh class objects vary the rest). Outcome = kind + chain of entered methods; message texts are not compared.",
    ref="5 C06",
)

PENDING_REASON = "check not built yet in this round (planned, see DESIGN section 10)"
