"""Single source for MANIFEST.json (bin/mkmanifest writes the file)."""

TITLES = {}

HOOK_COMMITS = ["9144a7f", "269897c", "35d9d57"]

LEVEL = {
    "category": "model_checking",
}

CHECKS = {
    "C01": dict(
        technique="TLA+ Doc-layer trace judge (Trace_Resolve: accepts.*) over recorded method-body entries + TLC model check EnterSound/ChainSound of MC_Resolve",
        text="Every method body entered on the real code (direct, call_next, f.next) over exhaustive small-scope and seeded random worlds is judged by TLC against the Doc-layer Applicable predicate; MC_Resolve proves within its bound that the Impl-layer resolution (levels, sort key, _pull, continuation entries) only ever selects applicable methods. Bounded exhaustive + random, so model_checking rather than proof.",
        note="Trusts: the harness's generated method bodies report what they receive; Python's issubclass; the Doc reading of Appendix A. Bounds in DESIGN 3.3.",
        ref="5 C01",
    ),
    "C02": dict(
        technique="TLC model check Impl=>Doc (MC_Resolve: DocImplAgree, Deterministic) + discrepancy census replayed on the real code + TLA+ Doc-layer trace judge (Trace_Resolve: winner/ambiguous/nomethod/resolve_agrees/no_body_on_error)",
        text="The documented priority-then-specificity rule is written once in TLA+ (Resolve.tla). TLC checks the implementation-shaped model against it over every class DAG / method set / call of the bound, and judges every outcome recorded from the real code (exhaustive small scope, curated shapes, seeded random worlds with ABCs, protocols, optional positionals, keyword-only parameters, priorities, re-registrations).",
        note="Trusts: error-kind classification by raise site; Doc reading decisions (Rejected accepted for NoMethod only for unknown call shapes). (The level artefact that used to be a known finding here is repaired.)",
        ref="5 C02",
    ),
    "C07": dict(
        technique="TLA+ Doc-layer chain semantics (Resolve.tla NextOutcome) judged by TLC on recorded call_next/f.next chains + TLC model check ChainAgree of MC_Resolve",
        text="Bodies that delegate with call_next / f.next record the order in which they are entered; TLC checks each chain against the Doc definition (next = outcome with the caller and everything above it removed; ends with NoMethod / Ambiguous; each method at most once) and model-checks the continuation-entry logic of the table against it.",
        note="Trusts: as C02. A caller lying under a tied rank is unspecified by the statement: any error kind accepted there.",
        ref="5 C07",
    ),
}

CHECKS["C06"] = dict(
    technique="TLC model check over all tie orders (MC_Resolve: Deterministic, IrrelevantFree) + real code run in forced iteration orders (order hook), permuted registration, added non-applicable methods, hash seeds; compared by the TLA+ judge (Trace_Resolve C06Clause, premise checked by the Doc layer)",
    text="The set-iteration order is an explicit nondeterministic choice in the Impl layer and TLC checks that every choice gives one outcome and that removing a non-applicable method never changes it; on the real code the guarded order hook forces sorted / reversed / shuffled / rotated iteration at the three set-iteration sites, and the same call is repeated under permuted registration, irrelevant extra methods, garbage allocation and several PYTHONHASHSEEDs in fresh processes. TLC verifies the premise (same applicable methods) with the Doc layer and demands equal outcomes.",
    note="Trusts: the three hooked sites are the only order-sensitive iteration in the resolution path (hash seeds and fresh class objects vary the rest). Outcome = kind + chain of entered methods; message texts are not compared.",
    ref="5 C06",
)

_HIST = dict(
    note="Trusts: oracle = same call on a brand-new function/table built from the method set that Trace_Table tracks itself (premise checked); bodies deterministic. Table.tla mirrors typemap.py; its agreement with the code is checked on every replayed step (SPEC-DRIFT otherwise).",
)
CHECKS["C04"] = dict(
    technique="TLC model check of the table state machine (Table.tla: CacheInvisible over all lookup histories) + TLC-generated behaviours replayed on a real MultiTypeMap with state projection compared per step + function-level random histories judged by Trace_Table (same_as_fresh)",
    text="Table.tla models the type-tuple table, the remembered errors, the candidate sets and the per-position caches with one action per critical section; TLC checks in every reachable cache state that every direct and continuation lookup returns what a brand-new table would. Behaviours generated from that module are replayed on the real table, and random call histories (repeats, failing calls, nested call_next / recurse with other argument types) on real functions are compared call by call with a freshly built function.",
    ref="5 C04", **_HIST)
CHECKS["C05"] = dict(
    technique="TLC model check of Table.tla with Register actions (CacheInvisible, TmCacheFresh) + behaviours replayed on a real MultiTypeMap + random register/re-register/unregister/call histories on a real Ovld judged by Trace_Table (method set tracked by the spec; same_as_rebuilt)",
    text="As C04 with the method set changing: registrations (including identical signatures), unregistrations and calls interleaved at any point; after every change every call is compared with a brand-new function built from the method set the TLA+ trace specification tracks. At table level TLC found the stale remembered error (fixed, 17f9f87) and replay confirmed it on the real code.",
    ref="5 C05", **_HIST)
CHECKS["C20"] = dict(
    technique="TLA+ action property ResolveOnce on Table.tla (TLC) + trace judge Trace_Table (no_recompute_after_success) over invocation counters of user class predicates and of the guarded tm.miss / mtm.miss hooks",
    text="After a call with a given argument-type combination succeeded, repeating it (directly or from inside methods) must not consult user class predicates again, must not re-run the per-position type ordering and must not re-enter table resolution for the plain key until the method set changes; Trace_Table tracks the epoch and the set of successful combinations and checks the recorded counter deltas.",
    note="Trusts: counters = user class_check predicates (hook-free) plus the guarded hooks tm.miss / mtm.miss; predicates nested in value-dependent types are out of scope (Appendix A).",
    ref="5 C20")

CHECKS["C03"] = dict(
    technique="TLC model check of the argument analyser + generated entry point against Python's binding rule (MC_Entry: AcceptWhenPromised, ForwardIntact, NeverBadForward, NoDropKw) + TLA+ trace judge Trace_Entry over identity-level recordings of what every parameter received",
    text="Entry.tla states Python's own binding of a call shape to a method signature and the documented acceptance rules (Doc) and transcribes the argument analyser and the generated entry point with its early-exit branches (Impl); TLC checks them against each other over every pair of signatures of a parameter menu and every call shape. On the real code every call uses distinct fresh objects, per-(method, parameter) default sentinels, per-method return sentinels and pre-built exceptions, so dropped keywords, foreign defaults, placeholders and altered results are distinguishable; Trace_Entry judges each recording.",
    note="Trusts: identity tokens computed by the harness; MustAccept is the conservative reading of docs/usage.md; which method is selected is C02's concern. Three defects found here were fixed (keyword forwarding, strictly-positional rule, zero-argument calls).",
    ref="5 C03")

CHECKS["C16"] = dict(
    technique="TLC model check of the function-graph state machine (Ovld.tla: UsedConsistent, RefusalJustified, ParentsUntouched) + TLC-generated behaviours replayed on real Ovld objects + trace judge Trace_Ovld tracking the Doc overlay from the observed history",
    text="Ovld.tla models creation with mixins / linkback, add_mixins, register with push-down, unregister, first use (lock propagation, rebuild of linked children). TLC checks that every node in use dispatches over the current overlay of everything it derives from, found the missing deep lock and the missing rebuild in add_mixins (both fixed) and verified the repaired rule. Behaviours generated from the module are replayed on the real library; Trace_Ovld re-derives Eff(n) from the observed accept/refuse outcomes and compares every probe with a brand-new function holding Eff(n).",
    note="Trusts: oracle function built by the harness from Eff(n), which the judge re-derives and compares (premise); probes only call nodes the history has already put to use (a probe is itself a use).",
    ref="5 C16")
CHECKS["C08"] = dict(
    technique="recursion probes on the graphs and build orders of TLC-generated Ovld.tla behaviours, judged by Trace_Ovld (reenters_dispatcher)",
    text="On every node of every replayed behaviour the harness registers a marker method, a recursive method on a node-specific class and (roots) an intermediate recursive method, so that R<a> -> Mid -> Leaf walks through recurse three levels deep; whenever a node is in use, entering it through the recursive method inherited from each ancestor must come back with that node's own marker. Graph shapes, linkback flags, use orders and interleaved modifications come from the TLA+ model.",
    note="Trusts: marker methods reveal the function a recursion entered. Naming the function itself is only constrained for the function's own calls (statement), which no rewriting can change; it is not separately probed.",
    ref="5 C08")

CHECKS["C18"] = dict(
    category="fault_enumeration",
    technique="TLA+ model of the build as steps with Fail actions (Build.tla, TLC: AnswersCorrect, RecoversAfterRemoval) + systematic fault injection on the real code at every hook point and executed library line + natural fault sources, probes judged by the Doc resolution rule (Trace_Resolve C18Clause) + TLC trace validation (Trace_Build.tla) of build-event traces recorded from the real code, with and without faults, against Build.tla",
    text="Every way the property names for a build to fail is enumerated on the real code: an invalid method (four kinds) at every registration position, a user hook raising on its n-th invocation, and an injected exception at every guarded hook point and at sampled (quick) / every (thorough) executed source line of the library, during first build, rebuild after a change and cache-miss resolution. After each fault three probe calls, the removal of the offender and three more probes are judged by TLC against the documented resolution rule: configuration error or the answer over the complete registered set, never a partial table. Build.tla states the same as a step machine; its pinned configuration reproduces the original defect as a TLC counter-example, the repaired one is verified (one thread, and two threads with faults). The model is bound to the code by trace validation: the hook events of real builds (lock held, new table, entry point generated, each registration, swap, built flag, call results), recorded with a fault injected at each of the builder's hooks while a second thread races it, are checked by TLC to be behaviours of Build.tla; an unexplained event is reported as SPEC-DRIFT.",
    note="Trusts: interrupt granularity = executed source line (trace function raising); configuration error = exception raised out of the build or the injected fault; the failing action itself is not judged, only what follows.",
    ref="5 C18")
CHECKS["C19"] = dict(
    technique="TLA+ model of concurrent builds (Build.tla with threads, TLC: EachAsAlone, FinalStateCorrect, all interleavings) + cooperative scheduler over real threads exploring single / double / targeted triple pre-emption schedules at hook and source-line granularity, results judged by the Doc resolution rule (Trace_Resolve C19Clause) + TLC trace validation (Trace_Build.tla) of the hook-event traces of those schedules against Build.tla",
    text="Real threading threads are serialised by a cooperative scheduler whose scheduling points are the guarded hook points or every executed library line; schedules are enumerated systematically (every single pre-emption at hook level; sampled or all at line level; A-to-a / B-to-b / A-resumes pairs; the late-rebuild pattern that catches a missing double check) over racing first calls, racing cache misses for equal and different argument types and racing call_next chains. Each thread's outcome and three later probes must be what the call returns alone. Build.tla explores all interleavings of the model; its pinned configuration reproduces the original race. Trace validation binds the model to the code: the build events of every hook-level schedule (and sampled line-level ones) are checked by TLC to be behaviours of Build.tla, unlogged steps (lock acquisition / release, dispatch) being composed with the logged ones; removing the double check of the built flag makes 236 of 357 recorded traces unexplainable.",
    note="Trusts: line-granular pre-emption (no intra-line bytecode races); the scheduler treats a thread that makes no progress for 40 ms as blocked on a lock. Concurrent registration while calling is out of scope (the statement says 'fully defined').",
    ref="5 C19")

CHECKS["C12"] = dict(
    technique="TLC model check of the laws on the Impl transcription of typeorder (MC_Types over all class DAGs and all unions / intersections of two classes) + the laws evaluated by TLC (Trace_Types) on the full typeorder table recorded from the real library over a universe of types",
    text="The laws the statement lists (mirror image, reflexivity, coincidence with subclassing, generic below origin and argument-wise, union above / intersection below members, dependent below bound) are TLA+ operators; TLC checks them on the implementation-shaped model of typeorder for classes, unions and intersections over every class DAG of the bound, and on the complete table typeorder(a, b) recorded from the real code for every ordered pair of a universe covering every constructor and depth-2 nestings. The model check found the overlapping-union asymmetry (fixed).",
    note="Trusts: the table recorder; laws only, no full reference order. Known finding KF-crossfamily-order covers mirror asymmetries between hook-defined types of different families only.",
    ref="5 C12")
CHECKS["C13"] = dict(
    technique="documented meaning Sat of every static type as a TLA+ operator, evaluated by TLC (Trace_Types) against subclasscheck and real dispatch recorded for every class x type of the universe; subtype laws on the recorded subclasscheck table",
    text="For every static type of the universe (classes incl. ABC registration and multiple inheritance, unions, intersections, Exactly, StrictSubclass, HasMethod and their nestings) and every class, TLC compares subclasscheck(class, T) and the outcome of dispatching {f(x: T), f(x: object)} on an instance with the structural definition Sat; reflexivity, transitivity on the class / generic fragment, agreement with issubclass and argument-wise covariance are checked on the recorded type x type table.",
    note="Trusts: Sat as written in Trace_Types (union: some arm, intersection: all arms, Exactly: identical, StrictSubclass: proper subclass, HasMethod: attribute present). Deferred classes are exercised separately only through the test-suite (needs an un-imported module).",
    ref="5 C13")

CHECKS["C14"] = dict(
    technique="Doc subtype relation on passed type objects (Types.tla SubElem) checked by TLC as premise, then the documented resolution rule (Trace_Resolve C14Clause = C01 + C02 clauses) on recordings of real calls that pass classes, parametrised and nested generics and typing.Any",
    text="The objects passed as arguments are element terms; TLC verifies that the annotation poset handed to the resolution rule is exactly SubElem (class: subclass; generic: same-or-super origin and argument-wise; Any = object; bare type = type[object]) and then judges which type[...] method ran, with an ordinary class-dispatched argument in the other position and the type-valued argument in first or second position.",
    note="Trusts: realisation of element terms as Python objects. The resolution rule itself is model-checked in MC_Resolve (C02).",
    ref="5 C14")

CHECKS["C15"] = dict(
    technique="Doc denotation of annotation spellings as a TLA+ operator (Trace_Spell Canon), checked by TLC as premise, then equality of recorded outcomes of two functions that differ only in the spelling, in six surrounding method sets; MC_Types PermutedSame on the Impl order",
    text="Every listed equivalence (Union / | / tuple in any member order and nesting, Optional vs | None, missing / Any / object, Annotated, string annotations, list vs typing.List, Literal value orders) is generated as ordered pairs; for each pair and each surrounding method set - including a same-signature sibling, so that 're-registration replaces' is exercised across spellings - two real functions are built and called with a corpus of arguments; TLC verifies the pair is equivalent under Canon and that all outcomes coincide.",
    note="Trusts: realisation of spelling terms as Python annotations. (A, None) written as a tuple is not among the statement's listed forms and is not generated.",
    ref="5 C15")

CHECKS["C10"] = dict(
    technique="TLC model check of the generated per-rank dispatcher (Dependent.tla: three strategies, fall-through wiring) against the Doc value-level outcome (MC_Dep: EnterSoundV, ValueAgree, DeterministicV) + TLA+ trace judge (Trace_Resolve C10Clause: runs_iff_holds, value_outcome, bound_guard) on recordings with extensional, logging user conditions",
    text="The Doc layer states value-level applicability (Holds) and the documented order (a dependent type before every static type comparable with its bound, equal bounds unordered); TLC checks the implementation-shaped model of rank wrappers / strategy selection / fall-through against it and judges real runs of random mixtures of Dependent, Literal and static methods over a named value universe: which body ran, that it holds, that the outcome is the documented one, and that no condition was asked about a value outside its bound. Four defects found here were fixed; KF-pull-rank and the cross-position form of KF-levels remain known findings.",
    note="Trusts: predicates given as sets of values; unions of dependents are judged for applicability and bound guard only. KF matching for dependent worlds is by input signature (no Impl prediction for two positions).",
    ref="5 C10")
CHECKS["C11"] = dict(
    technique="TLA+ trace judge Trace_Value (dispatch_iff_isinstance, path_independent, emitted_iff_isinstance, literal_iff_equal / holds_iff_isinstance with Doc Holds) over every built-in value type x corpus value x companion method set; MC_Dep for the dispatcher strategies",
    text="For every type of a closure of the built-in value-type constructors and every corpus value three observations are recorded - isinstance, the generated checking expression evaluated directly, and real dispatch inside five companion method sets that force the lookup-table, if-chain and counting code paths - and TLC checks that they all agree with each other and, where the Doc layer defines the meaning (Literal: equality; tuple[...]; shallow element checks; StartsWith / EndsWith / HasKey; & and |), with Holds.",
    note="Trusts: the corpus; Regexp has no TLA+ semantics and is judged against isinstance only (the statement's own oracle). bool and int compare numerically (True == 1).",
    ref="5 C11")

CHECKS["C17"] = dict(
    technique="Doc overload set per class as a TLA+ operator (ClassOvld.tla EffMethods; MC_Class checks its invariants over every hierarchy of the bound) + trace judge Trace_Resolve C17Clause: every probe of every class after every class definition judged with the documented resolution rule over EffMethods",
    text="Class hierarchies (metaclass / OvldBase roots, plain mixin classes, one or two bases, 0-3 same-named definitions, extend_super or not, bodies with call_next and recurse on the bound method) are defined one class at a time on the real library; after every definition every class defined so far is probed with every argument class. TLC computes the documented overload set of each class from the hierarchy description and judges which bodies ran, that self is the instance, and that earlier classes keep their behaviour.",
    note="Trusts: generator avoids the cases the statement leaves open (same annotation from two bases; no own definition under several bases). The marker on a later definition of the body (formerly a known finding) is repaired and generated freely.",
    ref="5 C17")

CHECKS["C09"] = dict(
    category="translation_validation",
    technique="event semantics of method bodies as a TLA+ operator (Recode.tla Eval + grammar WellFormed); three-way comparison by TLC (Trace_Recode) of Eval, the program run unregistered with recurse / call_next as ordinary callables, and the program registered on a real function",
    text="Every program of a grammar that places recurse / call_next / own-name calls (positional, starred, keyword, double-starred) in every expression context is rendered in five wrappers and executed twice; TLC computes the expected event sequence (leaf evaluations exactly once, left to right, dispatches with the values they carry), value and exception from the term and compares both recordings with it, checks that the placement was accepted and that traceback line numbers coincide with the unregistered run. A disagreement between Eval and the unregistered run is a machinery error, never a verdict.",
    note="Trusts: the renderer. The transformation is one pure function, so the family of technique contributes the grammar and the semantics; the decisive comparison is differential. The three refusals of valid placements that were known findings (double-starred call sites, call_next(*args), call site inside a comprehension iterable) are repaired.",
    ref="5 C09")

NOT_APPLICABLE = {}
PENDING_REASON = "check not built yet in this round (planned, see DESIGN section 10)"


# Round 2: what each check gained (appended to `text` by bin/mkmanifest)
ROUND2 = {
 "C01": " The value worlds (Dependent / Literal, unions with dependent members next to a second conditioned position, union-bounded dependents) are judged for the accepts.* clauses as well, in both call orders.",
 "C02": " Re-registrations are also written with renamed parameters. (Beyond the property: the output of display_resolution is judged against the same rule, X2 clauses, reported as EXTRA only.) Re-registrations also declare their keyword-only parameters in the other order (signature identity takes them as a set).",
 "C03": " The generated value dispatchers are covered too: the value worlds of C10 as functions and as same-named methods of an OvldBase class (self, arguments and delegated arguments intact, no bad forward); parameter names that the generated entry point also uses (type, OVLD, KWARGS, TARGS, MISSING - the collision that was a known finding is repaired). (Beyond the property: inspect.signature(f) is checked against the analyser model, X1 clauses, EXTRA only.) Round 2c: ARG1 / ARG2 among the renamed parameters.",
 "C04": " Also: histories on a function one position of which takes both type[...] and instances that compare and hash equal across classes, judged against the first call ever made in a new interpreter. The error object of a failing call must be the call's own (identity across the history).",
 "C05": " Also: random histories on the public MultiTypeMap with Dependent / union / class_check signatures, and changes made by a running method followed by recurse / own name / call_next, judged over the method set after the change. In-flight changes include the registration of the function's first type[...] method followed by a recursion that passes a class. Round 2c: a running method that unregisters itself and recurses. (Beyond the property: histories with hot reloads through Conformer.__conform__ - one implementation step, two specification steps - X5 clauses of Trace_Table, EXTRA only.)",
 "C06": " The context sweep also runs over value worlds (Dependent / Literal, extras not applicable to the values) and over worlds whose arguments are types (keyword-only type[...] parameters made optional by an unrelated method). Round 3: keyed groups whose literals have two values each and share one with the next method (ambiguous in every context).",
 "C07": " Also: chains through the value dispatchers of Dependent / Literal worlds (call_next with the arguments received and with other values), through type[...] worlds with call_next and f.next, factory-made methods sharing a code object delegating with f.next, and f.next from a method with self (formerly a known finding, repaired).",
 "C08": " Also: recurse(a, recurse(b, c)) compared with f(a, f(b, c)); mixed-type Literal signatures; a change made on the parent of a linked variant while a call on the variant is running, followed by recurse / call_next. Round 2c: every behaviour is replayed a second time with probes only at its use steps (nodes rebuilt several times without serving a call).",
 "C09": " The grammar also has sites passing the positional parameter by keyword, recurse / the own name used as a value, a multi-line literal in an indented definition and a local that shadows `type`. Round 2b: keyword-first call sites (arguments evaluate in the order written), nested defs / lambdas that shadow the rewritten names, a class statement inside the method, postponed annotations, an empty closure cell, own-name sites written in full under the self wrapper. Round 2c: a nested lambda capturing recurse as the default of a parameter of the same name; a comprehension written directly in a class body inside the method. Round 3: wrapper twopos (two positional parameters, the second argument of every call site written y=..: both positionals by keyword in either order).",
 "C10": " Worlds also have dependents bounded by a union of classes (both spellings), a union with a dependent member next to a second conditioned position, and a value-dependent keyword-only parameter as the only parameter; known-finding attribution requires the Impl prediction of value dispatch. Round 2b: dependents bounded by value-dependent types (bound checked at value level), keyword parameters named like the generated dispatcher's own names, arguments_intact.",
 "C11": " The universe also has float, enum-member and infinite literals, cross-type twins, unions nested in intersections, literals with nested bounds, a class-level type next to dependent members; the corpus has enum members and unhashable ints. A member class whose __name__ is not an identifier. Round 2c: tuple[X, ...]; Callable[[..], R] is judged beyond the property (X4, EXTRA only).",
 "C12": " Every type is also built a second time (written twice = the same type); generics over a hierarchy of origins (Sequence / list) compare by origin and argument; dependents bounded by mutually-subclass protocols. The written-twice law also covers Dependent[bound, f].",
 "C13": " Each static type is also dispatched as the only method with its parameter optional. The recorded tables also ask subclasscheck about unions as Python writes them (A | B), plain and inside type[...]. Round 3: two deferred classes declared on one function before either module is imported (clause applicable_iff_sat.among_deferred).",
 "C14": " Also: positional-only parameters, a union of type[...] arms, object spelled typing.Any inside annotations, generics over a hierarchy of origins, a metaclass used as an annotation. Round 2b: Dependent[type[X], always], a Literal arm next to type[...] arms, an ordinary base class of a metaclass, Exactly[type] next to a type[...] method with delegation through f.next.",
 "C15": " Annotated[Any, ...] and the string 'Any' are in the missing / Any / object family. The union / Optional / Annotated families are also generated inside type[...]. Round 2c: list / typing.List inside type[...]; (X, None) in the Optional family.",
 "C16": " Also: mixed-type Literal signatures, recursion redirected by an unrelated registration, and a change on a parent whose propagation fails in one linked child (the other children still receive it). The Doc overlay replaces a parent's whole chain of re-registrations under a signature. Round 2c: behaviours of Ovld.tla with an unbuildable signature (failed first uses and failed rebuilds; LockJustified) replayed on real objects. (Beyond the property: Ovld.tla Conform - hot reload of a method of a node in use - model-checked under the same invariants with MC_Ovld_reload*.cfg, behaviours with hot reloads replayed and judged; X5 clauses, EXTRA only.) Round 3: Gen_OvldChain - every history over a chain of three functions (each link with or without linkback) that ends by modifying an indirect ancestor of a function in use, generated exhaustively and replayed.",
 "C17": " Class bodies name the dispatched parameter their own way (keyword probes) and use a private name of the class.",
 "C18": " Also: world W4 (a failed resolution followed by call_next into the failed class), a raising plain-Python __subclasshook__, an invalid method registered on a parent with linked children. An offender on a parent with a copy / variant used first, then removed from the parent. Round 3: a focused sweep in every tier - every executed line of MultiTypeMap.__missing__ / resolve during a cache miss.",
 "C19": " Also: races of calls made on the Ovld object (variants, copies), racing calls that differ in optional keywords on a warm function, call_next with another class racing the first call for that class. Callers that read the function's signature before calling (what a Callable[...] annotation does); recorded build traces are validated together with three corrupted controls that must be rejected. Round 2c: sampled three-thread schedules on the real code; Build.tla with the argument analysis as shared state and peeking threads; in the thorough tier an inductive invariant of Build.tla discharged by Apalache (any number of calls).",
 "C20": " Also: dependents bounded by class predicates, two threads racing the first call with hooks counted afterwards, argument-type combinations tracked across nested calls (keywords written in another order). Recursions guarded by try / except (failed inner resolutions), class predicates in a union with a Literal. Round 2c: class predicates nested inside an intersection inside the union with a Literal. Round 3: class predicates in a union with a value-dependent member whose bound also admits classes the predicate rejects (a remembered 'no' must not be asked again; family C20-und).",
}
