"""A finite universe of ovld types over a small class hierarchy, as index
terms (composite terms refer to members by index), with their realisation as
real Python objects.  Used by C12 / C13 (and the closure for C15)."""

import itertools

# classes: 1 object, 2 A, 3 B(A), 4 C, 5 D(B, C), 6 Abs (ABC; C registered), 7 int, 8 bool(int), 9 str
# 10 P1, 11 P2: two structurally identical runtime protocols (method `ma`): mutual virtual subclasses, implemented by A
PARENTS = [[], [1, 10, 11], [2], [1, 6], [3, 4], [1], [1], [7], [1], [1], [1]]
KINDS = ["object", "plain", "plain", "plain", "plain", "abc", "builtin:int", "builtin:bool", "builtin:str", "proto:ma", "proto:ma"]
VIRT = [[4, 6], [2, 10], [2, 11]]
EQUIV = [[10, 11]]
ATTRS = [[], ["ma"], [], ["mc"], [], [], [], [], [], ["ma"], ["ma"]]
NCLS = len(PARENTS)


def universe(depth2=True, big=False):
    T = []
    index = {}

    def add(t):
        key = repr(sorted(t.items()))
        if key in index:
            return index[key]
        T.append(t)
        index[key] = len(T)  # 1-based
        return len(T)

    cls = {c: add({"k": "cls", "c": c}) for c in range(1, NCLS + 1)}
    user = [2, 3, 4, 5, 6]
    for c in [2, 3, 4]:
        add({"k": "exactly", "c": c, "bound": cls[c]})
        add({"k": "strict", "c": c, "bound": cls[c]})
    add({"k": "hasmethod", "name": "ma"})
    add({"k": "hasmethod", "name": "mc"})
    d1 = []
    pairs = [(2, 4), (4, 2), (3, 4), (2, 3), (3, 5), (4, 6), (7, 9), (9, 7), (7, 4)]
    for a, b in pairs:
        d1.append(add({"k": "union", "args": [cls[a], cls[b]]}))
    # overlapping unions (share a member) and a 3-member one
    d1.append(add({"k": "union", "args": [cls[2], cls[9]]}))
    d1.append(add({"k": "union", "args": [cls[2], cls[4], cls[9]]}))
    for a, b in [(2, 4), (4, 2), (3, 4), (2, 6), (4, 6)]:
        d1.append(add({"k": "inter", "args": [cls[a], cls[b]]}))
    d1.append(add({"k": "inter", "args": [cls[2], cls[9]]}))
    # value-dependent
    lits = [add({"k": "lit", "vals": [v], "bound": cls[7]}) for v in (0, 1)]
    lits.append(add({"k": "lit", "vals": [0, 1], "bound": cls[7]}))
    lits.append(add({"k": "lit", "vals": ["a"], "bound": cls[9]}))
    add({"k": "dep", "bound": cls[7], "pred": "pos"})
    add({"k": "dep", "bound": cls[7], "pred": "even"})
    add({"k": "dep", "bound": cls[2], "pred": "any"})
    add({"k": "dep", "bound": cls[1], "pred": "any"})
    # bounds that are subclasses of each other (identical runtime protocols): the order of the bounds is SAME
    add({"k": "dep", "bound": cls[10], "pred": "any"})
    add({"k": "dep", "bound": cls[11], "pred": "any"})
    # tuple[...]
    tup = add({"k": "cls", "c": 0, "builtin": "tuple"})
    add({"k": "prod", "args": [cls[2], cls[4]], "bound": tup})
    add({"k": "prod", "args": [cls[3], cls[4]], "bound": tup})
    add({"k": "prod", "args": [cls[2]], "bound": tup})
    # type[...]
    tys = {c: add({"k": "typeof", "arg": cls[c]}) for c in (1, 2, 3, 4)}
    # generic aliases
    lst = add({"k": "cls", "c": 0, "builtin": "list"})
    dct = add({"k": "cls", "c": 0, "builtin": "dict"})
    gl = {c: add({"k": "gen", "origin": lst, "oname": "list", "args": [cls[c]]}) for c in (2, 3, 4)}
    add({"k": "gen", "origin": dct, "oname": "dict", "args": [cls[9], cls[2]]})
    add({"k": "gen", "origin": dct, "oname": "dict", "args": [cls[9], cls[3]]})
    add({"k": "gen", "origin": dct, "oname": "dict", "args": [cls[9]]})  # same origin, other arity
    # another origin above list: Sequence[...] against list[...] compares origins and arguments
    seq = add({"k": "cls", "c": 0, "builtin": "Sequence"})
    add({"k": "gen", "origin": seq, "oname": "Sequence", "args": [cls[2]]})
    add({"k": "gen", "origin": seq, "oname": "Sequence", "args": [cls[3]]})
    add({"k": "gen", "origin": lst, "oname": "list", "args": [cls[1]]})
    add({"k": "gen", "origin": lst, "oname": "list", "args": [cls[10]]})
    add({"k": "gen", "origin": lst, "oname": "list", "args": [cls[11]]})
    add({"k": "typeof", "arg": gl[2]})
    add({"k": "typeof", "arg": gl[3]})
    if depth2:
        u24 = index[repr(sorted({"k": "union", "args": [cls[2], cls[4]]}.items()))]
        i24 = index[repr(sorted({"k": "inter", "args": [cls[2], cls[4]]}.items()))]
        ex3 = index[repr(sorted({"k": "exactly", "c": 3, "bound": cls[3]}.items()))]
        add({"k": "union", "args": [i24, cls[9]]})
        add({"k": "union", "args": [ex3, cls[4]]})
        add({"k": "inter", "args": [u24, cls[6]]})
        add({"k": "union", "args": [lits[0], cls[9]]})
        add({"k": "inter", "args": [lits[2], index[repr(sorted({"k": "dep", "bound": cls[7], "pred": "pos"}.items()))]]})
        add({"k": "prod", "args": [u24, cls[7]], "bound": tup})
        add({"k": "typeof", "arg": u24})
        add({"k": "gen", "origin": lst, "oname": "list", "args": [u24]})
        if big:
            for a, b in itertools.combinations(d1[:10], 2):
                add({"k": "union", "args": [a, b]})
            for a, b in itertools.combinations(d1[8:16], 2):
                add({"k": "inter", "args": [a, b]})
    return T


class Realizer:
    def __init__(self):
        import abc
        import typing

        self.typing = typing
        classes = [None, object]
        for c in range(2, NCLS + 1):
            kind = KINDS[c - 1]
            if kind.startswith("builtin:"):
                classes.append({"int": int, "bool": bool, "str": str}[kind.split(":")[1]])
                continue
            if kind.startswith("proto:"):
                meth = kind.split(":")[1]
                pc = type(typing.Protocol)(f"K{c}", (typing.Protocol,), {"__module__": "vfworld", meth: lambda self: None})
                classes.append(typing.runtime_checkable(pc))
                continue
            ps = sorted([p for p in PARENTS[c - 1] if p != 1 and [c, p] not in VIRT and p < c], reverse=True)
            bases = tuple(classes[p] for p in ps)
            ns = {"__module__": "vfworld"}
            for a in ATTRS[c - 1]:
                ns[a] = lambda self: None
            if kind == "abc":
                cls = abc.ABCMeta(f"K{c}", bases or (abc.ABC,), ns)
            else:
                cls = type(f"K{c}", bases or (object,), ns)
            classes.append(cls)
        for c, p in VIRT:
            if KINDS[p - 1] == "abc":
                classes[p].register(classes[c])
        self.classes = classes
        self.preds = {"pos": lambda x: x > 0, "even": lambda x: x % 2 == 0, "any": lambda x: True}
        self.cache = {}

    def real_twin(self, T, i):
        """The same type written a second time (a second annotation): a new object for the outermost
        constructor over the same members."""
        keep = self.cache.pop(i, None)
        try:
            return self.real(T, i)
        finally:
            if keep is not None:
                self.cache[i] = keep

    def real(self, T, i):
        if i in self.cache:
            return self.cache[i]
        from ovld import Dependent
        from ovld.types import Exactly, HasMethod, Intersection, StrictSubclass, Union
        from ovld.types import normalize_type

        t = T[i - 1]
        k = t["k"]
        if k == "cls":
            if t["c"]:
                r = self.classes[t["c"]]
            else:
                import collections.abc

                r = {"tuple": tuple, "list": list, "dict": dict, "Sequence": collections.abc.Sequence}[t["builtin"]]
        elif k == "exactly":
            r = Exactly[self.classes[t["c"]]]
        elif k == "strict":
            r = StrictSubclass[self.classes[t["c"]]]
        elif k == "hasmethod":
            r = HasMethod[t["name"]]
        elif k == "union":
            r = Union[tuple(self.real(T, a) for a in t["args"])]
        elif k == "inter":
            r = Intersection[tuple(self.real(T, a) for a in t["args"])]
        elif k == "lit":
            r = normalize_type(self.typing.Literal[tuple(t["vals"])], None)
        elif k == "dep":
            r = Dependent[self.real(T, t["bound"]), self.preds[t["pred"]]]
        elif k == "prod":
            r = normalize_type(tuple[tuple(self.real(T, a) for a in t["args"])], None)
        elif k == "typeof":
            r = type[self.real(T, t["arg"])]
        elif k == "gen":
            o = self.real(T, t["origin"])
            r = o[tuple(self.real(T, a) for a in t["args"])]
        else:
            raise ValueError(k)
        self.cache[i] = r
        return r
